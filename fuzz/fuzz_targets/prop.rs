#![no_main]
// One libFuzzer target for every property: VERIF_FUZZ_PROP selects the property, VERIF_FUZZ_STAGE
// the random stage (byte-choice vector = fuzz input) or "@text" (raw UTF-8 text = fuzz input).
// The property's semantic oracle runs inside the target (harness/src/fuzzapi.rs).
use libfuzzer_sys::fuzz_target;

fuzz_target!(|data: &[u8]| {
    vh::fuzzapi::one(data);
});
