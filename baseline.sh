#!/bin/sh
# MANIFEST.hooks.baseline_off_cmd: the repository's pinned suite with the verification cfg OFF.
cd /repo || exit 3
unset RUSTFLAGS
cargo nextest run --workspace --no-fail-fast --tool-config-file pb:/w/lib/nextest.toml --profile pb --test-threads 8 --offline \
  || cargo test --workspace --no-fail-fast --offline
