//! Reference input coercion (October 2021, section 3: 3.5 scalars, 3.9 enums, 3.10 input objects,
//! 3.11 lists, 3.12 non-null) and `CoerceVariableValues` (6.1.2) / `CoerceArgumentValues` (6.4.1).
//! Independent of apollo: nothing in here calls apollo code. JSON values are `serde_json::Value`.
//!
//! Where the specification leaves a choice to the service, apollo-compiler's DOCUMENTED choice is
//! encoded (CHANGELOG 1.31.0, doc comments of `resolvers/input_coercion.rs`):
//!   * `Int`: integer JSON numbers within 32 bits.
//!   * `Float`: every float-typed JSON number (always finite in JSON); integer-typed JSON numbers
//!     only "up to the value 2^53 - 1" in magnitude, "beyond that" they are rejected.
//!   * `ID`: strings and integers, the value is kept as it was transported (not stringified).
//!   * strings are never coerced to numbers or booleans; `Boolean` only from booleans, `String`
//!     only from strings; custom scalars accept any JSON value unchanged.
//!   * enums are transported as JSON strings holding the value name.
//!
//! Verdicts are three-valued: `Ok(value)`, `Fail::Err` (a request error is required) and
//! `Fail::Unspecified` (neither the specification nor apollo's documentation pins the outcome):
//!   * a float-typed integral JSON number (`1.0`) for `Int` (3.5.1 says "integer input values";
//!     whether a transport's `1.0` is one is the transport's business);
//!   * an integer above `i64::MAX` for `ID`;
//!   * inside an actual list whose item type is itself a list, an item that is neither a list nor
//!     null (`[[Int]]` given `[1, 2, 3]`): the October 2021 table of 3.11 says "Error: Incorrect
//!     item value" while the prose of the same section ("this may apply recursively for nested
//!     lists"), graphql-js and later editions of the table (`[[1], [2], [3]]`) wrap each item;
//!   * default values that are not valid literals for their type (the document is invalid then).
//! A definite `Err` anywhere in a value dominates an `Unspecified` elsewhere in it: whichever way
//! the unspecified part is resolved, the whole coercion fails.

use super::ast::{InputValueDef, Type, TypeKind, Value, VarDef};
use super::schema::RefSchema;
use std::cell::RefCell;
use std::collections::BTreeSet;

pub type Json = serde_json::Value;
pub type JsonMap = serde_json::Map<String, Json>;

/// 2^53 - 1, the documented bound for integer-typed JSON numbers given to `Float`.
pub const MAX_SAFE_INT: i64 = (1i64 << 53) - 1;

#[derive(Clone, Debug, PartialEq)]
pub struct Reason {
    /// stable root-cause code, e.g. `Int-out-of-range`
    pub code: &'static str,
    /// where in the value, e.g. `$a[1].x`
    pub path: String,
}

#[derive(Clone, Debug, PartialEq)]
pub enum Fail {
    /// the specification (with apollo's documented scalar rules) requires an error
    Err(Reason),
    /// the outcome is not pinned down; run for crashes only
    Unspecified(Reason),
}

impl Fail {
    pub fn reason(&self) -> &Reason {
        match self {
            Fail::Err(r) | Fail::Unspecified(r) => r,
        }
    }
    pub fn is_err(&self) -> bool {
        matches!(self, Fail::Err(_))
    }
}

/// Deliberate deviations from the specification, used ONLY to name the root cause of an observed
/// disagreement (never as the oracle): "would the observed result be explained by this defect?".
#[derive(Clone, Copy, Debug, Default, PartialEq)]
pub struct Model {
    /// default values (of variables, input fields, arguments) are converted to JSON type-blind,
    /// without input coercion
    pub defaults_uncoerced: bool,
    /// integer JSON numbers of magnitude exactly 2^53 - 1 are rejected for `Float`
    pub float_max_safe_exclusive: bool,
}

pub struct Coercer<'a> {
    pub schema: &'a RefSchema,
    pub model: Model,
    /// features met while coercing (for class histograms and root-cause naming)
    pub notes: RefCell<BTreeSet<&'static str>>,
}

const MAX_DEPTH: usize = 64;

fn err<T>(code: &'static str, path: &str) -> Result<T, Fail> {
    Err(Fail::Err(Reason { code, path: path.to_string() }))
}
fn unspecified<T>(code: &'static str, path: &str) -> Result<T, Fail> {
    Err(Fail::Unspecified(Reason { code, path: path.to_string() }))
}

/// Keep the dominant failure: the first `Err`, else the first `Unspecified`.
fn merge(acc: &mut Option<Fail>, f: Fail) {
    match (&acc, &f) {
        (None, _) => *acc = Some(f),
        (Some(Fail::Unspecified(_)), Fail::Err(_)) => *acc = Some(f),
        _ => {}
    }
}

enum Num {
    I(i64),
    /// above i64::MAX
    U,
    F(f64),
}

fn classify(n: &serde_json::Number) -> Num {
    if let Some(i) = n.as_i64() {
        Num::I(i)
    } else if let Some(_) = n.as_u64() {
        Num::U
    } else {
        Num::F(n.as_f64().unwrap_or(f64::NAN))
    }
}

fn kind_name(v: &Json) -> &'static str {
    match v {
        Json::Null => "null",
        Json::Bool(_) => "boolean",
        Json::Number(_) => "number",
        Json::String(_) => "string",
        Json::Array(_) => "array",
        Json::Object(_) => "object",
    }
}

impl<'a> Coercer<'a> {
    pub fn new(schema: &'a RefSchema) -> Coercer<'a> {
        Coercer { schema, model: Model::default(), notes: RefCell::new(BTreeSet::new()) }
    }
    pub fn with_model(schema: &'a RefSchema, model: Model) -> Coercer<'a> {
        Coercer { schema, model, notes: RefCell::new(BTreeSet::new()) }
    }
    fn note(&self, n: &'static str) {
        self.notes.borrow_mut().insert(n);
    }

    // --------------------------------------------------------------------------------------------
    // Transported (JSON) values: variables

    /// Input coercion of a transported value to input type `ty`.
    pub fn coerce_value(&self, ty: &Type, v: &Json, path: &str) -> Result<Json, Fail> {
        self.value(ty, v, path, 0)
    }

    fn value(&self, ty: &Type, v: &Json, path: &str, depth: usize) -> Result<Json, Fail> {
        if depth > MAX_DEPTH {
            return unspecified("too-deep", path);
        }
        match ty {
            // 3.12
            Type::NonNull(inner) => {
                if v.is_null() {
                    return err("null-for-non-null", path);
                }
                self.value(inner, v, path, depth)
            }
            _ if v.is_null() => Ok(Json::Null),
            // 3.11
            Type::List(item) => match v {
                Json::Array(items) => {
                    let item_is_list = item.is_list();
                    let mut out = Vec::with_capacity(items.len());
                    let mut bad: Option<Fail> = None;
                    for (i, x) in items.iter().enumerate() {
                        let p = format!("{}[{}]", path, i);
                        let r = self.value(item, x, &p, depth + 1);
                        let r = if item_is_list && !x.is_array() && !x.is_null() {
                            // October 2021 table: error; prose and later editions: wrap
                            self.note("nested-list-item-not-a-list");
                            match r {
                                Ok(_) => unspecified("nested-list-item-not-a-list", &p),
                                Err(Fail::Unspecified(r)) => Err(Fail::Unspecified(r)),
                                // both readings fail
                                Err(Fail::Err(_)) => err("nested-list-item-not-a-list", &p),
                            }
                        } else {
                            r
                        };
                        match r {
                            Ok(x) => out.push(x),
                            Err(f) => merge(&mut bad, f),
                        }
                    }
                    match bad {
                        Some(f) => Err(f),
                        None => Ok(Json::Array(out)),
                    }
                }
                single => {
                    self.note("single-value-wrapped");
                    Ok(Json::Array(vec![self.value(item, single, path, depth + 1)?]))
                }
            },
            Type::Named(name) => self.named(name, v, path, depth),
        }
    }

    fn named(&self, name: &str, v: &Json, path: &str, depth: usize) -> Result<Json, Fail> {
        let Some(def) = self.schema.get(name) else {
            return unspecified("undefined-type", path);
        };
        match def.kind {
            TypeKind::Scalar => self.scalar(name, v, path),
            // 3.9
            TypeKind::Enum => match v {
                Json::String(s) => {
                    if def.values.iter().any(|e| e.name == *s) {
                        Ok(v.clone())
                    } else {
                        err("Enum-unknown-value", path)
                    }
                }
                _ => err("Enum-wrong-kind", path),
            },
            // 3.10
            TypeKind::InputObject => {
                let Json::Object(obj) = v else {
                    return err("InputObject-wrong-kind", path);
                };
                let mut bad: Option<Fail> = None;
                for k in obj.keys() {
                    if !def.input_fields.iter().any(|f| f.name == *k) {
                        merge(&mut bad, Fail::Err(Reason { code: "InputObject-unknown-field", path: format!("{}.{}", path, k) }));
                    }
                }
                let mut out = JsonMap::new();
                for f in &def.input_fields {
                    let p = format!("{}.{}", path, f.name);
                    match obj.get(&f.name) {
                        Some(x) => match self.value(&f.ty, x, &p, depth + 1) {
                            Ok(x) => {
                                out.insert(f.name.clone(), x);
                            }
                            Err(e) => merge(&mut bad, e),
                        },
                        None => match self.field_default(f, &p, depth) {
                            Ok(Some(x)) => {
                                out.insert(f.name.clone(), x);
                            }
                            Ok(None) => {}
                            Err(e) => merge(&mut bad, e),
                        },
                    }
                }
                match bad {
                    Some(f) => Err(f),
                    None => Ok(Json::Object(out)),
                }
            }
            _ => unspecified("not-an-input-type", path),
        }
    }

    /// An input field / argument for which no value was provided: its coerced default, nothing
    /// (nullable, no default), or an error (non-null, no default).
    fn field_default(&self, f: &InputValueDef, path: &str, depth: usize) -> Result<Option<Json>, Fail> {
        match &f.default {
            Some(d) => {
                self.note("input-field-default-used");
                self.default_literal(&f.ty, d, path, depth).map(Some)
            }
            None if f.ty.is_non_null() => err("InputObject-missing-required-field", path),
            None => Ok(None),
        }
    }

    /// A default value (a constant literal, valid for its type by the validation rules).
    fn default_literal(&self, ty: &Type, d: &Value, path: &str, depth: usize) -> Result<Json, Fail> {
        if self.model.defaults_uncoerced {
            return self.untyped(d, None, path).map(|v| v.unwrap_or(Json::Null));
        }
        match self.literal(ty, d, None, path, depth + 1) {
            Ok(v) => Ok(v),
            Err(Fail::Unspecified(r)) => Err(Fail::Unspecified(r)),
            // an invalid default makes the document invalid: no statement
            Err(Fail::Err(r)) => unspecified("invalid-default-value", &r.path),
        }
    }

    /// 3.5
    fn scalar(&self, name: &str, v: &Json, path: &str) -> Result<Json, Fail> {
        match name {
            "Int" => match v {
                Json::Number(n) => match classify(n) {
                    Num::I(i) if i32::try_from(i).is_ok() => Ok(v.clone()),
                    Num::I(_) | Num::U => err("Int-out-of-range", path),
                    Num::F(f) if f.fract() == 0.0 && f >= -2147483648.0 && f <= 2147483647.0 => {
                        self.note("int-from-integral-float");
                        unspecified("Int-from-integral-float", path)
                    }
                    Num::F(f) if f.fract() == 0.0 => err("Int-out-of-range", path),
                    Num::F(_) => err("Int-not-integer", path),
                },
                _ => err("Int-wrong-kind", path),
            },
            "Float" => match v {
                Json::Number(n) => match classify(n) {
                    Num::F(_) => Ok(v.clone()),
                    Num::I(i) => {
                        let mag = i.unsigned_abs();
                        if mag == MAX_SAFE_INT as u64 {
                            self.note("float-int-at-max-safe");
                            if self.model.float_max_safe_exclusive {
                                return err("Float-int-beyond-precision", path);
                            }
                        }
                        if mag <= MAX_SAFE_INT as u64 {
                            Ok(v.clone())
                        } else {
                            err("Float-int-beyond-precision", path)
                        }
                    }
                    Num::U => err("Float-int-beyond-precision", path),
                },
                _ => err("Float-wrong-kind", path),
            },
            "String" => match v {
                Json::String(_) => Ok(v.clone()),
                _ => err("String-wrong-kind", path),
            },
            "Boolean" => match v {
                Json::Bool(_) => Ok(v.clone()),
                _ => err("Boolean-wrong-kind", path),
            },
            "ID" => match v {
                Json::String(_) => Ok(v.clone()),
                Json::Number(n) => match classify(n) {
                    Num::I(_) => Ok(v.clone()),
                    Num::U => {
                        self.note("id-above-i64");
                        unspecified("ID-integer-above-i64", path)
                    }
                    Num::F(_) => err("ID-float", path),
                },
                _ => err("ID-wrong-kind", path),
            },
            // custom scalar: any value, unchanged
            _ => Ok(v.clone()),
        }
    }

    // --------------------------------------------------------------------------------------------
    // Literals (ast::Value): defaults and arguments

    /// Input coercion of a literal to input type `ty`. `variables` are the already coerced
    /// variable values (`None` for constant positions). A variable nested in a list or input
    /// object is replaced by its runtime value; one without a runtime value counts as "not
    /// provided" in an input object field (3.10) and is an error at the top level or in a list
    /// (top-level variables of arguments are the business of `coerce_argument_values`).
    pub fn coerce_literal(&self, ty: &Type, v: &Value, variables: Option<&JsonMap>, path: &str) -> Result<Json, Fail> {
        self.literal(ty, v, variables, path, 0)
    }

    fn literal(&self, ty: &Type, v: &Value, vars: Option<&JsonMap>, path: &str, depth: usize) -> Result<Json, Fail> {
        if depth > MAX_DEPTH {
            return unspecified("too-deep", path);
        }
        if let Value::Var(name) = v {
            // the runtime value was coerced by CoerceVariableValues; only nullability is re-checked
            return match vars.and_then(|m| m.get(name)) {
                Some(x) if x.is_null() && ty.is_non_null() => err("null-for-non-null", path),
                Some(x) => Ok(x.clone()),
                None => err("variable-without-value", path),
            };
        }
        match ty {
            Type::NonNull(inner) => {
                if *v == Value::Null {
                    return err("null-for-non-null", path);
                }
                self.literal(inner, v, vars, path, depth)
            }
            _ if *v == Value::Null => Ok(Json::Null),
            Type::List(item) => match v {
                Value::List(items) => {
                    let item_is_list = item.is_list();
                    let mut out = Vec::with_capacity(items.len());
                    let mut bad: Option<Fail> = None;
                    for (i, x) in items.iter().enumerate() {
                        let p = format!("{}[{}]", path, i);
                        // a variable without a runtime value inside a list: null if allowed
                        if let Value::Var(n) = x {
                            if vars.and_then(|m| m.get(n)).is_none() {
                                if item.is_non_null() {
                                    merge(&mut bad, Fail::Err(Reason { code: "variable-without-value", path: p }));
                                } else {
                                    out.push(Json::Null);
                                }
                                continue;
                            }
                        }
                        let r = self.literal(item, x, vars, &p, depth + 1);
                        let r = if item_is_list && !matches!(x, Value::List(_) | Value::Null | Value::Var(_)) {
                            self.note("nested-list-item-not-a-list");
                            match r {
                                Ok(_) => unspecified("nested-list-item-not-a-list", &p),
                                Err(Fail::Unspecified(r)) => Err(Fail::Unspecified(r)),
                                Err(Fail::Err(_)) => err("nested-list-item-not-a-list", &p),
                            }
                        } else {
                            r
                        };
                        match r {
                            Ok(x) => out.push(x),
                            Err(f) => merge(&mut bad, f),
                        }
                    }
                    match bad {
                        Some(f) => Err(f),
                        None => Ok(Json::Array(out)),
                    }
                }
                single => {
                    self.note("single-value-wrapped");
                    Ok(Json::Array(vec![self.literal(item, single, vars, path, depth + 1)?]))
                }
            },
            Type::Named(name) => {
                let Some(def) = self.schema.get(name) else {
                    return unspecified("undefined-type", path);
                };
                match def.kind {
                    TypeKind::Scalar => self.scalar_literal(name, v, vars, path),
                    TypeKind::Enum => match v {
                        Value::Enum(e) if def.values.iter().any(|x| x.name == *e) => Ok(Json::String(e.clone())),
                        Value::Enum(_) => err("Enum-unknown-value", path),
                        _ => err("Enum-wrong-kind", path),
                    },
                    TypeKind::InputObject => {
                        let Value::Object(fields) = v else {
                            return err("InputObject-wrong-kind", path);
                        };
                        let mut bad: Option<Fail> = None;
                        for (k, _) in fields {
                            if !def.input_fields.iter().any(|f| f.name == *k) {
                                merge(&mut bad, Fail::Err(Reason { code: "InputObject-unknown-field", path: format!("{}.{}", path, k) }));
                            }
                        }
                        let mut out = JsonMap::new();
                        for f in &def.input_fields {
                            let p = format!("{}.{}", path, f.name);
                            let provided = fields.iter().find(|(k, _)| *k == f.name).map(|(_, x)| x);
                            // `{ a: $var }` without a runtime value for $var: as if `a` was not given
                            let provided = match provided {
                                Some(Value::Var(n)) if vars.and_then(|m| m.get(n)).is_none() => None,
                                p => p,
                            };
                            match provided {
                                Some(x) => match self.literal(&f.ty, x, vars, &p, depth + 1) {
                                    Ok(x) => {
                                        out.insert(f.name.clone(), x);
                                    }
                                    Err(e) => merge(&mut bad, e),
                                },
                                None => match self.field_default(f, &p, depth) {
                                    Ok(Some(x)) => {
                                        out.insert(f.name.clone(), x);
                                    }
                                    Ok(None) => {}
                                    Err(e) => merge(&mut bad, e),
                                },
                            }
                        }
                        match bad {
                            Some(f) => Err(f),
                            None => Ok(Json::Object(out)),
                        }
                    }
                    _ => unspecified("not-an-input-type", path),
                }
            }
        }
    }

    fn scalar_literal(&self, name: &str, v: &Value, vars: Option<&JsonMap>, path: &str) -> Result<Json, Fail> {
        match name {
            "Int" => match v {
                Value::Int(t) => match t.parse::<i64>() {
                    Ok(i) if i32::try_from(i).is_ok() => Ok(Json::from(i)),
                    _ => err("Int-out-of-range", path),
                },
                _ => err("Int-wrong-kind", path),
            },
            "Float" => match v {
                Value::Int(t) => match t.parse::<i64>() {
                    Ok(i) => Ok(Json::from(i)),
                    Err(_) => match t.parse::<f64>() {
                        Ok(f) if f.is_finite() => Ok(Json::from(f)),
                        _ => err("Float-not-finite", path),
                    },
                },
                Value::Float(t) => match t.parse::<f64>() {
                    Ok(f) if f.is_finite() => Ok(Json::from(f)),
                    _ => err("Float-not-finite", path),
                },
                _ => err("Float-wrong-kind", path),
            },
            "String" => match v {
                Value::Str(s) => Ok(Json::String(s.value.clone())),
                _ => err("String-wrong-kind", path),
            },
            "Boolean" => match v {
                Value::Bool(b) => Ok(Json::Bool(*b)),
                _ => err("Boolean-wrong-kind", path),
            },
            "ID" => match v {
                Value::Str(s) => Ok(Json::String(s.value.clone())),
                Value::Int(t) => match t.parse::<i64>() {
                    Ok(i) => Ok(Json::from(i)),
                    Err(_) => unspecified("ID-integer-above-i64", path),
                },
                _ => err("ID-wrong-kind", path),
            },
            _ => self.untyped(v, vars, path).map(|x| x.unwrap_or(Json::Null)),
        }
    }

    /// Type-blind conversion of a literal (custom scalars): enum values become strings, variables
    /// are replaced by their runtime values (`Ok(None)`: a variable without a runtime value).
    pub fn untyped(&self, v: &Value, vars: Option<&JsonMap>, path: &str) -> Result<Option<Json>, Fail> {
        Ok(Some(match v {
            Value::Var(n) => return Ok(vars.and_then(|m| m.get(n)).cloned()),
            Value::Int(t) => match t.parse::<i64>() {
                Ok(i) => Json::from(i),
                Err(_) => match t.parse::<u64>() {
                    Ok(u) => Json::from(u),
                    Err(_) => match t.parse::<f64>() {
                        Ok(f) if f.is_finite() => Json::from(f),
                        _ => return err("number-not-finite", path),
                    },
                },
            },
            Value::Float(t) => match t.parse::<f64>() {
                Ok(f) if f.is_finite() => Json::from(f),
                _ => return err("number-not-finite", path),
            },
            Value::Str(s) => Json::String(s.value.clone()),
            Value::Bool(b) => Json::Bool(*b),
            Value::Null => Json::Null,
            Value::Enum(e) => Json::String(e.clone()),
            Value::List(items) => {
                let mut out = vec![];
                for (i, x) in items.iter().enumerate() {
                    out.push(self.untyped(x, vars, &format!("{}[{}]", path, i))?.unwrap_or(Json::Null));
                }
                Json::Array(out)
            }
            Value::Object(fields) => {
                let mut out = JsonMap::new();
                for (k, x) in fields {
                    if let Some(x) = self.untyped(x, vars, &format!("{}.{}", path, k))? {
                        out.insert(k.clone(), x);
                    }
                }
                Json::Object(out)
            }
        }))
    }

    // --------------------------------------------------------------------------------------------
    // 6.1.2 CoerceVariableValues

    /// The coerced values of exactly the provided-or-defaulted declared variables. Entries of
    /// `values` that are not declared are ignored. All variables are evaluated (an `Err` in a
    /// later variable dominates an `Unspecified` in an earlier one).
    pub fn coerce_variable_values(&self, defs: &[VarDef], values: &JsonMap) -> Result<JsonMap, Fail> {
        let mut out = JsonMap::new();
        let mut bad: Option<Fail> = None;
        for d in defs {
            match self.coerce_variable(d, values.get(&d.name)) {
                Ok(Some(v)) => {
                    out.insert(d.name.clone(), v);
                }
                Ok(None) => {}
                Err(f) => merge(&mut bad, f),
            }
        }
        match bad {
            Some(f) => Err(f),
            None => Ok(out),
        }
    }

    /// One variable: `Ok(None)` = no entry (nullable, not provided, no default).
    pub fn coerce_variable(&self, d: &VarDef, provided: Option<&Json>) -> Result<Option<Json>, Fail> {
        let path = format!("${}", d.name);
        match (provided, &d.default) {
            // "If hasValue is not true and defaultValue exists (including null)"
            (None, Some(default)) => {
                self.note("variable-default-used");
                self.default_literal(&d.ty, default, &path, 0).map(Some)
            }
            // "if variableType is a Non-Nullable type, and either hasValue is not true or value is null"
            (None, None) if d.ty.is_non_null() => err("missing-non-null-variable", &path),
            (None, None) => Ok(None),
            (Some(v), _) => self.value(&d.ty, v, &path, 0).map(Some),
        }
    }

    // --------------------------------------------------------------------------------------------
    // 6.4.1 CoerceArgumentValues

    /// Coerced argument values of a field or directive: `arg_defs` from the definition, `args`
    /// as written, `variables` the coerced variable values.
    pub fn coerce_argument_values(&self, arg_defs: &[InputValueDef], args: &[(String, Value)], variables: &JsonMap) -> Result<JsonMap, Fail> {
        let mut out = JsonMap::new();
        let mut bad: Option<Fail> = None;
        for def in arg_defs {
            let path = format!("({}:)", def.name);
            let provided = args.iter().find(|(n, _)| *n == def.name).map(|(_, v)| v);
            // hasValue / value
            let value: Option<Result<Json, Fail>> = match provided {
                Some(Value::Var(n)) => variables.get(n).map(|x| Ok(x.clone())),
                Some(lit) => Some(self.literal(&def.ty, lit, Some(variables), &path, 0)),
                None => None,
            };
            let r: Result<Option<Json>, Fail> = match value {
                None => self.field_default(def, &path, 0).map_err(|f| match f {
                    Fail::Err(r) if r.code == "InputObject-missing-required-field" => Fail::Err(Reason { code: "missing-required-argument", path: r.path }),
                    f => f,
                }),
                Some(Ok(v)) if v.is_null() && def.ty.is_non_null() => err("null-for-non-null", &path),
                Some(Ok(v)) => Ok(Some(v)),
                Some(Err(f)) => Err(f),
            };
            match r {
                Ok(Some(v)) => {
                    out.insert(def.name.clone(), v);
                }
                Ok(None) => {}
                Err(f) => merge(&mut bad, f),
            }
        }
        match bad {
            Some(f) => Err(f),
            None => Ok(out),
        }
    }
}

// ------------------------------------------------------------------------------------------------
// Free-function API (specification model)

/// Input coercion of a transported JSON value (3.5, 3.9–3.12).
pub fn coerce_value(schema: &RefSchema, ty: &Type, v: &Json) -> Result<Json, Fail> {
    Coercer::new(schema).coerce_value(ty, v, "$")
}

/// Input coercion of a literal; see [`Coercer::coerce_literal`].
pub fn coerce_literal(schema: &RefSchema, ty: &Type, v: &Value, variables: Option<&JsonMap>) -> Result<Json, Fail> {
    Coercer::new(schema).coerce_literal(ty, v, variables, "$")
}

/// CoerceVariableValues (6.1.2).
pub fn coerce_variable_values(schema: &RefSchema, defs: &[VarDef], values: &JsonMap) -> Result<JsonMap, Fail> {
    Coercer::new(schema).coerce_variable_values(defs, values)
}

/// CoerceArgumentValues (6.4.1).
pub fn coerce_argument_values(schema: &RefSchema, arg_defs: &[InputValueDef], args: &[(String, Value)], variables: &JsonMap) -> Result<JsonMap, Fail> {
    Coercer::new(schema).coerce_argument_values(arg_defs, args, variables)
}

// ------------------------------------------------------------------------------------------------
// Type-directed comparison of coerced values

#[derive(Clone, Debug, PartialEq)]
pub struct Diff {
    /// `list-wrap` (expected a list, got its single item), `missing-field-with-default`,
    /// `missing-field`, `extra-field`, `list-length`, `kind`, `leaf|<type kind>`
    pub kind: String,
    pub path: String,
    pub expected: String,
    pub got: String,
}

fn diff(kind: impl Into<String>, path: &str, e: &Json, g: &Json) -> Result<(), Diff> {
    Err(Diff { kind: kind.into(), path: path.to_string(), expected: e.to_string(), got: g.to_string() })
}

/// Is `got` the coerced value `expected` of type `ty`, up to the representation freedoms the
/// specification grants: `Float` compared numerically (`1` and `1.0` are the same Float), `ID`
/// integer `4` and string `"4"` are the same ID, object key order is irrelevant. Custom scalars
/// are compared exactly.
pub fn same_coerced(schema: &RefSchema, ty: &Type, expected: &Json, got: &Json, path: &str) -> Result<(), Diff> {
    match ty {
        Type::NonNull(t) => same_coerced(schema, t, expected, got, path),
        _ if expected.is_null() || got.is_null() => {
            if expected.is_null() && got.is_null() {
                Ok(())
            } else {
                diff("kind", path, expected, got)
            }
        }
        Type::List(item) => match (expected, got) {
            (Json::Array(e), Json::Array(g)) => {
                if e.len() != g.len() {
                    return diff("list-length", path, expected, got);
                }
                for (i, (x, y)) in e.iter().zip(g.iter()).enumerate() {
                    same_coerced(schema, item, x, y, &format!("{}[{}]", path, i))?;
                }
                Ok(())
            }
            (Json::Array(_), _) => diff("list-wrap", path, expected, got),
            _ => diff("kind", path, expected, got),
        },
        Type::Named(name) => {
            let kind = schema.kind(name);
            match kind {
                Some(TypeKind::InputObject) => {
                    let (Json::Object(e), Json::Object(g)) = (expected, got) else {
                        return diff("kind", path, expected, got);
                    };
                    let def = schema.get(name).unwrap();
                    for f in &def.input_fields {
                        let p = format!("{}.{}", path, f.name);
                        match (e.get(&f.name), g.get(&f.name)) {
                            (Some(x), Some(y)) => same_coerced(schema, &f.ty, x, y, &p)?,
                            (Some(x), None) => {
                                return diff(if f.default.is_some() { "missing-field-with-default" } else { "missing-field" }, &p, x, &Json::Null);
                            }
                            (None, Some(y)) => return diff("extra-field", &p, &Json::Null, y),
                            (None, None) => {}
                        }
                    }
                    for (k, y) in g {
                        if !def.input_fields.iter().any(|f| f.name == *k) {
                            return diff("extra-field", &format!("{}.{}", path, k), &Json::Null, y);
                        }
                    }
                    Ok(())
                }
                Some(TypeKind::Enum) => {
                    if expected == got {
                        Ok(())
                    } else {
                        diff("leaf|Enum", path, expected, got)
                    }
                }
                _ => {
                    let ok = match name.as_str() {
                        "Float" => match (expected.as_f64(), got.as_f64()) {
                            (Some(a), Some(b)) => a == b && expected.is_number() && got.is_number(),
                            _ => false,
                        },
                        "Int" => match (expected.as_i64(), got.as_i64()) {
                            (Some(a), Some(b)) => a == b,
                            _ => false,
                        },
                        "ID" => {
                            let norm = |v: &Json| -> Option<String> {
                                match v {
                                    Json::String(s) => Some(s.clone()),
                                    Json::Number(n) => n.as_i64().map(|i| i.to_string()).or_else(|| n.as_u64().map(|u| u.to_string())),
                                    _ => None,
                                }
                            };
                            match (norm(expected), norm(got)) {
                                (Some(a), Some(b)) => a == b,
                                _ => false,
                            }
                        }
                        // String, Boolean, custom scalars: exactly
                        _ => expected == got,
                    };
                    if ok {
                        Ok(())
                    } else if kind_name(expected) != kind_name(got) {
                        diff("kind", path, expected, got)
                    } else {
                        let k = if super::schema::BUILTIN_SCALARS.contains(&name.as_str()) { name.as_str() } else { "CustomScalar" };
                        diff(format!("leaf|{}", k), path, expected, got)
                    }
                }
            }
        }
    }
}

#[cfg(test)]
mod tests {
    use super::*;
    use crate::refmodel::parser::{parse_document, parse_type_whole, P};
    use serde_json::json;

    fn schema(sdl: &str) -> RefSchema {
        RefSchema::from_document(&parse_document(sdl).unwrap())
    }
    fn ty(s: &str) -> Type {
        parse_type_whole(s).unwrap()
    }
    fn lit(s: &str) -> Value {
        P::new(s).unwrap().value(false).unwrap()
    }
    fn code<T: std::fmt::Debug>(r: Result<T, Fail>) -> String {
        match r {
            Ok(v) => format!("ok {:?}", v),
            Err(Fail::Err(r)) => format!("err {}", r.code),
            Err(Fail::Unspecified(r)) => format!("unspecified {}", r.code),
        }
    }
    const SDL: &str = "type Query { a: Int } scalar Any enum Color { RED GREEN } \
        input ExampleInputObject { a: String b: Int! } \
        input In { x: Int = 1 y: Int xs: [Int] = 3 e: Color = RED nested: In2 } input In2 { req: Boolean! opt: [In2!] s: String = \"d\" }";

    /// Table of section 3.11 (lists), both for transported values and for literals.
    #[test]
    fn list_table() {
        let s = schema(SDL);
        let cases: &[(&str, &str, Result<&str, &str>)] = &[
            ("[Int]", "[1, 2, 3]", Ok("[1,2,3]")),
            ("[Int]", "[1, \"b\", true]", Err("err Int-wrong-kind")),
            ("[Int]", "1", Ok("[1]")),
            ("[Int]", "null", Ok("null")),
            ("[[Int]]", "[[1], [2, 3]]", Ok("[[1],[2,3]]")),
            // October 2021: error; prose and later editions: [[1],[2],[3]]
            ("[[Int]]", "[1, 2, 3]", Err("unspecified nested-list-item-not-a-list")),
            ("[[Int]]", "1", Ok("[[1]]")),
            ("[[Int]]", "null", Ok("null")),
            // both readings fail
            ("[[Int]]", "[\"x\"]", Err("err nested-list-item-not-a-list")),
            // an Err elsewhere dominates
            ("[[Int]]", "[1, [\"x\"]]", Err("err Int-wrong-kind")),
            ("[Int!]", "[1, null]", Err("err null-for-non-null")),
            ("[Int]!", "null", Err("err null-for-non-null")),
            ("[Int!]!", "7", Ok("[7]")),
            ("[[Int!]]!", "[null, [1]]", Ok("[null,[1]]")),
        ];
        for (t, input, want) in cases {
            let j: Json = serde_json::from_str(input).unwrap();
            let got = coerce_value(&s, &ty(t), &j);
            let got_l = coerce_literal(&s, &ty(t), &lit(input), None);
            for (which, got) in [("json", got), ("literal", got_l)] {
                match want {
                    Ok(w) => assert_eq!(got.clone().map(|v| v.to_string()), Ok(w.to_string()), "{which} {t} <- {input}"),
                    Err(w) => assert_eq!(code(got), *w, "{which} {t} <- {input}"),
                }
            }
        }
    }

    /// Table of section 3.10 (input objects): literal, variables -> coerced value.
    #[test]
    fn input_object_table() {
        let s = schema(SDL);
        let t = ty("ExampleInputObject");
        let cases: &[(&str, &str, Result<&str, &str>)] = &[
            ("{ a: \"abc\", b: 123 }", "{}", Ok(r#"{"a":"abc","b":123}"#)),
            ("{ a: null, b: 123 }", "{}", Ok(r#"{"a":null,"b":123}"#)),
            ("{ b: 123 }", "{}", Ok(r#"{"b":123}"#)),
            ("{ a: $var, b: 123 }", r#"{"var": null}"#, Ok(r#"{"a":null,"b":123}"#)),
            ("{ a: $var, b: 123 }", "{}", Ok(r#"{"b":123}"#)),
            ("{ b: $var }", r#"{"var": 123}"#, Ok(r#"{"b":123}"#)),
            ("\"abc123\"", "{}", Err("err InputObject-wrong-kind")),
            ("{ a: \"abc\", b: \"123\" }", "{}", Err("err Int-wrong-kind")),
            ("{ a: \"abc\" }", "{}", Err("err InputObject-missing-required-field")),
            ("{ b: $var }", "{}", Err("err InputObject-missing-required-field")),
            ("{ a: \"abc\", b: null }", "{}", Err("err null-for-non-null")),
            ("{ b: $var }", r#"{"var": null}"#, Err("err null-for-non-null")),
            ("{ b: 123, c: \"xyz\" }", "{}", Err("err InputObject-unknown-field")),
        ];
        for (l, vars, want) in cases {
            let vars: Json = serde_json::from_str(vars).unwrap();
            let got = coerce_literal(&s, &t, &lit(l), Some(vars.as_object().unwrap()));
            match want {
                Ok(w) => assert_eq!(got.map(|v| v.to_string()), Ok(w.to_string()), "{l}"),
                Err(w) => assert_eq!(code(got), *w, "{l}"),
            }
        }
        // the `$var` rows of the table, through CoerceVariableValues
        let defs = vec![VarDef { name: "var".into(), ty: t.clone(), default: None, directives: vec![] }];
        let run = |j: Json| coerce_variable_values(&s, &defs, j.as_object().unwrap());
        assert_eq!(run(json!({"var": {"b": 123}})).unwrap(), *json!({"var": {"b": 123}}).as_object().unwrap());
        assert_eq!(code(run(json!({"var": "abc123"}))), "err InputObject-wrong-kind");
        assert_eq!(code(run(json!({"var": {"a": "abc"}}))), "err InputObject-missing-required-field");
        assert_eq!(code(run(json!({"var": {"b": 1, "c": 2}}))), "err InputObject-unknown-field");
    }

    #[test]
    fn scalars() {
        let s = schema(SDL);
        let c = |t: &str, j: Json| code(coerce_value(&s, &ty(t), &j).map(|v| v.to_string()));
        // 3.5.1 Int
        assert_eq!(c("Int", json!(2147483647)), "ok \"2147483647\"");
        assert_eq!(c("Int", json!(-2147483648i64)), "ok \"-2147483648\"");
        assert_eq!(c("Int", json!(2147483648i64)), "err Int-out-of-range");
        assert_eq!(c("Int", json!(-2147483649i64)), "err Int-out-of-range");
        assert_eq!(c("Int", json!(u64::MAX)), "err Int-out-of-range");
        assert_eq!(c("Int", json!(1.0)), "unspecified Int-from-integral-float");
        assert_eq!(c("Int", json!(2147483648.0)), "err Int-out-of-range");
        assert_eq!(c("Int", json!(1.5)), "err Int-not-integer");
        assert_eq!(c("Int", json!("1")), "err Int-wrong-kind");
        assert_eq!(c("Int", json!(true)), "err Int-wrong-kind");
        assert_eq!(c("Int", json!([1])), "err Int-wrong-kind");
        assert_eq!(c("Int!", json!(null)), "err null-for-non-null");
        assert_eq!(c("Int", json!(null)), "ok \"null\"");
        // 3.5.2 Float
        assert_eq!(c("Float", json!(1.5)), "ok \"1.5\"");
        assert_eq!(c("Float", json!(1)), "ok \"1\"");
        assert_eq!(c("Float", json!(1e300)), "ok \"1e+300\"");
        assert_eq!(c("Float", json!(MAX_SAFE_INT)), format!("ok \"{}\"", MAX_SAFE_INT));
        assert_eq!(c("Float", json!(-MAX_SAFE_INT)), format!("ok \"{}\"", -MAX_SAFE_INT));
        assert_eq!(c("Float", json!(MAX_SAFE_INT + 1)), "err Float-int-beyond-precision");
        assert_eq!(c("Float", json!(i64::MIN)), "err Float-int-beyond-precision");
        assert_eq!(c("Float", json!(u64::MAX)), "err Float-int-beyond-precision");
        assert_eq!(c("Float", json!("1.5")), "err Float-wrong-kind");
        assert_eq!(c("Float", json!(false)), "err Float-wrong-kind");
        // 3.5.3 / 3.5.4
        assert_eq!(c("String", json!("1")), "ok \"\\\"1\\\"\"");
        assert_eq!(c("String", json!(1)), "err String-wrong-kind");
        assert_eq!(c("Boolean", json!(true)), "ok \"true\"");
        assert_eq!(c("Boolean", json!(1)), "err Boolean-wrong-kind");
        assert_eq!(c("Boolean", json!("true")), "err Boolean-wrong-kind");
        // 3.5.5 ID
        assert_eq!(c("ID", json!("4")), "ok \"\\\"4\\\"\"");
        assert_eq!(c("ID", json!(4)), "ok \"4\"");
        assert_eq!(c("ID", json!(-4)), "ok \"-4\"");
        assert_eq!(c("ID", json!(4.0)), "err ID-float");
        assert_eq!(c("ID", json!(u64::MAX)), "unspecified ID-integer-above-i64");
        assert_eq!(c("ID", json!(true)), "err ID-wrong-kind");
        // 3.9 enums
        assert_eq!(c("Color", json!("RED")), "ok \"\\\"RED\\\"\"");
        assert_eq!(c("Color", json!("red")), "err Enum-unknown-value");
        assert_eq!(c("Color", json!(0)), "err Enum-wrong-kind");
        // custom scalars
        assert_eq!(c("Any", json!({"k": [1, "x"]})), "ok \"{\\\"k\\\":[1,\\\"x\\\"]}\"");
        assert_eq!(c("[Any]", json!({"k": 1})), "ok \"[{\\\"k\\\":1}]\"");
        // the model used to name the Float edge
        let m = Coercer::with_model(&s, Model { float_max_safe_exclusive: true, ..Model::default() });
        assert!(m.coerce_value(&ty("Float"), &json!(MAX_SAFE_INT), "$").is_err());
        assert!(m.coerce_value(&ty("Float"), &json!(MAX_SAFE_INT - 1), "$").is_ok());
    }

    #[test]
    fn variables_and_defaults() {
        let s = schema(SDL);
        let doc = parse_document("query Q($a: [Int] = 1, $b: In = {y: 2}, $c: Int, $d: Int! = 4, $e: [[Color!]]) { a }").unwrap();
        let crate::refmodel::ast::Definition::Operation(op) = &doc.defs[0] else { panic!() };
        let run = |j: Json| coerce_variable_values(&s, &op.vars, j.as_object().unwrap());
        // defaults are coerced: wrapped, input-object defaults filled (themselves coerced: xs = 3 -> [3])
        assert_eq!(
            Json::Object(run(json!({})).unwrap()),
            json!({"a": [1], "b": {"x": 1, "y": 2, "xs": [3], "e": "RED"}, "d": 4})
        );
        // provided values win over defaults; explicit null stays; extras are dropped; absent stays absent
        assert_eq!(
            Json::Object(run(json!({"a": null, "b": {"x": null, "nested": {"req": true}}, "zzz": 1, "e": "RED"})).unwrap()),
            json!({"a": null, "b": {"x": null, "xs": [3], "e": "RED", "nested": {"req": true, "s": "d"}}, "d": 4, "e": [["RED"]]})
        );
        assert_eq!(code(run(json!({"d": null}))), "err null-for-non-null");
        assert_eq!(code(run(json!({"b": {"nested": {}}}))), "err InputObject-missing-required-field");
        assert_eq!(code(run(json!({"b": {"nested": {"req": true, "opt": [null]}}}))), "err null-for-non-null");
        // an Err in a later variable dominates an Unspecified in an earlier one
        assert_eq!(code(run(json!({"c": 1.0}))), "unspecified Int-from-integral-float");
        assert_eq!(code(run(json!({"c": 1.0, "d": "x"}))), "err Int-wrong-kind");
        let doc = parse_document("query Q($r: Int!) { a }").unwrap();
        let crate::refmodel::ast::Definition::Operation(op) = &doc.defs[0] else { panic!() };
        assert_eq!(code(coerce_variable_values(&s, &op.vars, &JsonMap::new())), "err missing-non-null-variable");
        // the defect model: defaults converted type-blind
        let doc = parse_document("query Q($a: [Int] = 1, $b: In = {y: 2}) { a }").unwrap();
        let crate::refmodel::ast::Definition::Operation(op) = &doc.defs[0] else { panic!() };
        let m = Coercer::with_model(&s, Model { defaults_uncoerced: true, ..Model::default() });
        assert_eq!(Json::Object(m.coerce_variable_values(&op.vars, &JsonMap::new()).unwrap()), json!({"a": 1, "b": {"y": 2}}));
    }

    #[test]
    fn arguments() {
        let s = schema("type Query { f(a: Int = 5, b: [Int!]!, c: In, d: String): Int } input In { x: [Int] = 2 }");
        let f = s.field("Query", "f").unwrap();
        let vars = json!({"v": [1, 2], "n": null});
        let vars = vars.as_object().unwrap();
        let args = |t: &str| -> Vec<(String, Value)> {
            let Value::Object(o) = lit(t) else { panic!() };
            o
        };
        assert_eq!(Json::Object(coerce_argument_values(&s, &f.args, &args("{b: $v, c: {}}"), vars).unwrap()), json!({"a": 5, "b": [1, 2], "c": {"x": [2]}}));
        assert_eq!(Json::Object(coerce_argument_values(&s, &f.args, &args("{b: 3, d: $missing, a: $missing}"), vars).unwrap()), json!({"a": 5, "b": [3]}));
        assert_eq!(code(coerce_argument_values(&s, &f.args, &args("{}"), vars)), "err missing-required-argument");
        assert_eq!(code(coerce_argument_values(&s, &f.args, &args("{b: $n}"), vars)), "err null-for-non-null");
        assert_eq!(Json::Object(coerce_argument_values(&s, &f.args, &args("{b: [], a: $n}"), vars).unwrap()), json!({"a": null, "b": []}));
    }

    #[test]
    fn comparison() {
        let s = schema(SDL);
        let same = |t: &str, a: Json, b: Json| same_coerced(&s, &ty(t), &a, &b, "$").map_err(|d| d.kind);
        assert_eq!(same("Float", json!(1), json!(1.0)), Ok(()));
        assert_eq!(same("Float", json!(1), json!(1.5)), Err("leaf|Float".into()));
        assert_eq!(same("Int", json!(1), json!(1.0)), Err("leaf|Int".into()));
        assert_eq!(same("ID", json!(4), json!("4")), Ok(()));
        assert_eq!(same("ID", json!(4), json!("5")), Err("kind".into()));
        assert_eq!(same("[Int]", json!([1]), json!(1)), Err("list-wrap".into()));
        assert_eq!(same("[Int]", json!([1]), json!([1, 2])), Err("list-length".into()));
        assert_eq!(same("In", json!({"x": 1, "y": 2}), json!({"y": 2})), Err("missing-field-with-default".into()));
        assert_eq!(same("In", json!({"y": 2}), json!({"y": 2, "x": 1})), Err("extra-field".into()));
        assert_eq!(same("In", json!({"x": 1, "y": 2}), json!({"y": 2, "x": 1})), Ok(()));
        assert_eq!(same("Any", json!(1), json!(1.0)), Err("leaf|CustomScalar".into()));
        assert_eq!(same("Any", json!({"a": 1, "b": 2}), json!({"b": 2, "a": 1})), Ok(()));
        assert_eq!(same("Color", json!("RED"), json!("GREEN")), Err("leaf|Enum".into()));
        assert_eq!(same("Int", json!(null), json!(0)), Err("kind".into()));
    }
}
