//! Reference for C25: the introspection depth limit, derived from the property statement and from
//! the documentation of `introspection::check_max_depth` ("the nesting level of some list fields
//! does not exceed a fixed depth limit"), not from apollo's algorithm.
//!
//! Statement: an operation is rejected if and only if, with named and inline fragments expanded,
//! some path nests THREE OR MORE of the list-valued introspection fields `fields`, `interfaces`,
//! `possibleTypes`, `inputFields`. (Pinned by the repository's own tests for each of the four
//! fields: two nested levels are accepted, three are rejected. `args`, `types`, `enumValues`,
//! `directives`, `ofType`, `type` do not count.)
//!
//! Nothing in here calls apollo code. Fragments are expanded literally (no memo), so the result
//! cannot depend on how the selections were factored into fragments.

use super::ast::*;
use std::collections::BTreeMap;

/// The list-valued introspection fields that count towards the limit.
pub const LIST_FIELDS: [&str; 4] = ["fields", "interfaces", "possibleTypes", "inputFields"];
/// Reject when some path nests this many (or more) of `LIST_FIELDS`.
pub const REJECT_AT: usize = 3;

#[derive(Clone, Debug, PartialEq)]
pub enum DepthErr {
    UnknownFragment(String),
    FragmentCycle(String),
}

pub fn is_list_field(name: &str) -> bool {
    LIST_FIELDS.contains(&name)
}

pub fn fragments(doc: &Document) -> BTreeMap<&str, &FragmentDef> {
    let mut m = BTreeMap::new();
    for d in &doc.defs {
        if let Definition::Fragment(f) = d {
            m.entry(f.name.as_str()).or_insert(f);
        }
    }
    m
}

/// Replace every named fragment spread (recursively) by an inline fragment
/// `... on <type condition> { <the fragment's selections> }`. Directives on the spread are kept
/// on the inline fragment (the generator of C25 uses none).
pub fn inline_selections(sels: &[Selection], frags: &BTreeMap<&str, &FragmentDef>, stack: &mut Vec<String>) -> Result<Vec<Selection>, DepthErr> {
    let mut out = Vec::with_capacity(sels.len());
    for s in sels {
        match s {
            Selection::Field(f) => {
                let mut g = f.clone();
                g.selection_set = inline_selections(&f.selection_set, frags, stack)?;
                out.push(Selection::Field(g));
            }
            Selection::Inline(i) => {
                let mut g = i.clone();
                g.selection_set = inline_selections(&i.selection_set, frags, stack)?;
                out.push(Selection::Inline(g));
            }
            Selection::Spread(sp) => {
                let Some(def) = frags.get(sp.name.as_str()) else {
                    return Err(DepthErr::UnknownFragment(sp.name.clone()));
                };
                if stack.iter().any(|n| *n == sp.name) {
                    return Err(DepthErr::FragmentCycle(sp.name.clone()));
                }
                stack.push(sp.name.clone());
                let inner = inline_selections(&def.selection_set, frags, stack)?;
                stack.pop();
                out.push(Selection::Inline(InlineFragment {
                    type_condition: Some(def.type_condition.clone()),
                    directives: sp.directives.clone(),
                    selection_set: inner,
                }));
            }
        }
    }
    Ok(out)
}

/// The operation with every named fragment inlined (the "metamorphic twin"); the returned
/// document contains only that operation.
pub fn inlined_twin(doc: &Document, op: &OperationDef) -> Result<Document, DepthErr> {
    let frags = fragments(doc);
    let mut o = op.clone();
    o.selection_set = inline_selections(&op.selection_set, &frags, &mut vec![])?;
    Ok(Document { defs: vec![Definition::Operation(o)] })
}

/// Greatest number of `LIST_FIELDS` nested on one path of a fragment-free selection set.
pub fn max_nesting_expanded(sels: &[Selection]) -> usize {
    let mut best = 0;
    for s in sels {
        let d = match s {
            Selection::Field(f) => (if is_list_field(&f.name) { 1 } else { 0 }) + max_nesting_expanded(&f.selection_set),
            Selection::Inline(i) => max_nesting_expanded(&i.selection_set),
            // not reachable after `inline_selections`
            Selection::Spread(_) => 0,
        };
        best = best.max(d);
    }
    best
}

/// Greatest nesting of the list fields over all paths of `op`, with all fragments expanded.
pub fn max_list_nesting(doc: &Document, op: &OperationDef) -> Result<usize, DepthErr> {
    let frags = fragments(doc);
    let expanded = inline_selections(&op.selection_set, &frags, &mut vec![])?;
    Ok(max_nesting_expanded(&expanded))
}

/// The reference verdict: `true` = the depth check must reject the operation.
pub fn must_reject(doc: &Document, op: &OperationDef) -> Result<bool, DepthErr> {
    Ok(max_list_nesting(doc, op)? >= REJECT_AT)
}

pub fn first_operation(doc: &Document) -> Option<&OperationDef> {
    doc.defs.iter().find_map(|d| if let Definition::Operation(o) = d { Some(o) } else { None })
}

#[cfg(test)]
mod tests {
    use super::super::parser::parse_document;
    use super::super::printer::print_document;
    use super::*;

    fn nest(src: &str) -> usize {
        let d = parse_document(src).unwrap();
        max_list_nesting(&d, first_operation(&d).unwrap()).unwrap()
    }
    fn rej(src: &str) -> bool {
        let d = parse_document(src).unwrap();
        must_reject(&d, first_operation(&d).unwrap()).unwrap()
    }

    #[test]
    fn siblings_do_not_nest() {
        assert_eq!(nest("{ __type(name: \"Q\") { a: fields { name } b: fields { name } c: fields { name } } }"), 1);
    }

    #[test]
    fn two_levels_accepted_three_rejected_for_each_list_field() {
        for f in LIST_FIELDS {
            let conn = if f == "fields" || f == "inputFields" { "type" } else { "" };
            let wrap = |inner: &str| if conn.is_empty() { format!("{f} {{ {inner} }}") } else { format!("{f} {{ {conn} {{ {inner} }} }}") };
            let two = format!("{{ __schema {{ types {{ {} }} }} }}", wrap(&wrap("name")));
            let three = format!("{{ __schema {{ types {{ {} }} }} }}", wrap(&wrap(&wrap("name"))));
            assert_eq!(nest(&two), 2, "{two}");
            assert!(!rej(&two));
            assert_eq!(nest(&three), 3, "{three}");
            assert!(rej(&three));
        }
    }

    #[test]
    fn non_list_fields_do_not_count() {
        assert_eq!(nest("{ __schema { types { fields { args { type { ofType { ofType { enumValues { name } } } } } } } directives { args { name } } } }"), 1);
    }

    #[test]
    fn mixed_list_fields_count_together() {
        assert!(rej("{ __schema { types { possibleTypes { interfaces { fields { name } } } } } }"));
        assert!(!rej("{ __schema { types { possibleTypes { interfaces { enumValues { name } } } } } }"));
    }

    #[test]
    fn aliases_do_not_hide_list_fields() {
        assert!(rej("{ __schema { types { a: fields { type { b: fields { type { c: inputFields { name } } } } } } } }"));
    }

    #[test]
    fn fragments_are_expanded() {
        // a fragment of depth 2 used at depth 1
        let src = "{ __schema { types { fields { type { ...F } } } } } fragment F on __Type { fields { type { fields { name } } } }";
        assert_eq!(nest(src), 3);
        assert!(rej(src));
        // the same fragment at depth 0 is fine
        let src0 = "{ __schema { types { ...F } } } fragment F on __Type { fields { type { fields { name } } } }";
        assert_eq!(nest(src0), 2);
        assert!(!rej(src0));
        // nested fragments, inline fragments in between
        let src2 = "{ __schema { types { ... on __Type { ...A } } } } fragment A on __Type { interfaces { ... { ...B } } } fragment B on __Type { possibleTypes { ...C } } fragment C on __Type { fields { name } }";
        assert_eq!(nest(src2), 3);
        // reuse: the deepest use decides
        let src3 = "{ __schema { types { ...C interfaces { ...C interfaces { name ...C } } } } } fragment C on __Type { fields { name } }";
        assert_eq!(nest(src3), 3);
    }

    #[test]
    fn twin_has_no_spreads_and_the_same_nesting() {
        let src = "{ __schema { types { ...A fields { type { ...A } } } } } fragment A on __Type { interfaces { ...B } kind } fragment B on __Type { name possibleTypes { name } }";
        let d = parse_document(src).unwrap();
        let op = first_operation(&d).unwrap();
        let twin = inlined_twin(&d, op).unwrap();
        let text = print_document(&twin);
        assert!(!text.contains("...A") && !text.contains("...B"), "{text}");
        let want = parse_document("{ __schema { types { ... on __Type { interfaces { ... on __Type { name possibleTypes { name } } } kind } fields { type { ... on __Type { interfaces { ... on __Type { name possibleTypes { name } } } kind } } } } } }").unwrap();
        assert_eq!(twin, want);
        let top = first_operation(&twin).unwrap();
        assert_eq!(max_list_nesting(&twin, top).unwrap(), max_list_nesting(&d, op).unwrap());
        assert_eq!(max_list_nesting(&d, op).unwrap(), 3);
    }

    #[test]
    fn errors() {
        let d = parse_document("{ ...X }").unwrap();
        assert_eq!(max_list_nesting(&d, first_operation(&d).unwrap()), Err(DepthErr::UnknownFragment("X".into())));
        let d = parse_document("{ ...A } fragment A on Query { ...B } fragment B on Query { ...A }").unwrap();
        assert_eq!(max_list_nesting(&d, first_operation(&d).unwrap()), Err(DepthErr::FragmentCycle("A".into())));
    }
}
