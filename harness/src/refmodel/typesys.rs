//! Reference implementation of the October 2021 type-system validation rules (spec section 3,
//! plus the parts of section 5 that apply to directive applications inside a type-system
//! document), over the reference AST. Independent of apollo: nothing in here calls apollo code.
//!
//! The verdict is three-valued. `Unspecified` is returned whenever the document contains a
//! construct on which the October 2021 text and graphql-js v16 (`validateSDL` + `validateSchema`)
//! differ, or whose treatment I cannot state with certainty; such cases are never compared.
//!
//! Three documented, deliberate differences of apollo-compiler are encoded:
//!   * default values are NOT validated (they only decide whether an input value is "required");
//!   * a built-in directive may be redefined ONCE (a second redefinition is `T.uniqueDirective`);
//!   * arguments of directive applications in the SDL ARE type-checked against the directive
//!     definition (`T.dirArgValue`, spec 5.6.1 applied to const values).
//!
//! Rule codes are listed in DESIGN.md Appendix A.

use super::ast::*;
use super::schema::builtin_document;
use std::collections::{BTreeMap, BTreeSet};

#[derive(Clone, Debug, PartialEq, Eq)]
pub enum Verdict {
    Valid,
    Invalid(BTreeSet<String>),
    /// the document contains a construct outside the compared domain (reason)
    Unspecified(String),
}

impl Verdict {
    pub fn codes(&self) -> Vec<String> {
        match self {
            Verdict::Invalid(s) => s.iter().cloned().collect(),
            _ => vec![],
        }
    }
    pub fn is_valid(&self) -> bool {
        matches!(self, Verdict::Valid)
    }
    pub fn is_invalid(&self) -> bool {
        matches!(self, Verdict::Invalid(_))
    }
}

pub const BUILTIN_SCALARS: [&str; 5] = ["Int", "Float", "String", "Boolean", "ID"];
pub const INTROSPECTION_TYPES: [&str; 8] =
    ["__Schema", "__Type", "__TypeKind", "__Field", "__InputValue", "__EnumValue", "__Directive", "__DirectiveLocation"];
pub const BUILTIN_DIRECTIVES: [&str; 4] = ["skip", "include", "deprecated", "specifiedBy"];

/// A type definition with all its (kind-matching) extensions merged, in document order.
#[derive(Clone, Debug)]
struct Merged {
    kind: TypeKind,
    name: String,
    implements: Vec<String>,
    directives: Vec<Directive>,
    fields: Vec<FieldDef>,
    members: Vec<String>,
    values: Vec<EnumValueDef>,
    input_fields: Vec<InputValueDef>,
}

struct V {
    codes: BTreeSet<String>,
    gray: Option<String>,
    types: BTreeMap<String, Merged>,
    order: Vec<String>,
    /// user directive definitions (first definition per name) and, for names not defined by the
    /// user, the built-in ones
    directives: BTreeMap<String, DirectiveDef>,
    builtin_types: BTreeMap<String, TypeDef>,
}

fn is_required(iv: &InputValueDef) -> bool {
    iv.ty.is_non_null() && iv.default.is_none()
}

fn has_dup_object_field(v: &Value) -> bool {
    match v {
        Value::List(l) => l.iter().any(has_dup_object_field),
        Value::Object(o) => {
            let mut seen = BTreeSet::new();
            for (k, x) in o {
                if !seen.insert(k.as_str()) {
                    return true;
                }
                if has_dup_object_field(x) {
                    return true;
                }
            }
            false
        }
        _ => false,
    }
}

/// Is the decimal integer literal (grammar: -?(0|[1-9][0-9]*)) within the 32-bit signed range?
fn int_literal_in_i32(s: &str) -> bool {
    let (neg, digits) = match s.strip_prefix('-') {
        Some(d) => (true, d),
        None => (false, s),
    };
    if digits.is_empty() || !digits.bytes().all(|b| b.is_ascii_digit()) {
        return false;
    }
    let digits = digits.trim_start_matches('0');
    if digits.len() > 10 {
        return false;
    }
    let mut v: i64 = 0;
    for b in digits.bytes() {
        v = v * 10 + (b - b'0') as i64;
    }
    if neg {
        v <= 2147483648
    } else {
        v <= 2147483647
    }
}

/// `Some(true)` finite and comfortably inside f64; `None` = too large to be certain (gray).
fn number_literal_is_moderate(s: &str) -> bool {
    if s.len() > 300 {
        return false;
    }
    match s.parse::<f64>() {
        Ok(f) => f.is_finite() && f.abs() <= 1e300,
        Err(_) => false,
    }
}

impl V {
    fn err(&mut self, code: &str) {
        self.codes.insert(code.to_string());
    }
    fn gray(&mut self, why: &str) {
        if self.gray.is_none() {
            self.gray = Some(why.to_string());
        }
    }

    fn kind_of(&self, name: &str) -> Option<TypeKind> {
        if let Some(t) = self.types.get(name) {
            return Some(t.kind);
        }
        if BUILTIN_SCALARS.contains(&name) {
            return Some(TypeKind::Scalar);
        }
        self.builtin_types.get(name).map(|t| t.kind)
    }
    fn is_input_kind(k: TypeKind) -> bool {
        matches!(k, TypeKind::Scalar | TypeKind::Enum | TypeKind::InputObject)
    }
    fn is_output_kind(k: TypeKind) -> bool {
        !matches!(k, TypeKind::InputObject)
    }

    /// spec 3.6 IsValidImplementationFieldType, named case
    fn named_sub(&self, sub: &str, sup: &str) -> bool {
        if sub == sup {
            return true;
        }
        let (Some(subt), Some(supt)) = (self.types.get(sub), self.types.get(sup)) else {
            return false;
        };
        match supt.kind {
            TypeKind::Union => subt.kind == TypeKind::Object && supt.members.iter().any(|m| m == sub),
            TypeKind::Interface => {
                matches!(subt.kind, TypeKind::Object | TypeKind::Interface) && subt.implements.iter().any(|i| i == sup)
            }
            _ => false,
        }
    }
    fn field_type_ok(&self, field: &Type, implemented: &Type) -> bool {
        // 1. If fieldType is a Non-Null type: unwrap it, unwrap implementedFieldType if it is
        //    Non-Null too, recurse.
        if let Type::NonNull(f) = field {
            let i = match implemented {
                Type::NonNull(i) => i,
                other => other,
            };
            return self.field_type_ok(f, i);
        }
        match (field, implemented) {
            // 2. both List: recurse on the item types
            (Type::List(f), Type::List(i)) => self.field_type_ok(f, i),
            // 3.-5. same type / member of union / declared implementer of interface
            (Type::Named(f), Type::Named(i)) => self.named_sub(f, i),
            // 6. otherwise false (includes: implemented is Non-Null but field is not)
            _ => false,
        }
    }

    // ---------------------------------------------------------------------------------------
    // values (spec 5.6.1 Values of Correct Type, const values only)

    /// Ok(()) if the literal can be coerced to `ty`. Unknown / non-input named types are not
    /// judged here (they are reported where they are declared).
    fn value_fits(&mut self, ty: &Type, v: &Value) -> bool {
        if let Value::Var(_) = v {
            self.gray("variable in a const value");
            return true;
        }
        if *v == Value::Null {
            return !ty.is_non_null();
        }
        match ty.nullable() {
            Type::NonNull(_) => unreachable!("nullable() strips NonNull"),
            Type::List(item) => match v {
                Value::List(items) => {
                    let mut ok = true;
                    for x in items {
                        ok &= self.value_fits(item, x);
                    }
                    ok
                }
                // a non-list value is coerced to a list of one item
                single => self.value_fits(item, single),
            },
            Type::Named(n) => {
                let Some(kind) = self.kind_of(n) else { return true };
                match kind {
                    TypeKind::Object | TypeKind::Interface | TypeKind::Union => true,
                    TypeKind::Scalar => match n.as_str() {
                        "Int" if !self.types.contains_key(n) => matches!(v, Value::Int(s) if int_literal_in_i32(s)),
                        "Float" if !self.types.contains_key(n) => match v {
                            Value::Int(s) | Value::Float(s) => {
                                if !number_literal_is_moderate(s) {
                                    self.gray("numeric literal beyond 1e300 for Float");
                                }
                                true
                            }
                            _ => false,
                        },
                        "String" if !self.types.contains_key(n) => matches!(v, Value::Str(_)),
                        "Boolean" if !self.types.contains_key(n) => matches!(v, Value::Bool(_)),
                        "ID" if !self.types.contains_key(n) => matches!(v, Value::Str(_) | Value::Int(_)),
                        // custom scalar: any literal
                        _ => {
                            self.scan_numbers(v);
                            true
                        }
                    },
                    TypeKind::Enum => match v {
                        Value::Enum(e) => {
                            let vals: Vec<String> = match self.types.get(n) {
                                Some(t) => t.values.iter().map(|x| x.name.clone()).collect(),
                                None => self.builtin_types.get(n).map(|t| t.values.iter().map(|x| x.name.clone()).collect()).unwrap_or_default(),
                            };
                            vals.iter().any(|x| x == e)
                        }
                        _ => false,
                    },
                    TypeKind::InputObject => match v {
                        Value::Object(fields) => {
                            let Some(t) = self.types.get(n).cloned() else { return true };
                            let mut ok = true;
                            for (k, x) in fields {
                                match t.input_fields.iter().find(|f| f.name == *k) {
                                    None => ok = false,
                                    Some(f) => ok &= self.value_fits(&f.ty, x),
                                }
                            }
                            for f in &t.input_fields {
                                if is_required(f) && !fields.iter().any(|(k, _)| *k == f.name) {
                                    ok = false;
                                }
                            }
                            ok
                        }
                        _ => false,
                    },
                }
            }
        }
    }

    /// number literals inside a value for a custom scalar: very large ones are outside the domain
    fn scan_numbers(&mut self, v: &Value) {
        match v {
            Value::Int(s) | Value::Float(s) => {
                if !number_literal_is_moderate(s) {
                    self.gray("numeric literal beyond 1e300");
                }
            }
            Value::List(l) => l.iter().for_each(|x| self.scan_numbers(x)),
            Value::Object(o) => o.iter().for_each(|(_, x)| self.scan_numbers(x)),
            _ => {}
        }
    }

    // ---------------------------------------------------------------------------------------
    // directive applications

    /// `dirs`: all applications at one location (a definition together with its extensions).
    fn check_directives(&mut self, dirs: &[Directive], location: &str) {
        let mut counts: BTreeMap<&str, usize> = BTreeMap::new();
        for d in dirs {
            *counts.entry(d.name.as_str()).or_insert(0) += 1;
        }
        for d in dirs {
            // UniqueInputFieldNames is a syntactic rule: it applies whatever the directive is
            for (_, v) in &d.args {
                if has_dup_object_field(v) {
                    self.err("T.constObjectFieldUnique");
                }
            }
            // UniqueArgumentNames
            {
                let mut seen = BTreeSet::new();
                for (k, _) in &d.args {
                    if !seen.insert(k.as_str()) {
                        self.err("T.dirArgUnique");
                    }
                }
            }
            if d.name == "deprecated" && d.args.iter().any(|(k, v)| k == "reason" && *v == Value::Null) {
                self.gray("@deprecated(reason: null)");
            }
            let Some(def) = self.directives.get(&d.name).cloned() else {
                self.err("T.dirKnown");
                continue;
            };
            if !def.locations.iter().any(|l| l == location) {
                self.err("T.dirLocation");
            }
            if !def.repeatable && counts[d.name.as_str()] > 1 {
                self.err("T.dirUnique");
            }
            for (k, v) in &d.args {
                match def.args.iter().find(|a| a.name == *k) {
                    None => self.err("T.dirArgKnown"),
                    Some(a) => {
                        let known_input = self.kind_of(a.ty.inner_name()).map(Self::is_input_kind).unwrap_or(false);
                        if *v == Value::Null && is_required(a) {
                            // spec 5.4.2.1: the value of a required argument must not be null
                            self.err("T.dirArgRequired");
                        } else if known_input && !self.value_fits(&a.ty, v) {
                            self.err("T.dirArgValue");
                        }
                    }
                }
            }
            for a in &def.args {
                if is_required(a) && !d.args.iter().any(|(k, _)| *k == a.name) {
                    self.err("T.dirArgRequired");
                }
            }
        }
    }

    fn check_type_ref(&mut self, name: &str) -> Option<TypeKind> {
        let k = self.kind_of(name);
        if k.is_none() {
            self.err("T.knownType");
        }
        k
    }

    fn check_reserved(&mut self, name: &str) {
        if name.starts_with("__") {
            self.err("T.reserved");
        }
    }

    /// argument definitions of a field or of a directive definition
    fn check_arg_defs(&mut self, args: &[InputValueDef]) {
        let mut seen = BTreeSet::new();
        for a in args {
            if !seen.insert(a.name.clone()) {
                self.err("T.uniqueArgDef");
            }
            self.check_input_value(a, "ARGUMENT_DEFINITION");
        }
    }

    fn check_input_value(&mut self, iv: &InputValueDef, location: &str) {
        self.check_reserved(&iv.name);
        if let Some(k) = self.check_type_ref(iv.ty.inner_name()) {
            if !Self::is_input_kind(k) {
                self.err("T.inputType");
            }
        }
        // Default values are not validated. They decide whether the input value is required,
        // and graphql-js treats an ill-typed default as absent; so an ill-typed default on a
        // non-null input value is outside the domain.
        if let Some(d) = &iv.default {
            if has_dup_object_field(d) {
                self.gray("duplicate object field inside a default value");
            }
            if iv.ty.is_non_null() {
                let known_input = self.kind_of(iv.ty.inner_name()).map(Self::is_input_kind).unwrap_or(false);
                if known_input && !self.value_fits(&iv.ty, d) {
                    self.gray("ill-typed default value on a non-null input value");
                }
            }
        }
        if is_required(iv) && iv.directives.iter().any(|d| d.name == "deprecated") {
            self.gray("@deprecated on a required argument or input field");
        }
        self.check_directives(&iv.directives, location);
    }

    fn check_fields(&mut self, t: &Merged) {
        if t.fields.is_empty() {
            self.err("T.nonEmpty");
        }
        let mut seen = BTreeSet::new();
        for f in &t.fields {
            if !seen.insert(f.name.clone()) {
                self.err("T.uniqueField");
            }
            self.check_reserved(&f.name);
            if let Some(k) = self.check_type_ref(f.ty.inner_name()) {
                if !Self::is_output_kind(k) {
                    self.err("T.outputType");
                }
            }
            self.check_directives(&f.directives, "FIELD_DEFINITION");
            self.check_arg_defs(&f.args);
        }
    }

    fn check_implements(&mut self, t: &Merged) {
        let mut seen = BTreeSet::new();
        for i in &t.implements {
            if !seen.insert(i.clone()) {
                self.err("T.uniqueImplements");
                continue;
            }
            let Some(k) = self.check_type_ref(i) else { continue };
            if k != TypeKind::Interface {
                self.err("T.implInterface");
                continue;
            }
            if *i == t.name {
                self.err("T.implSelf");
                continue;
            }
            let Some(iface) = self.types.get(i).cloned() else { continue };
            // IsValidImplementation 1: transitively implemented interfaces must be declared
            for tr in &iface.implements {
                if !t.implements.iter().any(|x| x == tr) {
                    self.err("T.implTransitive");
                }
            }
            // 2: every field, with a covariant type, invariant arguments, no extra required ones
            let mut seen_fields = BTreeSet::new();
            for ifield in &iface.fields {
                if !seen_fields.insert(ifield.name.clone()) {
                    continue;
                }
                let Some(field) = t.fields.iter().find(|f| f.name == ifield.name) else {
                    self.err("T.implField");
                    continue;
                };
                if !self.field_type_ok(&field.ty, &ifield.ty) {
                    self.err("T.implFieldType");
                }
                for iarg in &ifield.args {
                    match field.args.iter().find(|a| a.name == iarg.name) {
                        None => self.err("T.implArg"),
                        Some(a) => {
                            if a.ty != iarg.ty {
                                self.err("T.implArgType");
                            }
                        }
                    }
                }
                for a in &field.args {
                    if !ifield.args.iter().any(|x| x.name == a.name) {
                        // "any additional argument must not be required": required = non-null type and no
                        // default value (spec 5.4.2.1 Required Arguments; graphql-js isRequiredArgument,
                        // which the property names as the oracle). A non-null argument WITH a default is
                        // optional, so it may be added.
                        if is_required(a) {
                            self.err("T.implExtraRequiredArg");
                        }
                    }
                }
            }
        }
    }

    fn check_input_cycles(&mut self) {
        // edges through fields whose type is exactly NonNull(Named(input object))
        let names: Vec<String> = self.order.iter().filter(|n| self.types[*n].kind == TypeKind::InputObject).cloned().collect();
        let edges = |v: &V, n: &str| -> Vec<String> {
            v.types[n]
                .input_fields
                .iter()
                .filter_map(|f| match &f.ty {
                    Type::NonNull(inner) => match &**inner {
                        Type::Named(m) if v.types.get(m).map(|t| t.kind == TypeKind::InputObject).unwrap_or(false) => Some(m.clone()),
                        _ => None,
                    },
                    _ => None,
                })
                .collect()
        };
        // colour DFS
        let mut state: BTreeMap<String, u8> = BTreeMap::new();
        fn dfs(v: &V, n: &str, state: &mut BTreeMap<String, u8>, edges: &dyn Fn(&V, &str) -> Vec<String>) -> bool {
            state.insert(n.to_string(), 1);
            for m in edges(v, n) {
                match state.get(&m).copied().unwrap_or(0) {
                    1 => return true,
                    0 => {
                        if dfs(v, &m, state, edges) {
                            return true;
                        }
                    }
                    _ => {}
                }
            }
            state.insert(n.to_string(), 2);
            false
        }
        for n in &names {
            if state.get(n).copied().unwrap_or(0) == 0 && dfs(self, n, &mut state, &edges) {
                self.err("T.inputCycle");
                return;
            }
        }
    }

    /// Directive definitions that (transitively) apply themselves: the spec forbids them,
    /// graphql-js does not check; outside the domain.
    fn check_directive_self_reference(&mut self, user_defs: &[DirectiveDef]) {
        fn dirs_of_type(v: &V, name: &str, seen: &mut BTreeSet<String>, out: &mut BTreeSet<String>) {
            if !seen.insert(name.to_string()) {
                return;
            }
            let Some(t) = v.types.get(name) else { return };
            for d in &t.directives {
                out.insert(d.name.clone());
            }
            for ev in &t.values {
                for d in &ev.directives {
                    out.insert(d.name.clone());
                }
            }
            for f in &t.input_fields {
                for d in &f.directives {
                    out.insert(d.name.clone());
                }
                dirs_of_type(v, f.ty.inner_name(), seen, out);
            }
        }
        let mut graph: BTreeMap<String, BTreeSet<String>> = BTreeMap::new();
        for def in user_defs {
            let mut out = BTreeSet::new();
            let mut seen = BTreeSet::new();
            for a in &def.args {
                for d in &a.directives {
                    out.insert(d.name.clone());
                }
                dirs_of_type(self, a.ty.inner_name(), &mut seen, &mut out);
            }
            graph.entry(def.name.clone()).or_default().extend(out);
        }
        for start in graph.keys() {
            let mut stack: Vec<&String> = graph[start].iter().collect();
            let mut seen: BTreeSet<&String> = BTreeSet::new();
            while let Some(n) = stack.pop() {
                if n == start {
                    self.gray("directive definition that (transitively) applies itself");
                    return;
                }
                if seen.insert(n) {
                    if let Some(next) = graph.get(n) {
                        stack.extend(next.iter());
                    }
                }
            }
        }
    }
}

/// Validate a type-system document.
pub fn validate(doc: &Document) -> Verdict {
    let mut v = V {
        codes: BTreeSet::new(),
        gray: None,
        types: BTreeMap::new(),
        order: vec![],
        directives: BTreeMap::new(),
        builtin_types: BTreeMap::new(),
    };
    for d in &builtin_document().defs {
        if let Definition::Type(t) = d {
            v.builtin_types.insert(t.name.clone(), t.clone());
        }
    }

    // ---- definitions: uniqueness, merge ---------------------------------------------------
    let mut user_dir_defs: Vec<DirectiveDef> = vec![];
    let mut dir_def_count: BTreeMap<String, usize> = BTreeMap::new();
    let mut schema_defs: Vec<&SchemaDef> = vec![];
    let mut schema_exts: Vec<&SchemaDef> = vec![];
    for d in &doc.defs {
        match d {
            Definition::Operation(_) | Definition::Fragment(_) => v.gray("executable definition in a type-system document"),
            Definition::Schema(s) => {
                if s.is_ext {
                    schema_exts.push(s)
                } else {
                    schema_defs.push(s)
                }
            }
            Definition::Directive(dd) => {
                let n = dir_def_count.entry(dd.name.clone()).or_insert(0);
                *n += 1;
                if *n == 1 {
                    user_dir_defs.push(dd.clone());
                    v.directives.insert(dd.name.clone(), dd.clone());
                } else {
                    // one definition per directive name; a built-in directive may be redefined
                    // once, i.e. it too may have only one definition in the document
                    v.err("T.uniqueDirective");
                }
            }
            Definition::Type(t) => {
                if BUILTIN_SCALARS.contains(&t.name.as_str()) {
                    v.gray("definition or extension of a built-in scalar");
                    continue;
                }
                if INTROSPECTION_TYPES.contains(&t.name.as_str()) {
                    v.gray("definition or extension of an introspection type");
                    continue;
                }
                if t.is_ext {
                    continue;
                }
                if v.types.contains_key(&t.name) {
                    v.err("T.uniqueType");
                    continue;
                }
                v.order.push(t.name.clone());
                v.types.insert(
                    t.name.clone(),
                    Merged {
                        kind: t.kind,
                        name: t.name.clone(),
                        implements: t.implements.clone(),
                        directives: t.directives.clone(),
                        fields: t.fields.clone(),
                        members: t.members.clone(),
                        values: t.values.clone(),
                        input_fields: t.input_fields.clone(),
                    },
                );
            }
        }
    }
    for d in &builtin_document().defs {
        if let Definition::Directive(dd) = d {
            v.directives.entry(dd.name.clone()).or_insert_with(|| dd.clone());
        }
    }
    // extensions: wherever they are placed, they need a definition of the same kind
    for d in &doc.defs {
        if let Definition::Type(t) = d {
            if !t.is_ext || BUILTIN_SCALARS.contains(&t.name.as_str()) || INTROSPECTION_TYPES.contains(&t.name.as_str()) {
                continue;
            }
            match v.types.get_mut(&t.name) {
                None => v.err("T.extOrphan"),
                Some(base) if base.kind != t.kind => v.err("T.extKind"),
                Some(base) => {
                    base.implements.extend(t.implements.iter().cloned());
                    base.directives.extend(t.directives.iter().cloned());
                    base.fields.extend(t.fields.iter().cloned());
                    base.members.extend(t.members.iter().cloned());
                    base.values.extend(t.values.iter().cloned());
                    base.input_fields.extend(t.input_fields.iter().cloned());
                }
            }
        }
    }

    // ---- schema definition and root operation types ---------------------------------------
    if schema_defs.len() > 1 {
        v.err("T.loneSchema");
    }
    let explicit = !schema_defs.is_empty();
    let mut roots: Vec<(OpType, String)> = vec![];
    {
        let mut seen_ops = BTreeSet::new();
        for s in schema_defs.iter().chain(schema_exts.iter()) {
            for (op, n) in &s.roots {
                if !seen_ops.insert(*op) {
                    v.err("T.uniqueOpType");
                } else {
                    roots.push((*op, n.clone()));
                }
            }
        }
    }
    if !explicit {
        if !schema_exts.is_empty() {
            if schema_exts.iter().any(|s| !s.roots.is_empty()) {
                v.gray("schema extension with root operations but no schema definition");
            }
            if v.types.get("Query").map(|t| t.kind != TypeKind::Object).unwrap_or(true) {
                v.gray("schema extension with neither a schema definition nor an object type named Query");
            }
        }
        roots.clear();
        for op in OpType::ALL {
            let n = op.default_root();
            match v.types.get(n).map(|t| t.kind) {
                Some(TypeKind::Object) => roots.push((op, n.to_string())),
                Some(_) => v.gray("non-object type with a default root operation type name and no schema definition"),
                None => {}
            }
        }
    }
    if !roots.iter().any(|(op, _)| *op == OpType::Query) {
        v.err("T.rootQuery");
    }
    for (i, (_, n)) in roots.iter().enumerate() {
        match v.check_type_ref(n) {
            Some(TypeKind::Object) | None => {}
            Some(_) => v.err("T.rootObject"),
        }
        if roots[..i].iter().any(|(_, m)| m == n) {
            v.err("T.rootDistinct");
        }
    }
    {
        let mut dirs: Vec<Directive> = vec![];
        for s in schema_defs.iter().chain(schema_exts.iter()) {
            dirs.extend(s.directives.iter().cloned());
        }
        v.check_directives(&dirs, "SCHEMA");
    }

    // ---- directive definitions -------------------------------------------------------------
    for dd in &user_dir_defs {
        v.check_reserved(&dd.name);
        v.check_arg_defs(&dd.args);
    }
    v.check_directive_self_reference(&user_dir_defs);

    // ---- types -------------------------------------------------------------------------------
    let order = v.order.clone();
    for name in &order {
        let t = v.types[name].clone();
        v.check_reserved(&t.name);
        match t.kind {
            TypeKind::Scalar => v.check_directives(&t.directives, "SCALAR"),
            TypeKind::Object | TypeKind::Interface => {
                v.check_directives(&t.directives, if t.kind == TypeKind::Object { "OBJECT" } else { "INTERFACE" });
                v.check_fields(&t);
                v.check_implements(&t);
            }
            TypeKind::Union => {
                v.check_directives(&t.directives, "UNION");
                if t.members.is_empty() {
                    v.err("T.nonEmpty");
                }
                let mut seen = BTreeSet::new();
                for m in &t.members {
                    if !seen.insert(m.clone()) {
                        v.err("T.uniqueMember");
                        continue;
                    }
                    match v.check_type_ref(m) {
                        Some(TypeKind::Object) | None => {}
                        Some(_) => v.err("T.unionMemberObject"),
                    }
                }
            }
            TypeKind::Enum => {
                v.check_directives(&t.directives, "ENUM");
                if t.values.is_empty() {
                    v.err("T.nonEmpty");
                }
                let mut seen = BTreeSet::new();
                for ev in &t.values {
                    if !seen.insert(ev.name.clone()) {
                        v.err("T.uniqueEnumValue");
                    }
                    v.check_reserved(&ev.name);
                    v.check_directives(&ev.directives, "ENUM_VALUE");
                }
            }
            TypeKind::InputObject => {
                v.check_directives(&t.directives, "INPUT_OBJECT");
                if t.input_fields.is_empty() {
                    v.err("T.nonEmpty");
                }
                let mut seen = BTreeSet::new();
                for f in &t.input_fields {
                    if !seen.insert(f.name.clone()) {
                        v.err("T.uniqueInputField");
                    }
                    v.check_input_value(f, "INPUT_FIELD_DEFINITION");
                }
            }
        }
    }
    v.check_input_cycles();

    if let Some(g) = v.gray {
        Verdict::Unspecified(g)
    } else if v.codes.is_empty() {
        Verdict::Valid
    } else {
        Verdict::Invalid(v.codes)
    }
}

/// Parse and validate; a syntax error is reported as `Err`.
pub fn validate_text(src: &str) -> Result<Verdict, String> {
    match super::parser::parse_document(src) {
        Ok(d) => Ok(validate(&d)),
        Err(e) => Err(e.code()),
    }
}

#[cfg(test)]
mod tests {
    use super::*;

    fn verdict(src: &str) -> Verdict {
        validate_text(src).unwrap_or_else(|e| panic!("syntax error {e} in {src}"))
    }
    fn valid(src: &str) {
        assert_eq!(verdict(src), Verdict::Valid, "{src}");
    }
    fn invalid(src: &str, expect: &[&str]) {
        let v = verdict(src);
        let want: BTreeSet<String> = expect.iter().map(|s| s.to_string()).collect();
        assert_eq!(v, Verdict::Invalid(want), "{src}");
    }
    fn gray(src: &str) {
        assert!(matches!(verdict(src), Verdict::Unspecified(_)), "{src}: {:?}", verdict(src));
    }

    const Q: &str = "type Query { a: Int } ";
    fn q(rest: &str) -> String {
        format!("{Q}{rest}")
    }

    #[test]
    fn roots() {
        valid("type Query { a: Int }");
        valid("schema { query: Q } type Q { a: Int }");
        valid("schema { query: Q mutation: M subscription: S } type Q { a: Int } type M { a: Int } type S { a: Int }");
        // spec 3.3.1 example: a type named Mutation that is not the mutation root
        valid("schema { query: Q } type Q { a: Int } type Mutation { a: Int }");
        invalid("type Q { a: Int }", &["T.rootQuery"]);
        invalid("schema { mutation: Q } type Q { a: Int }", &["T.rootQuery"]);
        invalid("type Mutation { a: Int }", &["T.rootQuery"]);
        invalid("schema { query: Q mutation: Q } type Q { a: Int }", &["T.rootDistinct"]);
        invalid("schema { query: Q subscription: Q } type Q { a: Int }", &["T.rootDistinct"]);
        invalid("schema { query: Q } interface Q { a: Int }", &["T.rootObject"]);
        invalid("schema { query: Q mutation: E } type Q { a: Int } enum E { A }", &["T.rootObject"]);
        invalid("schema { query: Q mutation: Int } type Q { a: Int }", &["T.rootObject"]);
        invalid("schema { query: Missing }", &["T.knownType"]);
        invalid("schema { query: Q query: Q } type Q { a: Int }", &["T.uniqueOpType"]);
        invalid("schema { query: Q } extend schema { query: Q } type Q { a: Int }", &["T.uniqueOpType"]);
        invalid("schema { query: Q } schema { mutation: M } type Q { a: Int } type M { a: Int }", &["T.loneSchema"]);
        valid("schema { query: Q } extend schema { mutation: M } type Q { a: Int } type M { a: Int }");
        valid("extend schema { mutation: M } schema { query: Q } type Q { a: Int } type M { a: Int }");
        // implicit schema, extended with a directive only
        valid("type Query { a: Int } directive @d on SCHEMA extend schema @d");
        gray("type Query { a: Int } type M { a: Int } extend schema { mutation: M }");
        gray("type Q { a: Int } directive @d on SCHEMA extend schema @d");
        gray("interface Query { a: Int } type A implements Query { a: Int }");
        gray("type Query { a: Int } enum Mutation { A }");
    }

    #[test]
    fn uniqueness_of_definitions() {
        invalid(&q("type A { a: Int } type A { b: Int }"), &["T.uniqueType"]);
        invalid(&q("type A { a: Int } enum A { B }"), &["T.uniqueType"]);
        invalid(&q("directive @d on FIELD directive @d on QUERY"), &["T.uniqueDirective"]);
        // one redefinition of a built-in directive is accepted (documented apollo behaviour, also graphql-js)
        valid(&q("directive @skip(if: Boolean!) on FIELD"));
        valid(&q("directive @deprecated(reason: String = \"No longer supported\") on FIELD_DEFINITION | ENUM_VALUE"));
        invalid(&q("directive @skip(if: Boolean!) on FIELD directive @skip(if: Boolean!) on FIELD"), &["T.uniqueDirective"]);
        // the redefinition is the definition that counts
        invalid(&q("directive @deprecated on OBJECT type A { a: Int @deprecated }"), &["T.dirLocation"]);
        valid(&q("directive @deprecated on OBJECT type A @deprecated { a: Int }"));
        gray(&q("scalar Int"));
        gray(&q("extend scalar String @specifiedBy(url: \"x\")"));
        gray(&q("type __Schema { a: Int }"));
        gray("{ a } type Query { a: Int }");
    }

    #[test]
    fn uniqueness_inside_types() {
        invalid("type Query { a: Int a: String }", &["T.uniqueField"]);
        invalid("type Query { a: Int } extend type Query { a: Int }", &["T.uniqueField"]);
        invalid("extend type Query { a: Int } type Query { a: Int }", &["T.uniqueField"]);
        invalid(&q("interface I { a: Int } extend interface I { a: Int }"), &["T.uniqueField"]);
        invalid("type Query { a(x: Int, x: Int): Int }", &["T.uniqueArgDef"]);
        invalid(&q("directive @d(x: Int, x: String) on FIELD"), &["T.uniqueArgDef"]);
        invalid(&q("enum E { A A }"), &["T.uniqueEnumValue"]);
        invalid(&q("enum E { A } extend enum E { A }"), &["T.uniqueEnumValue"]);
        invalid(&q("input I { a: Int a: Int }"), &["T.uniqueInputField"]);
        invalid(&q("input I { a: Int } extend input I { a: String }"), &["T.uniqueInputField"]);
        invalid(&q("union U = Query | Query"), &["T.uniqueMember"]);
        invalid(&q("union U = Query extend union U = Query"), &["T.uniqueMember"]);
        invalid(&q("interface I { a: Int } type A implements I & I { a: Int }"), &["T.uniqueImplements"]);
        invalid(&q("interface I { a: Int } type A implements I { a: Int } extend type A implements I"), &["T.uniqueImplements"]);
        // same names in different types / different fields are fine
        valid("type Query { a(x: Int): Int b(x: Int): Int } type A { a: Int } enum E { A } enum F { A }");
    }

    #[test]
    fn extensions() {
        valid("type Query { a: Int } extend type Query { b: Int }");
        valid("extend type Query { b: Int } type Query { a: Int }");
        invalid(&q("extend type A { b: Int }"), &["T.extOrphan"]);
        invalid(&q("extend scalar S @specifiedBy(url: \"u\")"), &["T.extOrphan"]);
        invalid(&q("type A { a: Int } extend union A = Query"), &["T.extKind"]);
        invalid(&q("extend union A = Query type A { a: Int }"), &["T.extKind"]);
        invalid(&q("enum E { A } extend input E { a: Int }"), &["T.extKind"]);
        invalid(&q("interface I { a: Int } extend type I { b: Int }"), &["T.extKind"]);
        // a type that is non-empty only through its extension
        valid(&q("type A extend type A { a: Int }"));
        valid(&q("enum E extend enum E { A }"));
        valid(&q("union U extend union U = Query"));
        valid(&q("input I extend input I { a: Int }"));
    }

    #[test]
    fn known_types_and_kinds() {
        invalid("type Query { a: Missing }", &["T.knownType"]);
        invalid("type Query { a(x: [Missing!]): Int }", &["T.knownType"]);
        invalid(&q("input I { a: Missing }"), &["T.knownType"]);
        invalid(&q("union U = Missing"), &["T.knownType"]);
        invalid(&q("type A implements Missing { a: Int }"), &["T.knownType"]);
        invalid(&q("directive @d(x: Missing) on FIELD"), &["T.knownType"]);
        valid("type Query { a: Int b: Float c: String d: Boolean e: ID }");
        invalid(&q("input I { a: Int } type A { f: I }"), &["T.outputType"]);
        invalid(&q("input I { a: Int } type A { f: [I!]! }"), &["T.outputType"]);
        invalid(&q("input I { a: Int } interface A { f: I }"), &["T.outputType"]);
        invalid(&q("type A { f(x: Query): Int }"), &["T.inputType"]);
        invalid(&q("union U = Query type A { f(x: [U]): Int }"), &["T.inputType"]);
        invalid(&q("interface J { a: Int } input I { a: J! }"), &["T.inputType"]);
        invalid(&q("directive @d(x: Query) on FIELD"), &["T.inputType"]);
        valid(&q("enum E { A } scalar S input I { a: E b: S c: [I] } type A { f(x: I, y: E, z: S): E }"));
        invalid(&q("interface I { a: Int } union U = I"), &["T.unionMemberObject"]);
        invalid(&q("scalar S union U = S"), &["T.unionMemberObject"]);
        invalid(&q("union U = Query | U"), &["T.unionMemberObject"]);
        invalid(&q("union U = Int"), &["T.unionMemberObject"]);
        invalid(&q("enum E { A } union U = Query | E"), &["T.unionMemberObject"]);
    }

    #[test]
    fn non_empty() {
        invalid(&q("type A"), &["T.nonEmpty"]);
        invalid(&q("interface A"), &["T.nonEmpty"]);
        invalid(&q("union A"), &["T.nonEmpty"]);
        invalid(&q("enum A"), &["T.nonEmpty"]);
        invalid(&q("input A"), &["T.nonEmpty"]);
        invalid(&q("directive @d on OBJECT type A extend type A @d"), &["T.nonEmpty"]);
        valid(&q("scalar A"));
    }

    #[test]
    fn reserved_names() {
        invalid(&q("type __A { a: Int }"), &["T.reserved"]);
        invalid(&q("scalar __A"), &["T.reserved"]);
        invalid(&q("enum __A { B }"), &["T.reserved"]);
        invalid(&q("input __A { b: Int }"), &["T.reserved"]);
        invalid(&q("union __A = Query"), &["T.reserved"]);
        invalid(&q("interface __A { b: Int }"), &["T.reserved"]);
        invalid("type Query { __a: Int }", &["T.reserved"]);
        invalid("type Query { a(__x: Int): Int }", &["T.reserved"]);
        invalid(&q("enum E { __A }"), &["T.reserved"]);
        invalid(&q("input I { __a: Int }"), &["T.reserved"]);
        invalid(&q("directive @__d on FIELD"), &["T.reserved"]);
        invalid(&q("directive @d(__x: Int) on FIELD"), &["T.reserved"]);
        valid("type Query { _a: Int a__b: Int _: Int }");
    }

    #[test]
    fn interfaces() {
        // spec 3.6 examples
        valid(&q("interface NamedEntity { name: String } interface ValuedEntity { value: Int } type Person implements NamedEntity { name: String age: Int } type Business implements NamedEntity & ValuedEntity { name: String value: Int employeeCount: Int }"));
        valid(&q("interface Node { id: ID! } interface Resource implements Node { id: ID! url: String } interface Image implements Resource & Node { id: ID! url: String thumbnail: String }"));
        invalid(&q("interface Node { id: ID! } interface Resource implements Node { id: ID! url: String } interface Image implements Resource { id: ID! url: String thumbnail: String }"), &["T.implTransitive"]);
        invalid(&q("interface Node { id: ID! } interface Resource implements Node { id: ID! url: String } type Image implements Resource { id: ID! url: String }"), &["T.implTransitive"]);
        // spec 3.7: an interface cannot implement itself
        invalid(&q("interface Node implements Node { id: ID! }"), &["T.implSelf"]);
        // counter-example 3.7: circular
        invalid(
            &q("interface Node implements Named & Node { id: ID! name: String } interface Named implements Node & Named { id: ID! name: String }"),
            &["T.implSelf"],
        );
        invalid(&q("interface A implements B { a: Int } interface B implements A { a: Int }"), &["T.implTransitive"]);
        invalid(&q("type T { a: Int } type A implements T { a: Int }"), &["T.implInterface"]);
        invalid(&q("union U = Query type A implements U { a: Int }"), &["T.implInterface"]);
        invalid(&q("type A implements Int { a: Int }"), &["T.implInterface"]);
        invalid(&q("interface I { a: Int b: Int } type A implements I { a: Int }"), &["T.implField"]);
        invalid(&q("interface I { a: Int } interface J implements I { b: Int }"), &["T.implField"]);
        // field through an extension of the interface / of the implementer
        invalid(&q("interface I { a: Int } extend interface I { b: Int } type A implements I { a: Int }"), &["T.implField"]);
        valid(&q("interface I { a: Int } type A implements I { c: Int } extend type A { a: Int }"));
        valid(&q("interface I { a: Int } type A { a: Int } extend type A implements I"));
        invalid(&q("interface I { a: Int } type A { b: Int } extend type A implements I"), &["T.implField"]);
        // covariance
        valid(&q("interface I { a: Int } type A implements I { a: Int! }"));
        invalid(&q("interface I { a: Int! } type A implements I { a: Int }"), &["T.implFieldType"]);
        valid(&q("interface I { a: [Int] } type A implements I { a: [Int!]! }"));
        invalid(&q("interface I { a: [Int!] } type A implements I { a: [Int] }"), &["T.implFieldType"]);
        invalid(&q("interface I { a: [Int] } type A implements I { a: Int }"), &["T.implFieldType"]);
        invalid(&q("interface I { a: Int } type A implements I { a: [Int] }"), &["T.implFieldType"]);
        invalid(&q("interface I { a: [[Int]] } type A implements I { a: [Int] }"), &["T.implFieldType"]);
        invalid(&q("interface I { a: Int } type A implements I { a: String }"), &["T.implFieldType"]);
        valid(&q("interface I { a: I } type A implements I { a: A }"));
        valid(&q("interface I { a: [I!] } type A implements I { a: [A!]! }"));
        valid(&q("union U = A interface I { a: U } type A implements I { a: A }"));
        invalid(&q("union U = A type B { x: Int } interface I { a: U } type A implements I { a: B }"), &["T.implFieldType"]);
        invalid(&q("interface I { a: A } type A implements I { a: I }"), &["T.implFieldType"]);
        valid(&q("interface I { a: I } interface J implements I { a: J }"));
        // a union is not a subtype of an interface, even if all members implement it
        invalid(&q("union U = A interface I { a: I } type A implements I { a: U }"), &["T.implFieldType"]);
        // arguments
        valid(&q("interface I { a(x: Int): Int } type A implements I { a(x: Int, y: Int): Int }"));
        valid(&q("interface I { a(x: Int = 1): Int } type A implements I { a(x: Int = 2): Int }"));
        invalid(&q("interface I { a(x: Int): Int } type A implements I { a: Int }"), &["T.implArg"]);
        invalid(&q("interface I { a(x: Int): Int } type A implements I { a(y: Int): Int }"), &["T.implArg"]);
        invalid(&q("interface I { a(x: Int): Int } type A implements I { a(x: Int!): Int }"), &["T.implArgType"]);
        invalid(&q("interface I { a(x: Int!): Int } type A implements I { a(x: Int): Int }"), &["T.implArgType"]);
        invalid(&q("interface I { a(x: Int): Int } type A implements I { a(x: [Int]): Int }"), &["T.implArgType"]);
        invalid(&q("interface I { a(x: Int): Int } type A implements I { a(x: String): Int }"), &["T.implArgType"]);
        invalid(&q("interface I { a: Int } type A implements I { a(y: Int!): Int }"), &["T.implExtraRequiredArg"]);
        invalid(&q("interface I { a(x: Int): Int } type A implements I { a(x: Int, y: [Int]!): Int }"), &["T.implExtraRequiredArg"]);
        gray(&q("interface I { a: Int } type A implements I { a(y: Int! = 1): Int }"));
    }

    #[test]
    fn input_cycles() {
        // spec 3.10 examples
        valid(&q("input Example { self: Example value: String }"));
        valid(&q("input Example { self: [Example!]! value: String }"));
        invalid(&q("input Example { value: String self: Example! }"), &["T.inputCycle"]);
        invalid(&q("input First { second: Second! value: String } input Second { first: First! value: String }"), &["T.inputCycle"]);
        valid(&q("input First { second: Second value: String } input Second { first: First! value: String }"));
        invalid(&q("input A { b: B! } input B { c: C! } input C { a: A! }"), &["T.inputCycle"]);
        invalid(&q("input A { b: B! } input B { c: C! } input C { b: B! }"), &["T.inputCycle"]);
        valid(&q("input A { b: B! } input B { c: C! } input C { a: [A!]! }"));
        valid(&q("input A { b: B! c: C! } input B { c: C! } input C { x: Int }"));
    }

    #[test]
    fn directive_applications() {
        let d = "directive @d(r: Int!, o: String, n: Int! = 3) on SCHEMA | SCALAR | OBJECT | FIELD_DEFINITION | ARGUMENT_DEFINITION | INTERFACE | UNION | ENUM | ENUM_VALUE | INPUT_OBJECT | INPUT_FIELD_DEFINITION ";
        let all = format!(
            "{d} schema @d(r: 1) {{ query: Q }} type Q @d(r: 1) {{ a(x: Int @d(r: 1)): Int @d(r: 1) }} scalar S @d(r: 1) interface I @d(r: 1) {{ a: Int }} union U @d(r: 1) = Q enum E @d(r: 1) {{ A @d(r: 1) }} input In @d(r: 1) {{ a: Int @d(r: 1) }}"
        );
        valid(&all);
        invalid("type Query { a: Int @nope }", &["T.dirKnown"]);
        invalid("type Query @nope { a: Int }", &["T.dirKnown"]);
        invalid("schema @nope { query: Query } type Query { a: Int }", &["T.dirKnown"]);
        invalid(&q("directive @f on FIELD type A { a: Int @f }"), &["T.dirLocation"]);
        invalid(&q("directive @f on OBJECT interface A @f { a: Int }"), &["T.dirLocation"]);
        invalid(&q("directive @f on ARGUMENT_DEFINITION input A { a: Int @f }"), &["T.dirLocation"]);
        invalid(&q("directive @f on INPUT_FIELD_DEFINITION type A { a(x: Int @f): Int }"), &["T.dirLocation"]);
        invalid(&q("directive @f on ENUM enum A { B @f }"), &["T.dirLocation"]);
        invalid(&q("type A @deprecated { a: Int }"), &["T.dirLocation"]);
        invalid(&q("enum A @specifiedBy(url: \"u\") { B }"), &["T.dirLocation"]);
        invalid("type Query { a: Int @skip(if: true) }", &["T.dirLocation"]);
        invalid(&q("directive @f on OBJECT extend schema @f"), &["T.dirLocation"]);
        // argument definitions of directive definitions are ARGUMENT_DEFINITION locations
        valid(&q("directive @f on ARGUMENT_DEFINITION directive @g(x: Int @f) on FIELD"));
        invalid(&q("directive @f on FIELD_DEFINITION directive @g(x: Int @f) on FIELD"), &["T.dirLocation"]);
        valid("type Query { a: Int @deprecated b(x: Int @deprecated): Int } enum E { A @deprecated(reason: \"x\") } input I { a: Int @deprecated }");
        invalid("type Query { a: Int @deprecated @deprecated }", &["T.dirUnique"]);
        invalid(&q("directive @f on OBJECT type A @f @f { a: Int }"), &["T.dirUnique"]);
        invalid(&q("directive @f on OBJECT type A @f { a: Int } extend type A @f"), &["T.dirUnique"]);
        invalid(&q("directive @f on SCHEMA extend schema @f @f"), &["T.dirUnique"]);
        invalid("directive @f on SCHEMA schema @f { query: Query } extend schema @f type Query { a: Int }", &["T.dirUnique"]);
        valid(&q("directive @f repeatable on OBJECT type A @f @f { a: Int } extend type A @f"));
        // the same non-repeatable directive at different locations is fine
        valid(&q("directive @f on OBJECT | FIELD_DEFINITION type A @f { a: Int @f b: Int @f }"));
        invalid(&format!("{d} type Query {{ a: Int @d }}"), &["T.dirArgRequired"]);
        invalid(&format!("{d} type Query {{ a: Int @d(o: \"x\") }}"), &["T.dirArgRequired"]);
        invalid(&format!("{d} type Query {{ a: Int @d(r: null) }}"), &["T.dirArgRequired"]);
        invalid(&q("scalar S @specifiedBy"), &["T.dirArgRequired"]);
        invalid(&format!("{d} type Query {{ a: Int @d(r: 1, zz: 2) }}"), &["T.dirArgKnown"]);
        invalid("type Query { a: Int @deprecated(because: \"x\") }", &["T.dirArgKnown"]);
        invalid(&format!("{d} type Query {{ a: Int @d(r: 1, r: 1) }}"), &["T.dirArgUnique"]);
        invalid(&format!("{d} type Query {{ a: Int @d(r: 1, o: \"a\", o: \"b\") }}"), &["T.dirArgUnique"]);
        invalid(&format!("{d} type Query {{ a: Int @d(r: 1, n: null) }}"), &["T.dirArgValue"]);
        valid(&format!("{d} type Query {{ a: Int @d(r: 1, o: null) }}"));
        gray("type Query { a: Int @deprecated(reason: null) }");
        gray("type Query { a(x: Int! @deprecated): Int }");
        gray(&q("input I { a: Int! @deprecated }"));
        valid("type Query { a(x: Int! = 1 @deprecated, y: Int @deprecated): Int }");
        gray(&q("directive @f(x: Int @f) on ARGUMENT_DEFINITION"));
        gray(&q("directive @f(x: I) on INPUT_FIELD_DEFINITION input I { a: Int @f }"));
        gray(&q("directive @f(x: E) on ENUM_VALUE enum E { A @f }"));
        gray(&q("directive @f(x: Int @g) on ARGUMENT_DEFINITION directive @g(y: Int @f) on ARGUMENT_DEFINITION"));
        valid(&q("directive @f(x: Int @g) on ARGUMENT_DEFINITION directive @g(y: Int) on ARGUMENT_DEFINITION"));
    }

    #[test]
    fn directive_argument_values() {
        let pre = "type Query { a: Int } enum E { A B } scalar S input In { x: Int! y: String z: [In!] w: Int! = 1 } \
                   directive @t(i: Int, f: Float, s: String, b: Boolean, id: ID, e: E, c: S, o: In, l: [Int!], ll: [[Int]], nn: [Int]! = []) repeatable on OBJECT ";
        let ok = |args: &str| valid(&format!("{pre} type T @t({args}) {{ a: Int }}"));
        let bad = |args: &str| invalid(&format!("{pre} type T @t({args}) {{ a: Int }}"), &["T.dirArgValue"]);
        ok("i: 1");
        ok("i: -2147483648");
        ok("i: 2147483647");
        bad("i: 2147483648");
        bad("i: -2147483649");
        bad("i: 99999999999999999999");
        bad("i: 1.0");
        bad("i: \"1\"");
        bad("i: true");
        bad("i: A");
        bad("i: [1]");
        bad("i: {x: 1}");
        ok("i: null");
        ok("f: 1");
        ok("f: 1.5");
        ok("f: -1e10");
        bad("f: \"1.5\"");
        bad("f: true");
        ok("s: \"x\"");
        ok("s: \"\"\"block\"\"\"");
        bad("s: 1");
        bad("s: A");
        bad("s: true");
        ok("b: true");
        bad("b: 1");
        bad("b: \"true\"");
        ok("id: \"x\"");
        ok("id: 7");
        bad("id: 1.5");
        bad("id: true");
        bad("id: A");
        ok("e: A");
        bad("e: C");
        bad("e: \"A\"");
        bad("e: 1");
        bad("e: true");
        ok("c: 1");
        ok("c: \"x\"");
        ok("c: A");
        ok("c: [1, {k: null}]");
        ok("c: {k: 1}");
        ok("o: {x: 1}");
        ok("o: {x: 1, y: null, z: [{x: 2}], w: 5}");
        ok("o: {x: 1, z: {x: 2}}");
        bad("o: {}");
        bad("o: {y: \"a\"}");
        bad("o: {x: null}");
        bad("o: {x: 1, w: null}");
        bad("o: {x: 1, q: 2}");
        bad("o: {x: \"1\"}");
        bad("o: {x: 1, z: [null]}");
        bad("o: {x: 1, z: [{y: \"b\"}]}");
        bad("o: 1");
        bad("o: \"x\"");
        bad("o: [1]");
        ok("o: [{x: 1}]".replace("o:", "c:").as_str());
        ok("l: [1, 2]");
        ok("l: []");
        ok("l: 1");
        ok("l: null");
        bad("l: [1, null]");
        bad("l: [1, \"a\"]");
        bad("l: \"a\"");
        bad("l: [[1]]");
        ok("ll: [[1], [2, null], null]");
        ok("ll: [1, 2]");
        ok("ll: 1");
        bad("ll: [[[1]]]");
        bad("ll: [[\"a\"]]");
        ok("nn: [null]");
        ok("nn: 1");
        bad("nn: null");
        invalid(&format!("{pre} type T @t(o: {{x: 1, x: 2}}) {{ a: Int }}"), &["T.constObjectFieldUnique"]);
        invalid(&format!("{pre} type T @t(c: {{k: 1, k: 2}}) {{ a: Int }}"), &["T.constObjectFieldUnique"]);
        invalid(&format!("{pre} type T @t(c: [{{k: {{j: 1, j: 1}}}}]) {{ a: Int }}"), &["T.constObjectFieldUnique"]);
        gray(&format!("{pre} type T @t(f: 1e999) {{ a: Int }}"));
        // default values are not validated
        valid("type Query { a(x: Int = \"nope\", y: [Int] = {a: 1}): Int } input I { a: String = 1 }");
        gray("type Query { a(x: Int! = \"nope\"): Int }");
        gray("type Query { a(x: Int! = null): Int }");
        gray(&q("scalar S input I { a: S = {k: 1, k: 2} }"));
    }

    #[test]
    fn spec_schema_examples() {
        valid(
            r#"
            schema { query: MyQueryRootType mutation: MyMutationRootType }
            type MyQueryRootType { someField: String }
            type MyMutationRootType { setSomeField(to: String): String }
            "#,
        );
        valid(
            r#"
            scalar UUID @specifiedBy(url: "https://tools.ietf.org/html/rfc4122")
            scalar URL @specifiedBy(url: "https://tools.ietf.org/html/rfc3986")
            type Query { id: UUID home: URL }
            "#,
        );
        valid(
            r#"
            type Query { me: Person pet: [SearchResult] }
            type Person { name: String picture(size: Int): Url }
            scalar Url
            type Photo { height: Int width: Int }
            union SearchResult = Photo | Person
            enum Direction { NORTH EAST SOUTH WEST }
            input Point2D { x: Float y: Float }
            directive @example on FIELD_DEFINITION | ARGUMENT_DEFINITION
            type SomeType { field(arg: Int @example): String @example }
            type ExampleType { newField: String oldField: String @deprecated(reason: "Use `newField`.") }
            "#,
        );
        // counter example 3.13: directive referencing itself
        gray(&q("directive @invalidExample(arg: String @invalidExample) on ARGUMENT_DEFINITION"));
    }
}
