//! Reference AST for the October 2021 document grammar. Independent of apollo's types.

#[derive(Clone, Debug, PartialEq)]
pub struct Document {
    pub defs: Vec<Definition>,
}

#[derive(Clone, Debug, PartialEq)]
pub enum Definition {
    Operation(OperationDef),
    Fragment(FragmentDef),
    Schema(SchemaDef),
    Type(TypeDef),
    Directive(DirectiveDef),
}

#[derive(Clone, Copy, Debug, PartialEq, Eq, Hash, PartialOrd, Ord)]
pub enum OpType {
    Query,
    Mutation,
    Subscription,
}

impl OpType {
    pub fn keyword(self) -> &'static str {
        match self {
            OpType::Query => "query",
            OpType::Mutation => "mutation",
            OpType::Subscription => "subscription",
        }
    }
    pub fn default_root(self) -> &'static str {
        match self {
            OpType::Query => "Query",
            OpType::Mutation => "Mutation",
            OpType::Subscription => "Subscription",
        }
    }
    pub const ALL: [OpType; 3] = [OpType::Query, OpType::Mutation, OpType::Subscription];
}

#[derive(Clone, Debug, PartialEq)]
pub struct OperationDef {
    pub op: OpType,
    /// `{ ... }` query shorthand (no keyword, name, variables, directives)
    pub shorthand: bool,
    pub name: Option<String>,
    pub vars: Vec<VarDef>,
    pub directives: Vec<Directive>,
    pub selection_set: Vec<Selection>,
}

#[derive(Clone, Debug, PartialEq)]
pub struct FragmentDef {
    pub name: String,
    pub type_condition: String,
    pub directives: Vec<Directive>,
    pub selection_set: Vec<Selection>,
}

#[derive(Clone, Debug, PartialEq)]
pub enum Selection {
    Field(Field),
    Spread(FragmentSpread),
    Inline(InlineFragment),
}

#[derive(Clone, Debug, PartialEq)]
pub struct Field {
    pub alias: Option<String>,
    pub name: String,
    pub args: Vec<(String, Value)>,
    pub directives: Vec<Directive>,
    /// empty = no selection set (the grammar has no empty `{}`)
    pub selection_set: Vec<Selection>,
}

impl Field {
    pub fn response_key(&self) -> &str {
        self.alias.as_deref().unwrap_or(&self.name)
    }
}

#[derive(Clone, Debug, PartialEq)]
pub struct FragmentSpread {
    pub name: String,
    pub directives: Vec<Directive>,
}

#[derive(Clone, Debug, PartialEq)]
pub struct InlineFragment {
    pub type_condition: Option<String>,
    pub directives: Vec<Directive>,
    pub selection_set: Vec<Selection>,
}

#[derive(Clone, Debug, PartialEq)]
pub struct Directive {
    pub name: String,
    pub args: Vec<(String, Value)>,
}

#[derive(Clone, Debug, PartialEq)]
pub struct VarDef {
    pub name: String,
    pub ty: Type,
    pub default: Option<Value>,
    pub directives: Vec<Directive>,
}

#[derive(Clone, Debug, PartialEq, Eq, Hash, PartialOrd, Ord)]
pub enum Type {
    Named(String),
    List(Box<Type>),
    NonNull(Box<Type>),
}

impl Type {
    pub fn named(n: &str) -> Type {
        Type::Named(n.to_string())
    }
    pub fn list(self) -> Type {
        Type::List(Box::new(self))
    }
    pub fn non_null(self) -> Type {
        match self {
            Type::NonNull(_) => self,
            t => Type::NonNull(Box::new(t)),
        }
    }
    pub fn inner_name(&self) -> &str {
        match self {
            Type::Named(n) => n,
            Type::List(t) | Type::NonNull(t) => t.inner_name(),
        }
    }
    pub fn is_non_null(&self) -> bool {
        matches!(self, Type::NonNull(_))
    }
    pub fn nullable(&self) -> &Type {
        match self {
            Type::NonNull(t) => t,
            t => t,
        }
    }
    pub fn is_list(&self) -> bool {
        matches!(self.nullable(), Type::List(_))
    }
    pub fn item(&self) -> Option<&Type> {
        match self.nullable() {
            Type::List(t) => Some(t),
            _ => None,
        }
    }
    pub fn depth(&self) -> usize {
        match self {
            Type::Named(_) => 0,
            Type::List(t) => 1 + t.depth(),
            Type::NonNull(t) => t.depth(),
        }
    }
    pub fn print(&self) -> String {
        match self {
            Type::Named(n) => n.clone(),
            Type::List(t) => format!("[{}]", t.print()),
            Type::NonNull(t) => format!("{}!", t.print()),
        }
    }
}

#[derive(Clone, Debug, PartialEq)]
pub struct StrLit {
    /// semantic value
    pub value: String,
    /// source text of the literal (with quotes)
    pub raw: String,
    pub block: bool,
}

impl StrLit {
    pub fn plain(v: &str) -> StrLit {
        StrLit {
            value: v.to_string(),
            raw: super::strings::quote(v),
            block: false,
        }
    }
}

#[derive(Clone, Debug, PartialEq)]
pub enum Value {
    Var(String),
    /// literal text
    Int(String),
    Float(String),
    Str(StrLit),
    Bool(bool),
    Null,
    Enum(String),
    List(Vec<Value>),
    Object(Vec<(String, Value)>),
}

impl Value {
    pub fn str(v: &str) -> Value {
        Value::Str(StrLit::plain(v))
    }
    pub fn int(v: i64) -> Value {
        Value::Int(v.to_string())
    }
    pub fn contains_var(&self) -> bool {
        match self {
            Value::Var(_) => true,
            Value::List(l) => l.iter().any(|v| v.contains_var()),
            Value::Object(o) => o.iter().any(|(_, v)| v.contains_var()),
            _ => false,
        }
    }
    pub fn depth(&self) -> usize {
        match self {
            Value::List(l) => 1 + l.iter().map(|v| v.depth()).max().unwrap_or(0),
            Value::Object(o) => 1 + o.iter().map(|(_, v)| v.depth()).max().unwrap_or(0),
            _ => 0,
        }
    }
}

#[derive(Clone, Debug, PartialEq)]
pub struct SchemaDef {
    pub is_ext: bool,
    pub description: Option<StrLit>,
    pub directives: Vec<Directive>,
    pub roots: Vec<(OpType, String)>,
}

#[derive(Clone, Copy, Debug, PartialEq, Eq, Hash, PartialOrd, Ord)]
pub enum TypeKind {
    Scalar,
    Object,
    Interface,
    Union,
    Enum,
    InputObject,
}

impl TypeKind {
    pub fn keyword(self) -> &'static str {
        match self {
            TypeKind::Scalar => "scalar",
            TypeKind::Object => "type",
            TypeKind::Interface => "interface",
            TypeKind::Union => "union",
            TypeKind::Enum => "enum",
            TypeKind::InputObject => "input",
        }
    }
    pub const ALL: [TypeKind; 6] = [
        TypeKind::Scalar,
        TypeKind::Object,
        TypeKind::Interface,
        TypeKind::Union,
        TypeKind::Enum,
        TypeKind::InputObject,
    ];
}

/// A type definition or type extension of any kind; only the component lists that the kind
/// allows are non-empty.
#[derive(Clone, Debug, PartialEq)]
pub struct TypeDef {
    pub kind: TypeKind,
    pub is_ext: bool,
    pub description: Option<StrLit>,
    pub name: String,
    pub implements: Vec<String>,
    pub directives: Vec<Directive>,
    /// object / interface
    pub fields: Vec<FieldDef>,
    /// union
    pub members: Vec<String>,
    /// enum
    pub values: Vec<EnumValueDef>,
    /// input object
    pub input_fields: Vec<InputValueDef>,
}

impl TypeDef {
    pub fn new(kind: TypeKind, name: &str) -> TypeDef {
        TypeDef {
            kind,
            is_ext: false,
            description: None,
            name: name.to_string(),
            implements: vec![],
            directives: vec![],
            fields: vec![],
            members: vec![],
            values: vec![],
            input_fields: vec![],
        }
    }
}

#[derive(Clone, Debug, PartialEq)]
pub struct FieldDef {
    pub description: Option<StrLit>,
    pub name: String,
    pub args: Vec<InputValueDef>,
    pub ty: Type,
    pub directives: Vec<Directive>,
}

#[derive(Clone, Debug, PartialEq)]
pub struct InputValueDef {
    pub description: Option<StrLit>,
    pub name: String,
    pub ty: Type,
    pub default: Option<Value>,
    pub directives: Vec<Directive>,
}

#[derive(Clone, Debug, PartialEq)]
pub struct EnumValueDef {
    pub description: Option<StrLit>,
    pub name: String,
    pub directives: Vec<Directive>,
}

#[derive(Clone, Debug, PartialEq)]
pub struct DirectiveDef {
    pub description: Option<StrLit>,
    pub name: String,
    pub args: Vec<InputValueDef>,
    pub repeatable: bool,
    pub locations: Vec<String>,
}

pub const EXECUTABLE_LOCATIONS: [&str; 8] = [
    "QUERY",
    "MUTATION",
    "SUBSCRIPTION",
    "FIELD",
    "FRAGMENT_DEFINITION",
    "FRAGMENT_SPREAD",
    "INLINE_FRAGMENT",
    "VARIABLE_DEFINITION",
];
pub const TYPE_SYSTEM_LOCATIONS: [&str; 11] = [
    "SCHEMA",
    "SCALAR",
    "OBJECT",
    "FIELD_DEFINITION",
    "ARGUMENT_DEFINITION",
    "INTERFACE",
    "UNION",
    "ENUM",
    "ENUM_VALUE",
    "INPUT_OBJECT",
    "INPUT_FIELD_DEFINITION",
];

pub fn is_directive_location(s: &str) -> bool {
    EXECUTABLE_LOCATIONS.contains(&s) || TYPE_SYSTEM_LOCATIONS.contains(&s)
}

impl Definition {
    /// (kind, name) used to compare top-level definitions with apollo's CST.
    pub fn kind_name(&self) -> (String, Option<String>) {
        match self {
            Definition::Operation(o) => ("OperationDefinition".into(), o.name.clone()),
            Definition::Fragment(f) => ("FragmentDefinition".into(), Some(f.name.clone())),
            Definition::Schema(s) => (
                if s.is_ext { "SchemaExtension" } else { "SchemaDefinition" }.into(),
                None,
            ),
            Definition::Directive(d) => ("DirectiveDefinition".into(), Some(d.name.clone())),
            Definition::Type(t) => {
                let base = match t.kind {
                    TypeKind::Scalar => "ScalarType",
                    TypeKind::Object => "ObjectType",
                    TypeKind::Interface => "InterfaceType",
                    TypeKind::Union => "UnionType",
                    TypeKind::Enum => "EnumType",
                    TypeKind::InputObject => "InputObjectType",
                };
                (
                    format!("{}{}", base, if t.is_ext { "Extension" } else { "Definition" }),
                    Some(t.name.clone()),
                )
            }
        }
    }
    pub fn is_executable(&self) -> bool {
        matches!(self, Definition::Operation(_) | Definition::Fragment(_))
    }
}
