//! Printer for the reference AST: AST -> significant token texts -> source text.
//! Token-level mutation (C01, C05) works on the token list before joining.

use super::ast::*;
use crate::choices::Choices;

#[derive(Default)]
pub struct Toks(pub Vec<String>);

impl Toks {
    fn p(&mut self, s: &str) {
        self.0.push(s.to_string());
    }
    fn name(&mut self, s: &str) {
        self.0.push(s.to_string());
    }

    pub fn document(&mut self, d: &Document) {
        for def in &d.defs {
            self.definition(def);
        }
    }

    pub fn definition(&mut self, d: &Definition) {
        match d {
            Definition::Operation(o) => self.operation(o),
            Definition::Fragment(f) => {
                self.p("fragment");
                self.name(&f.name);
                self.p("on");
                self.name(&f.type_condition);
                self.directives(&f.directives);
                self.selection_set(&f.selection_set);
            }
            Definition::Schema(s) => {
                if s.is_ext {
                    self.p("extend");
                }
                self.desc(&s.description);
                self.p("schema");
                self.directives(&s.directives);
                if !s.roots.is_empty() || !s.is_ext {
                    self.p("{");
                    for (op, n) in &s.roots {
                        self.p(op.keyword());
                        self.p(":");
                        self.name(n);
                    }
                    self.p("}");
                }
            }
            Definition::Type(t) => self.type_def(t),
            Definition::Directive(d) => {
                self.desc(&d.description);
                self.p("directive");
                self.p("@");
                self.name(&d.name);
                self.args_def(&d.args);
                if d.repeatable {
                    self.p("repeatable");
                }
                self.p("on");
                for (i, l) in d.locations.iter().enumerate() {
                    if i > 0 {
                        self.p("|");
                    }
                    self.name(l);
                }
            }
        }
    }

    fn desc(&mut self, d: &Option<StrLit>) {
        if let Some(d) = d {
            self.0.push(d.raw.clone());
        }
    }

    pub fn operation(&mut self, o: &OperationDef) {
        if !o.shorthand {
            self.p(o.op.keyword());
            if let Some(n) = &o.name {
                self.name(n);
            }
            if !o.vars.is_empty() {
                self.p("(");
                for v in &o.vars {
                    self.p("$");
                    self.name(&v.name);
                    self.p(":");
                    self.ty(&v.ty);
                    if let Some(d) = &v.default {
                        self.p("=");
                        self.value(d);
                    }
                    self.directives(&v.directives);
                }
                self.p(")");
            }
            self.directives(&o.directives);
        }
        self.selection_set(&o.selection_set);
    }

    pub fn selection_set(&mut self, s: &[Selection]) {
        self.p("{");
        for sel in s {
            self.selection(sel);
        }
        self.p("}");
    }

    pub fn selection(&mut self, sel: &Selection) {
        match sel {
            Selection::Field(f) => {
                if let Some(a) = &f.alias {
                    self.name(a);
                    self.p(":");
                }
                self.name(&f.name);
                self.args(&f.args);
                self.directives(&f.directives);
                if !f.selection_set.is_empty() {
                    self.selection_set(&f.selection_set);
                }
            }
            Selection::Spread(s) => {
                self.p("...");
                self.name(&s.name);
                self.directives(&s.directives);
            }
            Selection::Inline(i) => {
                self.p("...");
                if let Some(t) = &i.type_condition {
                    self.p("on");
                    self.name(t);
                }
                self.directives(&i.directives);
                self.selection_set(&i.selection_set);
            }
        }
    }

    pub fn args(&mut self, args: &[(String, Value)]) {
        if args.is_empty() {
            return;
        }
        self.p("(");
        for (n, v) in args {
            self.name(n);
            self.p(":");
            self.value(v);
        }
        self.p(")");
    }

    pub fn directives(&mut self, ds: &[Directive]) {
        for d in ds {
            self.p("@");
            self.name(&d.name);
            self.args(&d.args);
        }
    }

    pub fn value(&mut self, v: &Value) {
        match v {
            Value::Var(n) => {
                self.p("$");
                self.name(n);
            }
            Value::Int(t) | Value::Float(t) => self.p(t),
            Value::Str(s) => self.0.push(s.raw.clone()),
            Value::Bool(b) => self.p(if *b { "true" } else { "false" }),
            Value::Null => self.p("null"),
            Value::Enum(e) => self.name(e),
            Value::List(l) => {
                self.p("[");
                for x in l {
                    self.value(x);
                }
                self.p("]");
            }
            Value::Object(o) => {
                self.p("{");
                for (k, x) in o {
                    self.name(k);
                    self.p(":");
                    self.value(x);
                }
                self.p("}");
            }
        }
    }

    pub fn ty(&mut self, t: &Type) {
        match t {
            Type::Named(n) => self.name(n),
            Type::List(i) => {
                self.p("[");
                self.ty(i);
                self.p("]");
            }
            Type::NonNull(i) => {
                self.ty(i);
                self.p("!");
            }
        }
    }

    fn args_def(&mut self, args: &[InputValueDef]) {
        if args.is_empty() {
            return;
        }
        self.p("(");
        for a in args {
            self.input_value_def(a);
        }
        self.p(")");
    }

    fn input_value_def(&mut self, a: &InputValueDef) {
        self.desc(&a.description);
        self.name(&a.name);
        self.p(":");
        self.ty(&a.ty);
        if let Some(d) = &a.default {
            self.p("=");
            self.value(d);
        }
        self.directives(&a.directives);
    }

    pub fn type_def(&mut self, t: &TypeDef) {
        if t.is_ext {
            self.p("extend");
        }
        self.desc(&t.description);
        self.p(t.kind.keyword());
        self.name(&t.name);
        if !t.implements.is_empty() {
            self.p("implements");
            for (i, n) in t.implements.iter().enumerate() {
                if i > 0 {
                    self.p("&");
                }
                self.name(n);
            }
        }
        self.directives(&t.directives);
        match t.kind {
            TypeKind::Scalar => {}
            TypeKind::Object | TypeKind::Interface => {
                if !t.fields.is_empty() {
                    self.p("{");
                    for f in &t.fields {
                        self.desc(&f.description);
                        self.name(&f.name);
                        self.args_def(&f.args);
                        self.p(":");
                        self.ty(&f.ty);
                        self.directives(&f.directives);
                    }
                    self.p("}");
                }
            }
            TypeKind::Union => {
                if !t.members.is_empty() {
                    self.p("=");
                    for (i, m) in t.members.iter().enumerate() {
                        if i > 0 {
                            self.p("|");
                        }
                        self.name(m);
                    }
                }
            }
            TypeKind::Enum => {
                if !t.values.is_empty() {
                    self.p("{");
                    for v in &t.values {
                        self.desc(&v.description);
                        self.name(&v.name);
                        self.directives(&v.directives);
                    }
                    self.p("}");
                }
            }
            TypeKind::InputObject => {
                if !t.input_fields.is_empty() {
                    self.p("{");
                    for f in &t.input_fields {
                        self.input_value_def(f);
                    }
                    self.p("}");
                }
            }
        }
    }
}

fn is_simple_punct(t: &str) -> bool {
    t.len() == 1 && "!$&():=@[]{}|".contains(t)
}

/// Join tokens with single spaces only where needed to keep them apart (and always a space
/// when unsure), newline after `{`/`}`-level tokens for readability.
pub fn join_plain(tokens: &[String]) -> String {
    let mut out = String::new();
    for (i, t) in tokens.iter().enumerate() {
        if i > 0 {
            let prev = &tokens[i - 1];
            if !(is_simple_punct(prev) || is_simple_punct(t)) || t == "{" || prev == "}" || prev == ":" {
                out.push(' ');
            }
        }
        out.push_str(t);
    }
    out
}

const IGNORED: [&str; 12] = [" ", "\n", ",", "\t", "  ", " # c\n", "\r\n", ", ", "\u{FEFF}", "\r", "#\n", " #é \"x\" {\n"];

/// Join tokens with random ignored tokens (whitespace, commas, comments, BOM, line terminators)
/// between them. Ignored tokens never change how the significant tokens lex.
pub fn join_random(tokens: &[String], c: &mut Choices) -> String {
    let mut out = String::new();
    if c.bool(40) {
        out.push_str(c.pick(&IGNORED));
    }
    for (i, t) in tokens.iter().enumerate() {
        if i > 0 {
            let prev = &tokens[i - 1];
            let need = !(is_simple_punct(prev) || is_simple_punct(t));
            if need || c.bool(150) {
                // a number directly followed by `,` etc. is fine; all IGNORED entries separate tokens
                out.push_str(c.pick(&IGNORED));
                if c.bool(30) {
                    out.push_str(c.pick(&IGNORED));
                }
            }
        }
        out.push_str(t);
    }
    if c.bool(60) {
        out.push_str(c.pick(&IGNORED));
    }
    out
}

pub fn doc_tokens(d: &Document) -> Vec<String> {
    let mut t = Toks::default();
    t.document(d);
    t.0
}

pub fn print_document(d: &Document) -> String {
    // one definition per line
    let mut out = String::new();
    for def in &d.defs {
        let mut t = Toks::default();
        t.definition(def);
        out.push_str(&join_plain(&t.0));
        out.push('\n');
    }
    out
}

pub fn print_value(v: &Value) -> String {
    let mut t = Toks::default();
    t.value(v);
    join_plain(&t.0)
}

pub fn print_selection_set(s: &[Selection]) -> String {
    let mut t = Toks::default();
    t.selection_set(s);
    join_plain(&t.0)
}

#[cfg(test)]
mod tests {
    use super::super::parser::parse_document;
    use super::*;
    #[test]
    fn roundtrip() {
        for s in [
            "query Q($a: Int = 1 @d, $b: [T!]!) @x { a: b(c: $a, d: [1, {e: \"f\"}]) @i(if: true) { ...F ... on T { x } ... @s { y } } }",
            "\"d\" type A implements B & C @d { \"x\" f(\"y\" a: Int = 1 @d): T @d } extend type A @x union U = A | B enum E { A @d B } input I { a: [Int] = [1 2] } directive @d(a: Int) repeatable on FIELD | QUERY schema @d { query: A } extend schema @e scalar S",
            "{ a(x: 1.5e3, y: \"\"\"b\"\"\", z: null, w: E) }",
        ] {
            let d = parse_document(s).unwrap();
            let t = print_document(&d);
            assert_eq!(parse_document(&t).unwrap(), d, "{t}");
            let bytes: Vec<u8> = (0..4000u32).map(|i| (i.wrapping_mul(2654435761) >> 13) as u8).collect();
            let mut c = Choices::new(&bytes);
            let t2 = join_random(&doc_tokens(&d), &mut c);
            assert_eq!(parse_document(&t2).unwrap(), d, "{t2}");
        }
    }
}
