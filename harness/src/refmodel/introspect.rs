//! Reference for C24: the result of schema introspection computed from the reference schema
//! model (`RefSchema`), following section 4 of the October 2021 specification and the behaviour
//! of graphql-js v16 where it can be stated with certainty. Nothing in here calls apollo code.
//!
//! Two parts:
//!  * `execute`: a small executor for introspection queries (named and inline fragments, aliases,
//!    `includeDeprecated`) over the reference model. It returns the EXPECTED `data` as JSON with
//!    three kinds of annotation, all under keys/markers starting with `$`:
//!      - every object carries `"$type"` (its introspection type) and `"$builtin"` (it describes a
//!        built-in type/directive or a member of one);
//!      - `{"$any": ...}` stands for "any string or null" (descriptions of built-ins: graphql-js's
//!        texts cannot be reproduced offline);
//!      - `{"$default": {"type": T, "literal": L}}` stands for "a GraphQL literal that coerces, for
//!        input type T, to the same value as L" (default values whose exact graphql-js text is
//!        not certain: floats, IDs, custom scalars, escapes, a scalar for a list, partial or
//!        reordered input objects).
//!  * `compare`: compares a serialised response with that expectation and reports differences
//!    by JSON path KIND (`<introspection type>.<field>`, e.g. `__Field.isDeprecated`,
//!    `__InputValue.defaultValue|text`, `__Type.fields|order`), ignoring only: the order of
//!    `__Schema.types`, `__Schema.directives`, `__Type.possibleTypes`, and the member order
//!    (fields, enum values, arguments, locations) of built-in definitions.
//!
//! What is asserted about `__Schema.types`: every user-defined type; the eight introspection
//! types; `String` and `Boolean` (referenced by the introspection types and built-in directives);
//! `Int`, `Float`, `ID` if and only if some field, argument or input field of a user type or an
//! argument of a user directive has that (inner) type. (Spec 3.5: "all referenced built-in scalars
//! must be included. If a built-in scalar type is not referenced anywhere in a schema (there is
//! no field, argument, or input field of that type) then it must not be included"; graphql-js
//! collects the type map in exactly this way.)

use super::ast::*;
use super::parser::P;
use super::schema::{RefSchema, BUILTIN_SCALARS};
use serde_json::{json, Map, Value as J};
use std::collections::{BTreeMap, BTreeSet};

/// graphql-js v16 `getIntrospectionQuery({descriptions: true, specifiedByUrl: true,
/// directiveIsRepeatable: true, schemaDescription: true, inputValueDeprecation: true})`,
/// with a TypeRef fragment nine `ofType` levels deep.
pub const INTROSPECTION_QUERY: &str = r#"
query IntrospectionQuery {
  __schema {
    description
    queryType { name }
    mutationType { name }
    subscriptionType { name }
    types {
      ...FullType
    }
    directives {
      name
      description
      isRepeatable
      locations
      args(includeDeprecated: true) {
        ...InputValue
      }
    }
  }
}

fragment FullType on __Type {
  kind
  name
  description
  specifiedByURL
  fields(includeDeprecated: true) {
    name
    description
    args(includeDeprecated: true) {
      ...InputValue
    }
    type {
      ...TypeRef
    }
    isDeprecated
    deprecationReason
  }
  inputFields(includeDeprecated: true) {
    ...InputValue
  }
  interfaces {
    ...TypeRef
  }
  enumValues(includeDeprecated: true) {
    name
    description
    isDeprecated
    deprecationReason
  }
  possibleTypes {
    ...TypeRef
  }
}

fragment InputValue on __InputValue {
  name
  description
  type { ...TypeRef }
  defaultValue
  isDeprecated
  deprecationReason
}

fragment TypeRef on __Type {
  kind
  name
  ofType {
    kind
    name
    ofType {
      kind
      name
      ofType {
        kind
        name
        ofType {
          kind
          name
          ofType {
            kind
            name
            ofType {
              kind
              name
              ofType {
                kind
                name
                ofType {
                  kind
                  name
                  ofType {
                    kind
                    name
                  }
                }
              }
            }
          }
        }
      }
    }
  }
}
"#;

pub const DEFAULT_DEPRECATION_REASON: &str = "No longer supported";

// ------------------------------------------------------------------------------------------------
// Which types are listed

/// Names of the built-in scalars that must be listed in `__Schema.types`.
pub fn listed_builtin_scalars(s: &RefSchema) -> BTreeSet<String> {
    let mut out: BTreeSet<String> = BTreeSet::new();
    // referenced by the introspection types and the built-in directives
    out.insert("String".into());
    out.insert("Boolean".into());
    let mut see = |t: &Type| {
        let n = t.inner_name();
        if BUILTIN_SCALARS.contains(&n) {
            out.insert(n.to_string());
        }
    };
    for t in &s.types {
        for f in &t.fields {
            see(&f.ty);
            for a in &f.args {
                see(&a.ty);
            }
        }
        for f in &t.input_fields {
            see(&f.ty);
        }
    }
    for d in s.directives.values() {
        for a in &d.args {
            see(&a.ty);
        }
    }
    out
}

fn type_is_listed(s: &RefSchema, t: &TypeDef, scalars: &BTreeSet<String>) -> bool {
    if !s.is_builtin_type(&t.name) {
        return true;
    }
    if BUILTIN_SCALARS.contains(&t.name.as_str()) {
        return scalars.contains(&t.name);
    }
    true
}

// ------------------------------------------------------------------------------------------------
// Default values

/// A coerced input value (spec 3.x "Input Coercion" of literals; for custom scalars the untyped
/// value of the literal).
#[derive(Clone, Debug, PartialEq)]
pub enum CV {
    Null,
    Int(i64),
    Num(f64),
    Str(String),
    Bool(bool),
    Enum(String),
    List(Vec<CV>),
    Obj(BTreeMap<String, CV>),
}

fn untyped(v: &Value) -> Result<CV, String> {
    Ok(match v {
        Value::Var(n) => return Err(format!("variable ${n} in a constant")),
        Value::Int(t) | Value::Float(t) => CV::Num(t.parse::<f64>().map_err(|e| format!("number {t}: {e}"))?),
        Value::Str(s) => CV::Str(s.value.clone()),
        Value::Bool(b) => CV::Bool(*b),
        Value::Null => CV::Null,
        // graphql-js's untyped value of an enum literal is its name as a string
        Value::Enum(e) => CV::Str(e.clone()),
        Value::List(l) => CV::List(l.iter().map(untyped).collect::<Result<_, _>>()?),
        Value::Object(o) => {
            let mut m = BTreeMap::new();
            for (k, x) in o {
                m.insert(k.clone(), untyped(x)?);
            }
            CV::Obj(m)
        }
    })
}

/// Input coercion of the constant literal `v` for input type `ty`.
pub fn coerce(s: &RefSchema, ty: &Type, v: &Value) -> Result<CV, String> {
    if let Value::Var(n) = v {
        return Err(format!("variable ${n} in a constant"));
    }
    match ty {
        Type::NonNull(t) => {
            if *v == Value::Null {
                return Err(format!("null for non-null type {}", ty.print()));
            }
            coerce(s, t, v)
        }
        _ if *v == Value::Null => Ok(CV::Null),
        Type::List(t) => match v {
            Value::List(items) => Ok(CV::List(items.iter().map(|x| coerce(s, t, x)).collect::<Result<_, _>>()?)),
            // a single value is a list of one
            single => Ok(CV::List(vec![coerce(s, t, single)?])),
        },
        Type::Named(n) => match n.as_str() {
            "Int" if s.is_builtin_type("Int") => match v {
                Value::Int(t) => t.parse::<i64>().map(CV::Int).map_err(|e| format!("Int {t}: {e}")),
                other => Err(format!("{:?} for Int", other)),
            },
            "Float" if s.is_builtin_type("Float") => match v {
                Value::Int(t) | Value::Float(t) => t.parse::<f64>().map(CV::Num).map_err(|e| format!("Float {t}: {e}")),
                other => Err(format!("{:?} for Float", other)),
            },
            "String" if s.is_builtin_type("String") => match v {
                Value::Str(x) => Ok(CV::Str(x.value.clone())),
                other => Err(format!("{:?} for String", other)),
            },
            "Boolean" if s.is_builtin_type("Boolean") => match v {
                Value::Bool(b) => Ok(CV::Bool(*b)),
                other => Err(format!("{:?} for Boolean", other)),
            },
            "ID" if s.is_builtin_type("ID") => match v {
                Value::Str(x) => Ok(CV::Str(x.value.clone())),
                // an integer literal is the ID with that decimal text
                Value::Int(t) => Ok(CV::Str(match t.parse::<i128>() {
                    Ok(i) => i.to_string(),
                    Err(_) => t.clone(),
                })),
                other => Err(format!("{:?} for ID", other)),
            },
            _ => {
                let Some(def) = s.get(n) else { return Err(format!("unknown type {n}")) };
                match def.kind {
                    TypeKind::Scalar => untyped(v),
                    TypeKind::Enum => match v {
                        Value::Enum(e) if def.values.iter().any(|x| x.name == *e) => Ok(CV::Enum(e.clone())),
                        other => Err(format!("{:?} for enum {n}", other)),
                    },
                    TypeKind::InputObject => {
                        let Value::Object(fields) = v else { return Err(format!("{:?} for input object {n}", v)) };
                        for (k, _) in fields {
                            if !def.input_fields.iter().any(|f| f.name == *k) {
                                return Err(format!("unknown field {k} of {n}"));
                            }
                        }
                        let mut m = BTreeMap::new();
                        for f in &def.input_fields {
                            match fields.iter().find(|(k, _)| *k == f.name) {
                                Some((_, x)) => {
                                    m.insert(f.name.clone(), coerce(s, &f.ty, x)?);
                                }
                                None => match &f.default {
                                    Some(d) => {
                                        m.insert(f.name.clone(), coerce(s, &f.ty, d)?);
                                    }
                                    None if f.ty.is_non_null() => return Err(format!("missing required field {} of {n}", f.name)),
                                    None => {}
                                },
                            }
                        }
                        Ok(CV::Obj(m))
                    }
                    _ => Err(format!("{n} is not an input type")),
                }
            }
        },
    }
}

fn canonical_int(t: &str) -> bool {
    // IntValue without "-0"; at most 15 digits so the value is exact as a double too
    let digits = t.strip_prefix('-').unwrap_or(t);
    t != "-0" && !digits.is_empty() && digits.len() <= 15 && digits.bytes().all(|b| b.is_ascii_digit()) && (digits == "0" || !digits.starts_with('0'))
}

/// A FloatValue literal that JavaScript's Number-to-String conversion reproduces unchanged:
/// `-?int.frac` without exponent, canonical integer part, fraction not ending in `0`, at most
/// 9 significant digits in total (so the shortest round-trip representation is the text itself
/// and the magnitude is between 1e-6 and 1e21, where JavaScript uses plain decimal notation).
fn canonical_decimal(t: &str) -> bool {
    let body = t.strip_prefix('-').unwrap_or(t);
    let Some((int, frac)) = body.split_once('.') else { return false };
    let digits = |x: &str| !x.is_empty() && x.bytes().all(|b| b.is_ascii_digit());
    digits(int) && digits(frac) && (int == "0" || !int.starts_with('0')) && !frac.ends_with('0') && int.len() + frac.len() <= 9 && frac.len() <= 5
}

fn plain_ascii(s: &str) -> bool {
    s.bytes().all(|b| (0x20..=0x7e).contains(&b) && b != b'"' && b != b'\\')
}

/// The text graphql-js v16 prints for a default value — `print(astFromValue(valueFromAST(lit,
/// type), type))` — when that text is certain: canonical ints (also for Float), short plain
/// decimals such as `1.5` or `-2.25` for Float, booleans, enum
/// values, plain printable-ASCII quoted strings, `null`, lists of those given as lists, and
/// input objects whose fields are given in definition order with no omitted field that has a
/// default. `None` = only the coerced value is asserted.
pub fn certain_default_text(s: &RefSchema, ty: &Type, v: &Value) -> Option<String> {
    if *v == Value::Null {
        return if ty.is_non_null() { None } else { Some("null".into()) };
    }
    match ty {
        Type::NonNull(t) => certain_default_text(s, t, v),
        Type::List(t) => match v {
            Value::List(items) => {
                let parts: Option<Vec<String>> = items.iter().map(|x| certain_default_text(s, t, x)).collect();
                Some(format!("[{}]", parts?.join(", ")))
            }
            _ => None,
        },
        Type::Named(n) => {
            if s.is_builtin_type(n) {
                return match (n.as_str(), v) {
                    ("Int", Value::Int(t)) | ("Float", Value::Int(t)) if canonical_int(t) => Some(t.clone()),
                    ("Float", Value::Float(t)) if canonical_decimal(t) => Some(t.clone()),
                    ("String", Value::Str(x)) if !x.block && plain_ascii(&x.value) && x.raw == format!("\"{}\"", x.value) => Some(x.raw.clone()),
                    ("Boolean", Value::Bool(b)) => Some(b.to_string()),
                    _ => None,
                };
            }
            let def = s.get(n)?;
            match (def.kind, v) {
                (TypeKind::Enum, Value::Enum(e)) if def.values.iter().any(|x| x.name == *e) => Some(e.clone()),
                (TypeKind::InputObject, Value::Object(fields)) => {
                    let mut parts = vec![];
                    let mut next = 0usize;
                    for f in &def.input_fields {
                        match fields.iter().position(|(k, _)| *k == f.name) {
                            Some(i) => {
                                if i != next {
                                    return None; // not in definition order (or duplicated)
                                }
                                next += 1;
                                parts.push(format!("{}: {}", f.name, certain_default_text(s, &f.ty, &fields[i].1)?));
                            }
                            None => {
                                if f.default.is_some() {
                                    return None; // graphql-js fills the default in
                                }
                            }
                        }
                    }
                    if next != fields.len() {
                        return None;
                    }
                    Some(format!("{{{}}}", parts.join(", ")))
                }
                _ => None,
            }
        }
    }
}

/// Parse a constant GraphQL value (the whole text).
pub fn parse_const_value(text: &str) -> Result<Value, String> {
    let mut p = P::new(text).map_err(|e| e.code())?;
    let v = p.value(true).map_err(|e| e.code())?;
    if !p.at_eof() {
        return Err("trailing tokens after the value".into());
    }
    Ok(v)
}

fn default_expectation(s: &RefSchema, iv: &InputValueDef) -> J {
    match &iv.default {
        None => J::Null,
        Some(v) => match certain_default_text(s, &iv.ty, v) {
            Some(t) => J::String(t),
            None => json!({"$default": {"type": iv.ty.print(), "literal": super::printer::print_value(v)}}),
        },
    }
}

// ------------------------------------------------------------------------------------------------
// Executor

#[derive(Clone)]
enum Obj<'a> {
    Root,
    Schema,
    Named(&'a TypeDef),
    Wrapper(Type),
    Field(&'a FieldDef, bool),
    Input(&'a InputValueDef, bool),
    EnumValue(&'a EnumValueDef, bool),
    Directive(&'a DirectiveDef, bool),
}

enum Res<'a> {
    Leaf(J),
    Obj(Option<Obj<'a>>),
    List(Vec<Obj<'a>>),
    /// concrete root field: not part of the partial response
    Absent,
}

pub struct Exec<'a> {
    s: &'a RefSchema,
    frags: BTreeMap<&'a str, &'a FragmentDef>,
    scalars: BTreeSet<String>,
}

fn any_marker() -> J {
    json!({"$any": "description of a built-in definition"})
}

fn description(d: &Option<StrLit>, builtin: bool) -> J {
    if builtin {
        return any_marker();
    }
    match d {
        Some(x) => J::String(x.value.clone()),
        None => J::Null,
    }
}

/// `Ok(None)` = not deprecated, `Ok(Some(reason))` = deprecated.
fn deprecation(dirs: &[Directive]) -> Result<Option<String>, String> {
    let Some(d) = dirs.iter().find(|d| d.name == "deprecated") else { return Ok(None) };
    match d.args.iter().find(|(k, _)| k == "reason") {
        None => Ok(Some(DEFAULT_DEPRECATION_REASON.to_string())),
        Some((_, Value::Str(x))) => Ok(Some(x.value.clone())),
        // `reason: null` makes graphql-js report "not deprecated" while the October 2021 text is
        // silent; never generated, refused here
        Some((_, other)) => Err(format!("unsupported: @deprecated(reason: {:?})", other)),
    }
}

fn include_deprecated(f: &Field) -> Result<bool, String> {
    match f.args.iter().find(|(k, _)| k == "includeDeprecated") {
        None | Some((_, Value::Null)) => Ok(false),
        Some((_, Value::Bool(b))) => Ok(*b),
        Some((_, other)) => Err(format!("unsupported: includeDeprecated: {:?}", other)),
    }
}

impl<'a> Exec<'a> {
    pub fn new(s: &'a RefSchema, query: &'a Document) -> Exec<'a> {
        Exec { s, frags: super::depth::fragments(query), scalars: listed_builtin_scalars(s) }
    }

    fn type_name(&self, o: &Obj<'a>) -> String {
        match o {
            Obj::Root => self.s.query.clone().unwrap_or_else(|| "Query".into()),
            Obj::Schema => "__Schema".into(),
            Obj::Named(_) | Obj::Wrapper(_) => "__Type".into(),
            Obj::Field(..) => "__Field".into(),
            Obj::Input(..) => "__InputValue".into(),
            Obj::EnumValue(..) => "__EnumValue".into(),
            Obj::Directive(..) => "__Directive".into(),
        }
    }

    fn is_builtin_obj(&self, o: &Obj<'a>) -> bool {
        match o {
            Obj::Root | Obj::Schema | Obj::Wrapper(_) => false,
            Obj::Named(t) => self.s.is_builtin_type(&t.name),
            Obj::Field(_, b) | Obj::Input(_, b) | Obj::EnumValue(_, b) | Obj::Directive(_, b) => *b,
        }
    }

    fn type_ref(&self, t: &Type) -> Result<Obj<'a>, String> {
        match t {
            Type::Named(n) => self.s.get(n).map(Obj::Named).ok_or_else(|| format!("unknown type {n}")),
            other => Ok(Obj::Wrapper(other.clone())),
        }
    }

    fn named(&self, n: &str) -> Result<Obj<'a>, String> {
        self.s.get(n).map(Obj::Named).ok_or_else(|| format!("unknown type {n}"))
    }

    fn collect(
        &self,
        type_name: &str,
        sels: &'a [Selection],
        visited: &mut BTreeSet<&'a str>,
        out: &mut Vec<(String, Vec<&'a Field>)>,
    ) -> Result<(), String> {
        for s in sels {
            match s {
                Selection::Field(f) => {
                    if !f.directives.is_empty() {
                        return Err("unsupported: directives in the query".into());
                    }
                    let key = f.response_key().to_string();
                    match out.iter_mut().find(|(k, _)| *k == key) {
                        Some((_, v)) => v.push(f),
                        None => out.push((key, vec![f])),
                    }
                }
                Selection::Inline(i) => {
                    if !i.directives.is_empty() {
                        return Err("unsupported: directives in the query".into());
                    }
                    if i.type_condition.as_deref().map(|t| t == type_name).unwrap_or(true) {
                        self.collect(type_name, &i.selection_set, visited, out)?;
                    }
                }
                Selection::Spread(sp) => {
                    if !sp.directives.is_empty() {
                        return Err("unsupported: directives in the query".into());
                    }
                    if !visited.insert(sp.name.as_str()) {
                        continue;
                    }
                    let def = self.frags.get(sp.name.as_str()).ok_or_else(|| format!("unknown fragment {}", sp.name))?;
                    if def.type_condition == type_name {
                        self.collect(type_name, &def.selection_set, visited, out)?;
                    }
                }
            }
        }
        Ok(())
    }

    fn exec_object(&self, o: &Obj<'a>, fields: &[&'a Field]) -> Result<J, String> {
        let tn = self.type_name(o);
        let mut groups: Vec<(String, Vec<&'a Field>)> = vec![];
        let mut visited = BTreeSet::new();
        for f in fields {
            self.collect(&tn, &f.selection_set, &mut visited, &mut groups)?;
        }
        self.exec_groups(o, &tn, groups)
    }

    fn exec_groups(&self, o: &Obj<'a>, tn: &str, groups: Vec<(String, Vec<&'a Field>)>) -> Result<J, String> {
        let mut m = Map::new();
        m.insert("$type".into(), J::String(tn.to_string()));
        m.insert("$builtin".into(), J::Bool(self.is_builtin_obj(o)));
        for (key, fs) in groups {
            let f = fs[0];
            let v = match self.resolve(o, f)? {
                Res::Absent => continue,
                Res::Leaf(j) => {
                    if !f.selection_set.is_empty() {
                        return Err(format!("selection set on leaf {}", f.name));
                    }
                    j
                }
                Res::Obj(None) => J::Null,
                Res::Obj(Some(x)) => self.exec_object(&x, &fs)?,
                Res::List(xs) => {
                    let mut a = vec![];
                    for x in xs {
                        a.push(self.exec_object(&x, &fs)?);
                    }
                    J::Array(a)
                }
            };
            m.insert(key, v);
        }
        Ok(J::Object(m))
    }

    /// Execute the (only or first) operation of the query document: the expected `data`.
    pub fn run(&self, op: &'a OperationDef) -> Result<J, String> {
        if op.op != OpType::Query || !op.vars.is_empty() || !op.directives.is_empty() {
            return Err("unsupported: only plain query operations".into());
        }
        let root = Obj::Root;
        let tn = self.type_name(&root);
        let mut groups = vec![];
        self.collect(&tn, &op.selection_set, &mut BTreeSet::new(), &mut groups)?;
        self.exec_groups(&root, &tn, groups)
    }

    fn resolve(&self, o: &Obj<'a>, f: &'a Field) -> Result<Res<'a>, String> {
        let s = self.s;
        let name = f.name.as_str();
        let unknown = || Err(format!("no field {} on {}", name, self.type_name(o)));
        Ok(match o {
            Obj::Root => match name {
                "__schema" => Res::Obj(Some(Obj::Schema)),
                "__type" => match f.args.iter().find(|(k, _)| k == "name") {
                    Some((_, Value::Str(x))) => match s.get(&x.value) {
                        // a built-in scalar that is not listed is not part of the schema
                        Some(t) if type_is_listed(s, t, &self.scalars) => Res::Obj(Some(Obj::Named(t))),
                        _ => Res::Obj(None),
                    },
                    _ => return Err("unsupported: __type without a string literal name".into()),
                },
                "__typename" => Res::Leaf(J::String(self.type_name(o))),
                _ => Res::Absent,
            },
            Obj::Schema => match name {
                "description" => Res::Leaf(description(&s.schema_description, false)),
                "types" => Res::List(s.types.iter().filter(|t| type_is_listed(s, t, &self.scalars)).map(Obj::Named).collect()),
                "queryType" => Res::Obj(Some(self.named(s.query.as_deref().ok_or("schema without a query root")?)?)),
                "mutationType" => Res::Obj(match &s.mutation {
                    Some(n) => Some(self.named(n)?),
                    None => None,
                }),
                "subscriptionType" => Res::Obj(match &s.subscription {
                    Some(n) => Some(self.named(n)?),
                    None => None,
                }),
                "directives" => Res::List(s.directives.values().map(|d| Obj::Directive(d, !s.user_directives.iter().any(|n| *n == d.name))).collect()),
                _ => return unknown(),
            },
            Obj::Named(t) => {
                let builtin = s.is_builtin_type(&t.name);
                match name {
                    "kind" => Res::Leaf(J::String(
                        match t.kind {
                            TypeKind::Scalar => "SCALAR",
                            TypeKind::Object => "OBJECT",
                            TypeKind::Interface => "INTERFACE",
                            TypeKind::Union => "UNION",
                            TypeKind::Enum => "ENUM",
                            TypeKind::InputObject => "INPUT_OBJECT",
                        }
                        .into(),
                    )),
                    "name" => Res::Leaf(J::String(t.name.clone())),
                    "description" => Res::Leaf(description(&t.description, builtin)),
                    "specifiedByURL" => Res::Leaf(match (t.kind, t.directives.iter().find(|d| d.name == "specifiedBy")) {
                        (TypeKind::Scalar, Some(d)) => match d.args.iter().find(|(k, _)| k == "url") {
                            Some((_, Value::Str(x))) => J::String(x.value.clone()),
                            other => return Err(format!("unsupported: @specifiedBy url {:?}", other)),
                        },
                        _ => J::Null,
                    }),
                    "fields" => {
                        if !matches!(t.kind, TypeKind::Object | TypeKind::Interface) {
                            return Ok(Res::Obj(None));
                        }
                        let inc = include_deprecated(f)?;
                        let mut v = vec![];
                        for fd in &t.fields {
                            if inc || deprecation(&fd.directives)?.is_none() {
                                v.push(Obj::Field(fd, builtin));
                            }
                        }
                        Res::List(v)
                    }
                    "interfaces" => {
                        if !matches!(t.kind, TypeKind::Object | TypeKind::Interface) {
                            return Ok(Res::Obj(None));
                        }
                        Res::List(t.implements.iter().map(|n| self.named(n)).collect::<Result<_, _>>()?)
                    }
                    "possibleTypes" => {
                        if !matches!(t.kind, TypeKind::Interface | TypeKind::Union) {
                            return Ok(Res::Obj(None));
                        }
                        Res::List(s.possible_types(&t.name).iter().map(|n| self.named(n)).collect::<Result<_, _>>()?)
                    }
                    "enumValues" => {
                        if t.kind != TypeKind::Enum {
                            return Ok(Res::Obj(None));
                        }
                        let inc = include_deprecated(f)?;
                        let mut v = vec![];
                        for ev in &t.values {
                            if inc || deprecation(&ev.directives)?.is_none() {
                                v.push(Obj::EnumValue(ev, builtin));
                            }
                        }
                        Res::List(v)
                    }
                    "inputFields" => {
                        if t.kind != TypeKind::InputObject {
                            return Ok(Res::Obj(None));
                        }
                        let inc = include_deprecated(f)?;
                        let mut v = vec![];
                        for iv in &t.input_fields {
                            if inc || deprecation(&iv.directives)?.is_none() {
                                v.push(Obj::Input(iv, builtin));
                            }
                        }
                        Res::List(v)
                    }
                    "ofType" => Res::Obj(None),
                    _ => return unknown(),
                }
            }
            Obj::Wrapper(t) => match name {
                "kind" => Res::Leaf(J::String(if t.is_non_null() { "NON_NULL" } else { "LIST" }.into())),
                "ofType" => Res::Obj(Some(match t {
                    Type::NonNull(inner) | Type::List(inner) => self.type_ref(inner)?,
                    Type::Named(_) => return Err("named type as wrapper".into()),
                })),
                "name" | "description" | "specifiedByURL" => Res::Leaf(J::Null),
                "fields" | "interfaces" | "possibleTypes" | "enumValues" | "inputFields" => Res::Obj(None),
                _ => return unknown(),
            },
            Obj::Field(fd, builtin) => match name {
                "name" => Res::Leaf(J::String(fd.name.clone())),
                "description" => Res::Leaf(description(&fd.description, *builtin)),
                "args" => {
                    let inc = include_deprecated(f)?;
                    let mut v = vec![];
                    for a in &fd.args {
                        if inc || deprecation(&a.directives)?.is_none() {
                            v.push(Obj::Input(a, *builtin));
                        }
                    }
                    Res::List(v)
                }
                "type" => Res::Obj(Some(self.type_ref(&fd.ty)?)),
                "isDeprecated" => Res::Leaf(J::Bool(deprecation(&fd.directives)?.is_some())),
                "deprecationReason" => Res::Leaf(deprecation(&fd.directives)?.map(J::String).unwrap_or(J::Null)),
                _ => return unknown(),
            },
            Obj::Input(iv, builtin) => match name {
                "name" => Res::Leaf(J::String(iv.name.clone())),
                "description" => Res::Leaf(description(&iv.description, *builtin)),
                "type" => Res::Obj(Some(self.type_ref(&iv.ty)?)),
                "defaultValue" => Res::Leaf(default_expectation(s, iv)),
                "isDeprecated" => Res::Leaf(J::Bool(deprecation(&iv.directives)?.is_some())),
                "deprecationReason" => Res::Leaf(deprecation(&iv.directives)?.map(J::String).unwrap_or(J::Null)),
                _ => return unknown(),
            },
            Obj::EnumValue(ev, builtin) => match name {
                "name" => Res::Leaf(J::String(ev.name.clone())),
                "description" => Res::Leaf(description(&ev.description, *builtin)),
                "isDeprecated" => Res::Leaf(J::Bool(deprecation(&ev.directives)?.is_some())),
                "deprecationReason" => Res::Leaf(deprecation(&ev.directives)?.map(J::String).unwrap_or(J::Null)),
                _ => return unknown(),
            },
            Obj::Directive(d, builtin) => match name {
                "name" => Res::Leaf(J::String(d.name.clone())),
                "description" => Res::Leaf(description(&d.description, *builtin)),
                "isRepeatable" => Res::Leaf(J::Bool(d.repeatable)),
                "locations" => Res::Leaf(J::Array(d.locations.iter().map(|l| J::String(l.clone())).collect())),
                "args" => {
                    let inc = include_deprecated(f)?;
                    let mut v = vec![];
                    for a in &d.args {
                        if inc || deprecation(&a.directives)?.is_none() {
                            v.push(Obj::Input(a, *builtin));
                        }
                    }
                    Res::List(v)
                }
                _ => return unknown(),
            },
        })
    }
}

/// Expected `data` (annotated, see the module documentation) of the first operation of `query`
/// executed against `schema` with only schema introspection enabled.
pub fn execute(schema: &RefSchema, query: &Document) -> Result<J, String> {
    let op = super::depth::first_operation(query).ok_or("no operation")?;
    Exec::new(schema, query).run(op)
}

// ------------------------------------------------------------------------------------------------
// Comparison

#[derive(Clone, Debug, PartialEq)]
pub struct Diff {
    /// root-cause kind, e.g. `diff|__Field.isDeprecated` or `errors|<message>`
    pub kind: String,
    pub detail: String,
}

fn short(j: &J) -> String {
    let s = j.to_string();
    if s.len() > 300 {
        let mut end = 300;
        while !s.is_char_boundary(end) {
            end -= 1;
        }
        format!("{}…", &s[..end])
    } else {
        s
    }
}

/// The expectation without `$type` / `$builtin` annotations (markers for descriptions and
/// value-compared defaults stay).
pub fn strip_annotations(j: &J) -> J {
    match j {
        J::Object(m) if m.contains_key("$any") || m.contains_key("$default") => j.clone(),
        J::Object(m) => J::Object(m.iter().filter(|(k, _)| !k.starts_with('$')).map(|(k, v)| (k.clone(), strip_annotations(v))).collect()),
        J::Array(a) => J::Array(a.iter().map(strip_annotations).collect()),
        other => other.clone(),
    }
}

struct Cmp<'a> {
    s: &'a RefSchema,
    diffs: Vec<Diff>,
}

fn name_of(j: &J) -> Option<&str> {
    match j {
        J::String(s) => Some(s),
        J::Object(m) => m.get("name").and_then(|n| n.as_str()),
        _ => None,
    }
}

impl Cmp<'_> {
    fn push(&mut self, kind: String, where_: &str, detail: String) {
        self.diffs.push(Diff { kind: format!("diff|{}", kind), detail: format!("at {}: {}", where_, detail) });
    }

    /// `ctx` = "<type of the containing object>.<field>" of this value, `at` = concrete path.
    fn value(&mut self, ctx: &str, at: &str, parent_builtin: bool, e: &J, a: &J) {
        match e {
            J::Object(m) if m.contains_key("$any") => {
                if !(a.is_string() || a.is_null()) {
                    self.push(ctx.to_string(), at, format!("expected a string or null, apollo has {}", short(a)));
                }
            }
            J::Object(m) if m.contains_key("$default") => self.default_value(ctx, at, &m["$default"], a),
            J::Object(m) => self.object(ctx, at, m, a),
            J::Array(items) => self.list(ctx, at, parent_builtin, items, a),
            leaf => {
                if leaf != a {
                    let sub = if ctx.ends_with(".defaultValue") { "|text" } else { "" };
                    self.push(format!("{}{}", ctx, sub), at, format!("expected {}, apollo has {}", short(leaf), short(a)));
                }
            }
        }
    }

    fn default_value(&mut self, ctx: &str, at: &str, spec: &J, a: &J) {
        let ty_text = spec["type"].as_str().unwrap_or("");
        let lit_text = spec["literal"].as_str().unwrap_or("");
        // a problem with the expectation itself is reported as `harness|...` (callers must not
        // treat it as a difference)
        let parsed = super::parser::parse_type_whole(ty_text).map_err(|e| e.code()).and_then(|ty| parse_const_value(lit_text).map(|lit| (ty, lit)));
        let (ty, lit) = match parsed {
            Ok(x) => x,
            Err(e) => {
                self.diffs.push(Diff { kind: "harness|expectation-unparseable".into(), detail: format!("{}: {} / {}", e, ty_text, lit_text) });
                return;
            }
        };
        let want = match coerce(self.s, &ty, &lit) {
            Ok(w) => w,
            Err(e) => {
                self.diffs.push(Diff { kind: "harness|reference-cannot-coerce".into(), detail: format!("{}: `{}` for type {}", e, lit_text, ty_text) });
                return;
            }
        };
        let J::String(text) = a else {
            self.push(format!("{}|value", ctx), at, format!("expected a literal equivalent to `{}` for type {}, apollo has {}", lit_text, ty_text, short(a)));
            return;
        };
        match parse_const_value(text) {
            Err(e) => self.push(format!("{}|unparseable", ctx), at, format!("apollo's defaultValue {:?} is not a GraphQL constant ({}); schema literal `{}`", text, e, lit_text)),
            Ok(v) => match coerce(self.s, &ty, &v) {
                Ok(got) if got == want => {}
                Ok(got) => self.push(
                    format!("{}|value", ctx),
                    at,
                    format!("apollo's defaultValue {:?} coerces (type {}) to {:?}; the schema's literal `{}` coerces to {:?}", text, ty_text, got, lit_text, want),
                ),
                Err(e) => self.push(format!("{}|value", ctx), at, format!("apollo's defaultValue {:?} does not coerce to type {} ({}); schema literal `{}`", text, ty_text, e, lit_text)),
            },
        }
    }

    fn object(&mut self, ctx: &str, at: &str, e: &Map<String, J>, a: &J) {
        let J::Object(am) = a else {
            self.push(format!("{}|not-an-object", ctx), at, format!("expected an object, apollo has {}", short(a)));
            return;
        };
        let tn = e.get("$type").and_then(|t| t.as_str()).unwrap_or("?");
        let builtin = e.get("$builtin").and_then(|b| b.as_bool()).unwrap_or(false);
        for k in am.keys() {
            if !e.contains_key(k) {
                self.push(format!("{}|unexpected-key", tn), at, format!("apollo's object has the key {:?} that the query does not produce", k));
            }
        }
        for (k, ev) in e {
            if k.starts_with('$') {
                continue;
            }
            let here = format!("{}.{}", at, k);
            match am.get(k) {
                None => self.push(format!("{}.{}|missing-key", tn, k), &here, "key absent from apollo's object".into()),
                Some(av) => self.value(&format!("{}.{}", tn, k), &here, builtin, ev, av),
            }
        }
    }

    fn list(&mut self, ctx: &str, at: &str, parent_builtin: bool, e: &[J], a: &J) {
        let J::Array(items) = a else {
            self.push(format!("{}|not-a-list", ctx), at, format!("expected a list of {}, apollo has {}", e.len(), short(a)));
            return;
        };
        let unordered = parent_builtin || matches!(ctx, "__Schema.types" | "__Schema.directives" | "__Type.possibleTypes");
        let en: Vec<Option<&str>> = e.iter().map(name_of).collect();
        let an: Vec<Option<&str>> = items.iter().map(name_of).collect();
        if en.iter().any(|n| n.is_none()) || an.iter().any(|n| n.is_none()) {
            // lists of unnamed things do not occur in introspection results; compare positionally
            if e.len() != items.len() {
                self.push(format!("{}|length", ctx), at, format!("expected {} items, apollo has {}", e.len(), items.len()));
            }
            for (i, (x, y)) in e.iter().zip(items.iter()).enumerate() {
                self.value(ctx, &format!("{}[{}]", at, i), false, x, y);
            }
            return;
        }
        let en: Vec<&str> = en.into_iter().flatten().collect();
        let an: Vec<&str> = an.into_iter().flatten().collect();
        let mut es = en.clone();
        es.sort();
        let mut as_ = an.clone();
        as_.sort();
        if as_.windows(2).any(|w| w[0] == w[1]) {
            self.push(format!("{}|duplicate", ctx), at, format!("apollo lists a name twice: {:?}", an));
        }
        if es != as_ {
            let missing: Vec<&&str> = es.iter().filter(|n| !as_.contains(n)).collect();
            let extra: Vec<&&str> = as_.iter().filter(|n| !es.contains(n)).collect();
            if !missing.is_empty() {
                let sub = self.membership_kind(ctx, &missing);
                self.push(format!("{}|missing{}", ctx, sub), at, format!("apollo's list lacks {:?} (expected {:?}, apollo {:?})", missing, en, an));
            }
            if !extra.is_empty() {
                let sub = self.membership_kind(ctx, &extra);
                self.push(format!("{}|extra{}", ctx, sub), at, format!("apollo's list has the additional {:?} (expected {:?}, apollo {:?})", extra, en, an));
            }
        } else if !unordered && en != an {
            self.push(format!("{}|order", ctx), at, format!("expected order {:?}, apollo has {:?}", en, an));
        }
        for (x, n) in e.iter().zip(en.iter()) {
            if let Some(i) = an.iter().position(|m| m == n) {
                if x.is_object() {
                    self.value(ctx, &format!("{}[{}]", at, n), false, x, &items[i]);
                }
            }
        }
    }

    /// For `__Schema.types` say whether the offending names are built-in scalars.
    fn membership_kind(&self, ctx: &str, names: &[&&str]) -> &'static str {
        if ctx != "__Schema.types" {
            return "";
        }
        if names.iter().all(|n| BUILTIN_SCALARS.contains(&**n) && self.s.is_builtin_type(n)) {
            "|built-in-scalar"
        } else {
            ""
        }
    }
}

/// Compare a serialised `ExecutionResponse` (`{"errors"?: [...], "data": {...}}`) with the
/// annotated expectation of `execute`.
pub fn compare(schema: &RefSchema, expected_data: &J, response: &J) -> Vec<Diff> {
    let mut c = Cmp { s: schema, diffs: vec![] };
    let J::Object(resp) = response else {
        c.diffs.push(Diff { kind: "response|not-an-object".into(), detail: short(response) });
        return c.diffs;
    };
    match resp.get("errors") {
        None => {}
        Some(J::Array(a)) if a.is_empty() => {}
        Some(errs) => {
            let msg = errs.get(0).and_then(|e| e.get("message")).and_then(|m| m.as_str()).unwrap_or("?");
            // keep the signature stable: letters only, no quoted names
            let norm: String = msg.split(['`', '"']).step_by(2).collect::<Vec<_>>().join("_");
            c.diffs.push(Diff { kind: format!("errors|{}", norm.trim()), detail: format!("the response has errors: {}", short(errs)) });
        }
    }
    for k in resp.keys() {
        if k != "errors" && k != "data" {
            c.diffs.push(Diff { kind: "response|unexpected-key".into(), detail: format!("response key {:?}", k) });
        }
    }
    match resp.get("data") {
        None => c.diffs.push(Diff { kind: "response|no-data".into(), detail: short(response) }),
        Some(data) => {
            let J::Object(e) = expected_data else { panic!("expectation is an object") };
            let J::Object(am) = data else {
                c.diffs.push(Diff { kind: "response|data-not-an-object".into(), detail: short(data) });
                return c.diffs;
            };
            for k in am.keys() {
                if !e.contains_key(k) {
                    c.diffs.push(Diff {
                        kind: "data|unexpected-root-field".into(),
                        detail: format!("data has the key {:?} (value {}) which partial execution must leave out", k, short(&am[k])),
                    });
                }
            }
            for (k, ev) in e {
                if k.starts_with('$') {
                    continue;
                }
                match am.get(k) {
                    None => c.diffs.push(Diff { kind: format!("data|missing-root-field|{}", if k.starts_with("__") { k.as_str() } else { "alias" }), detail: format!("data lacks the key {:?}", k) }),
                    Some(av) => {
                        let ctx = match ev {
                            J::Object(m) => m.get("$type").and_then(|t| t.as_str()).unwrap_or("?").to_string(),
                            _ => "data.__typename".to_string(),
                        };
                        // the object's own type is its context: `__Schema.description`, ...
                        match ev {
                            J::Object(m) if !m.contains_key("$any") && !m.contains_key("$default") => c.object(&ctx, k, m, av),
                            other => c.value(&ctx, k, false, other, av),
                        }
                    }
                }
            }
        }
    }
    c.diffs
}

#[cfg(test)]
mod tests {
    use super::super::parser::{parse_document, parse_type_whole};
    use super::*;

    fn schema(sdl: &str) -> RefSchema {
        RefSchema::from_document(&parse_document(sdl).unwrap())
    }
    fn run(sdl: &str, query: &str) -> J {
        let s = schema(sdl);
        let q = parse_document(query).unwrap();
        strip_annotations(&execute(&s, &q).unwrap())
    }
    fn find<'a>(list: &'a J, name: &str) -> &'a J {
        list.as_array().unwrap().iter().find(|x| x["name"] == name).unwrap_or_else(|| panic!("{name} not in {list}"))
    }

    const SDL: &str = r#"
        "The schema"
        schema { query: TheQuery }
        """
        Root query type
        """
        type TheQuery implements I {
            id: ID!
            ints: [[Int!]]! @deprecated(reason: "…")
            url(arg: In = { b: 4, a: 2 }, old: Int = 1 @deprecated): Url
            union: U @deprecated
        }
        interface I { id: ID! }
        input In { a: Int!, b: Int @deprecated }
        scalar Url @specifiedBy(url: "https://url.spec.whatwg.org/")
        union U = TheQuery | T
        type T implements I { id: ID! enum: E @deprecated }
        enum E { NEW OLD @deprecated(reason: "x") }
        directive @d(a: [Int!] = [1, 2], "arg" b: E = NEW) repeatable on FIELD | OBJECT
    "#;

    #[test]
    fn standard_query_parses_and_runs() {
        let q = parse_document(INTROSPECTION_QUERY).unwrap();
        let s = schema(SDL);
        let data = strip_annotations(&execute(&s, &q).unwrap());
        let sc = &data["__schema"];
        assert_eq!(sc["description"], "The schema");
        assert_eq!(sc["queryType"], json!({"name": "TheQuery"}));
        assert_eq!(sc["mutationType"], J::Null);
        assert_eq!(sc["subscriptionType"], J::Null);
        let names: BTreeSet<&str> = sc["types"].as_array().unwrap().iter().map(|t| t["name"].as_str().unwrap()).collect();
        let want: BTreeSet<&str> = [
            "TheQuery", "I", "In", "Url", "U", "T", "E", "ID", "Int", "String", "Boolean", "__Schema", "__Type", "__TypeKind", "__Field", "__InputValue", "__EnumValue", "__Directive", "__DirectiveLocation",
        ]
        .into_iter()
        .collect();
        assert_eq!(names, want); // Float is not referenced
        let q_ = find(&sc["types"], "TheQuery");
        assert_eq!(q_["kind"], "OBJECT");
        assert_eq!(q_["description"], "Root query type");
        assert_eq!(q_["interfaces"], json!([{"kind": "INTERFACE", "name": "I", "ofType": null}]));
        assert_eq!(q_["possibleTypes"], J::Null);
        assert_eq!(q_["inputFields"], J::Null);
        assert_eq!(q_["enumValues"], J::Null);
        let fields = q_["fields"].as_array().unwrap();
        assert_eq!(fields.iter().map(|f| f["name"].as_str().unwrap()).collect::<Vec<_>>(), ["id", "ints", "url", "union"]);
        assert_eq!(fields[0]["type"], json!({"kind": "NON_NULL", "name": null, "ofType": {"kind": "SCALAR", "name": "ID", "ofType": null}}));
        assert_eq!(
            fields[1]["type"],
            json!({"kind": "NON_NULL", "name": null, "ofType": {"kind": "LIST", "name": null, "ofType": {"kind": "LIST", "name": null, "ofType": {"kind": "NON_NULL", "name": null, "ofType": {"kind": "SCALAR", "name": "Int", "ofType": null}}}}})
        );
        assert_eq!(fields[1]["isDeprecated"], true);
        assert_eq!(fields[1]["deprecationReason"], "…");
        assert_eq!(fields[3]["deprecationReason"], DEFAULT_DEPRECATION_REASON);
        assert_eq!(fields[0]["isDeprecated"], false);
        assert_eq!(fields[0]["deprecationReason"], J::Null);
        let args = fields[2]["args"].as_array().unwrap();
        assert_eq!(args.len(), 2);
        // reordered object: only the value is asserted
        assert_eq!(args[0]["defaultValue"], json!({"$default": {"type": "In", "literal": "{b: 4 a: 2}"}}));
        assert_eq!(args[1]["defaultValue"], "1");
        assert_eq!(args[1]["isDeprecated"], true);
        let i = find(&sc["types"], "I");
        let pt: Vec<&str> = i["possibleTypes"].as_array().unwrap().iter().map(|t| t["name"].as_str().unwrap()).collect();
        assert_eq!(pt, ["TheQuery", "T"]);
        assert_eq!(i["interfaces"], json!([]));
        let u = find(&sc["types"], "U");
        assert_eq!(u["possibleTypes"].as_array().unwrap().len(), 2);
        assert_eq!(u["fields"], J::Null);
        assert_eq!(u["interfaces"], J::Null);
        let url = find(&sc["types"], "Url");
        assert_eq!(url["specifiedByURL"], "https://url.spec.whatwg.org/");
        assert_eq!(find(&sc["types"], "String")["specifiedByURL"], J::Null);
        let e = find(&sc["types"], "E");
        assert_eq!(e["enumValues"].as_array().unwrap().len(), 2);
        assert_eq!(e["enumValues"][1]["deprecationReason"], "x");
        let inp = find(&sc["types"], "In");
        assert_eq!(inp["inputFields"].as_array().unwrap().len(), 2);
        assert_eq!(inp["inputFields"][0]["defaultValue"], J::Null);
        let d = find(&sc["directives"], "d");
        assert_eq!(d["isRepeatable"], true);
        assert_eq!(d["locations"], json!(["FIELD", "OBJECT"]));
        assert_eq!(d["args"][0]["defaultValue"], "[1, 2]");
        assert_eq!(d["args"][1]["defaultValue"], "NEW");
        assert_eq!(d["args"][1]["description"], "arg");
        let dep = find(&sc["directives"], "deprecated");
        assert_eq!(dep["args"][0]["defaultValue"], "\"No longer supported\"");
        assert_eq!(dep["isRepeatable"], false);
        assert_eq!(sc["directives"].as_array().unwrap().len(), 5);
        // the introspection types describe themselves
        let ty = find(&sc["types"], "__Type");
        let f = find(&ty["fields"], "fields");
        assert_eq!(f["args"][0]["name"], "includeDeprecated");
        assert_eq!(f["args"][0]["defaultValue"], "false");
        assert_eq!(f["type"], json!({"kind": "LIST", "name": null, "ofType": {"kind": "NON_NULL", "name": null, "ofType": {"kind": "OBJECT", "name": "__Field", "ofType": null}}}));
    }

    #[test]
    fn include_deprecated_defaults_to_false() {
        let d = run(SDL, "{ __type(name: \"TheQuery\") { fields { name } all: fields(includeDeprecated: true) { name } } e: __type(name: \"E\") { enumValues { name } } i: __type(name: \"In\") { inputFields { name } } q: __type(name: \"TheQuery\") { fields(includeDeprecated: true) { name args { name } } } }");
        assert_eq!(d["__type"]["fields"], json!([{"name": "id"}, {"name": "url"}]));
        assert_eq!(d["__type"]["all"].as_array().unwrap().len(), 4);
        assert_eq!(d["e"]["enumValues"], json!([{"name": "NEW"}]));
        assert_eq!(d["i"]["inputFields"], json!([{"name": "a"}]));
        assert_eq!(d["q"]["fields"][2]["args"], json!([{"name": "arg"}]));
    }

    #[test]
    fn root_typename_and_concrete_fields() {
        let d = run(SDL, "{ __typename x: id ...F __schema { queryType { name } } } fragment F on TheQuery { url union { __typename } } fragment G on T { id }");
        assert_eq!(d, json!({"__typename": "TheQuery", "__schema": {"queryType": {"name": "TheQuery"}}}));
        let d = run(SDL, "{ a: __type(name: \"Nope\") { name } b: __type(name: \"Float\") { name } c: __type(name: \"Int\") { name kind } }");
        assert_eq!(d, json!({"a": null, "b": null, "c": {"name": "Int", "kind": "SCALAR"}}));
    }

    #[test]
    fn fields_merge_across_fragments() {
        let d = run(SDL, "{ __schema { queryType { name } ... on __Schema { queryType { kind } } ...S } } fragment S on __Schema { queryType { n: name } }");
        assert_eq!(d, json!({"__schema": {"queryType": {"name": "TheQuery", "kind": "OBJECT", "n": "TheQuery"}}}));
    }

    #[test]
    fn extensions_append_in_document_order() {
        let d = run(
            "extend type Query { c: Int } type Query implements A { a: Int } interface A { a: Int } interface B { b: Int } extend type Query implements B { b: Int }",
            "{ __type(name: \"Query\") { fields { name } interfaces { name } } }",
        );
        assert_eq!(d["__type"]["fields"], json!([{"name": "a"}, {"name": "c"}, {"name": "b"}]));
        assert_eq!(d["__type"]["interfaces"], json!([{"name": "A"}, {"name": "B"}]));
    }

    #[test]
    fn builtin_scalar_listing() {
        let names = |sdl: &str| -> Vec<String> { listed_builtin_scalars(&schema(sdl)).into_iter().collect() };
        assert_eq!(names("type Query { a: Url } scalar Url"), ["Boolean", "String"]);
        assert_eq!(names("type Query { a(x: [ID!]): Url } scalar Url"), ["Boolean", "ID", "String"]);
        assert_eq!(names("type Query { a: Url } scalar Url input I { f: Float = 1 }"), ["Boolean", "Float", "String"]);
        assert_eq!(names("type Query { a: Url } scalar Url directive @d(i: Int) on FIELD"), ["Boolean", "Int", "String"]);
        // a default value or a directive application is not a reference
        assert_eq!(names("type Query { a(u: Url = 1): Url @d } scalar Url directive @d(u: Url = 1.5) on FIELD_DEFINITION"), ["Boolean", "String"]);
    }

    #[test]
    fn default_texts_that_are_certain() {
        let s = schema("type Query { a: Int } enum E { A B } input In { x: Int, y: [E!] = [A], z: String } input Req { r: Int!, o: Boolean } scalar Any");
        let t = |ty: &str, lit: &str| certain_default_text(&s, &parse_type_whole(ty).unwrap(), &parse_const_value(lit).unwrap());
        assert_eq!(t("Int", "42").as_deref(), Some("42"));
        assert_eq!(t("Int!", "-7").as_deref(), Some("-7"));
        assert_eq!(t("Int", "-0"), None);
        assert_eq!(t("Int", "null").as_deref(), Some("null"));
        assert_eq!(t("Float", "3").as_deref(), Some("3"));
        assert_eq!(t("Float", "3.0"), None);
        assert_eq!(t("Float", "1.5").as_deref(), Some("1.5"));
        assert_eq!(t("Float", "-2.25").as_deref(), Some("-2.25"));
        assert_eq!(t("Float", "0.5").as_deref(), Some("0.5"));
        assert_eq!(t("Float", "0.0"), None);
        assert_eq!(t("Float", "1.50"), None);
        assert_eq!(t("Float", "0.0000001"), None);
        assert_eq!(t("Float", "6.02E23"), None);
        assert_eq!(t("Int", "1.5"), None);
        assert_eq!(t("Float", "1e3"), None);
        assert_eq!(t("Boolean", "true").as_deref(), Some("true"));
        assert_eq!(t("String", "\"hello world\"").as_deref(), Some("\"hello world\""));
        assert_eq!(t("String", "\"\"").as_deref(), Some("\"\""));
        assert_eq!(t("String", "\"é\""), None);
        assert_eq!(t("String", "\"a\\\"b\""), None);
        assert_eq!(t("String", "\"\\u0041\""), None);
        assert_eq!(t("String", "\"\"\"abc\"\"\""), None);
        assert_eq!(t("ID", "\"7\""), None);
        assert_eq!(t("ID", "7"), None);
        assert_eq!(t("E", "B").as_deref(), Some("B"));
        assert_eq!(t("[Int]", "[1 2,3]").as_deref(), Some("[1, 2, 3]"));
        assert_eq!(t("[Int]", "[]").as_deref(), Some("[]"));
        assert_eq!(t("[Int]", "[1, null]").as_deref(), Some("[1, null]"));
        assert_eq!(t("[Int]", "1"), None);
        assert_eq!(t("[[Int]]", "[[1], [2, 3]]").as_deref(), Some("[[1], [2, 3]]"));
        assert_eq!(t("[[Int]]", "[1]"), None);
        assert_eq!(t("Any", "\"custom\""), None);
        assert_eq!(t("Req", "{r: 1, o: true}").as_deref(), Some("{r: 1, o: true}"));
        assert_eq!(t("Req", "{r: 1}").as_deref(), Some("{r: 1}"));
        assert_eq!(t("Req", "{o: true, r: 1}"), None);
        assert_eq!(t("In", "{x: 1, y: [B], z: \"s\"}").as_deref(), Some("{x: 1, y: [B], z: \"s\"}"));
        assert_eq!(t("In", "{x: 1, z: \"s\"}"), None); // y has a default that graphql-js fills in
        assert_eq!(t("In", "{x: 1, y: B}"), None);
        assert_eq!(t("[Req]", "[{r: 1}]").as_deref(), Some("[{r: 1}]"));
    }

    #[test]
    fn coercion() {
        let s = schema("type Query { a: Int } enum E { A B } input In { x: Int = 5, y: [E!], z: Float } scalar Any");
        let c = |ty: &str, lit: &str| coerce(&s, &parse_type_whole(ty).unwrap(), &parse_const_value(lit).unwrap());
        assert_eq!(c("Float", "1.0"), c("Float", "1"));
        assert_eq!(c("Float", "1e3"), c("Float", "1000"));
        assert_eq!(c("Float", "6.02E23"), c("Float", "6.02e+23"));
        assert_ne!(c("Float", "1.5"), c("Float", "1"));
        assert_eq!(c("[Int]", "1"), c("[Int]", "[1]"));
        assert_eq!(c("[[Int]]", "1"), c("[[Int]]", "[[1]]"));
        assert_eq!(c("[Int]", "null"), Ok(CV::Null));
        assert_ne!(c("[Int]", "[null]"), c("[Int]", "null"));
        assert_eq!(c("ID", "\"7\""), c("ID", "7"));
        assert_ne!(c("ID", "\"07\""), c("ID", "7"));
        assert_eq!(c("In", "{y: A}"), c("In", "{x: 5, y: [A]}"));
        assert_eq!(c("In", "{z: 2, x: 1}"), c("In", "{x: 1, z: 2.0}"));
        assert_ne!(c("In", "{x: null}"), c("In", "{}"));
        assert_eq!(c("String", "\"\\u00e9\""), c("String", "\"é\""));
        assert_eq!(c("String", "\"\"\"a\"\"\""), c("String", "\"a\""));
        assert_eq!(c("Any", "{k: [1]}"), c("Any", "{ k: [1.0] }"));
        assert_ne!(c("Any", "{k: [1]}"), c("Any", "{k: 1}"));
        assert!(c("Int", "\"1\"").is_err());
        assert!(c("Int!", "null").is_err());
        assert!(c("E", "C").is_err());
        assert!(c("In", "{q: 1}").is_err());
        assert!(parse_const_value("1 2").is_err());
        assert!(parse_const_value("$v").is_err());
    }

    fn resp(data: J) -> J {
        json!({ "data": data })
    }

    #[test]
    fn compare_accepts_itself_and_exempt_differences() {
        let s = schema(SDL);
        let q = parse_document(INTROSPECTION_QUERY).unwrap();
        let e = execute(&s, &q).unwrap();
        // turn the expectation into a concrete response
        fn concretise(j: &J) -> J {
            match j {
                J::Object(m) if m.contains_key("$any") => J::String("some text".into()),
                J::Object(m) if m.contains_key("$default") => m["$default"]["literal"].clone(),
                J::Object(m) => J::Object(m.iter().filter(|(k, _)| !k.starts_with('$')).map(|(k, v)| (k.clone(), concretise(v))).collect()),
                J::Array(a) => J::Array(a.iter().map(concretise).collect()),
                o => o.clone(),
            }
        }
        let mut a = concretise(&e);
        assert_eq!(compare(&s, &e, &resp(a.clone())), vec![]);
        // exempt: order of types, directives, possibleTypes, members of built-ins
        a["__schema"]["types"].as_array_mut().unwrap().reverse();
        a["__schema"]["directives"].as_array_mut().unwrap().reverse();
        for t in a["__schema"]["types"].as_array_mut().unwrap() {
            if let Some(p) = t["possibleTypes"].as_array_mut() {
                p.reverse();
            }
            if t["name"].as_str().unwrap().starts_with("__") {
                if let Some(p) = t["fields"].as_array_mut() {
                    p.reverse();
                }
                if let Some(p) = t["enumValues"].as_array_mut() {
                    p.reverse();
                }
            }
        }
        assert_eq!(compare(&s, &e, &resp(a.clone())), vec![]);
        // equivalent default text
        let kinds = |a: &J| -> Vec<String> { compare(&s, &e, &resp(a.clone())).into_iter().map(|d| d.kind).collect() };
        let idx = |a: &J, n: &str| a["__schema"]["types"].as_array().unwrap().iter().position(|t| t["name"] == n).unwrap();
        let qi = idx(&a, "TheQuery");
        let mut b = a.clone();
        b["__schema"]["types"][qi]["fields"][2]["args"][0]["defaultValue"] = json!("{a: 2, b: 4}");
        assert_eq!(kinds(&b), Vec::<String>::new());
        b["__schema"]["types"][qi]["fields"][2]["args"][0]["defaultValue"] = json!("{a: 2, b: 5}");
        assert_eq!(kinds(&b), ["diff|__InputValue.defaultValue|value"]);
        b["__schema"]["types"][qi]["fields"][2]["args"][0]["defaultValue"] = json!("{a: 2, b: ");
        assert_eq!(kinds(&b), ["diff|__InputValue.defaultValue|unparseable"]);
        // not exempt
        let mut b = a.clone();
        b["__schema"]["types"][qi]["fields"].as_array_mut().unwrap().swap(0, 1);
        assert_eq!(kinds(&b), ["diff|__Type.fields|order"]);
        let mut b = a.clone();
        b["__schema"]["types"][qi]["fields"].as_array_mut().unwrap().remove(1);
        assert_eq!(kinds(&b), ["diff|__Type.fields|missing"]);
        let mut b = a.clone();
        b["__schema"]["types"][qi]["fields"][1]["isDeprecated"] = json!(false);
        assert_eq!(kinds(&b), ["diff|__Field.isDeprecated"]);
        let mut b = a.clone();
        b["__schema"]["types"][qi]["fields"][0]["type"]["ofType"]["kind"] = json!("OBJECT");
        assert_eq!(kinds(&b), ["diff|__Type.kind"]);
        let mut b = a.clone();
        b["__schema"]["types"][qi]["fields"][2]["args"][1]["defaultValue"] = json!("1.0");
        assert_eq!(kinds(&b), ["diff|__InputValue.defaultValue|text"]);
        let mut b = a.clone();
        b["__schema"]["types"][qi]["interfaces"] = J::Null;
        assert_eq!(kinds(&b), ["diff|__Type.interfaces|not-a-list"]);
        let mut b = a.clone();
        b["__schema"]["description"] = J::Null;
        assert_eq!(kinds(&b), ["diff|__Schema.description"]);
        let mut b = a.clone();
        let fi = idx(&b, "Int");
        b["__schema"]["types"].as_array_mut().unwrap().remove(fi);
        assert_eq!(kinds(&b), ["diff|__Schema.types|missing|built-in-scalar"]);
        let mut b = a.clone();
        b["__schema"]["types"].as_array_mut().unwrap().push(json!({"name": "Float"}));
        assert_eq!(kinds(&b), ["diff|__Schema.types|extra|built-in-scalar"]);
        let mut b = a.clone();
        b["x"] = json!(1);
        assert_eq!(kinds(&b), ["data|unexpected-root-field"]);
        let r = json!({"errors": [{"message": "boom `x` happened"}], "data": a});
        assert_eq!(compare(&s, &e, &r)[0].kind, "errors|boom _ happened");
    }
}
