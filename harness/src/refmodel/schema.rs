//! Reference schema view: a type-system `Document` with extensions merged, built-ins added, and
//! the lookups / type relations of the spec (sections 3 and 5). Independent of apollo.

use super::ast::*;
use super::parser::parse_document;
use std::collections::BTreeMap;
use std::sync::OnceLock;

pub const BUILTIN_SCALARS: [&str; 5] = ["Int", "Float", "String", "Boolean", "ID"];

/// Built-in directives and the introspection types, as in the October 2021 spec
/// (sections 3.13 and 4.2).
pub const BUILTIN_SDL: &str = r#"
directive @skip(if: Boolean!) on FIELD | FRAGMENT_SPREAD | INLINE_FRAGMENT
directive @include(if: Boolean!) on FIELD | FRAGMENT_SPREAD | INLINE_FRAGMENT
directive @deprecated(reason: String = "No longer supported") on FIELD_DEFINITION | ARGUMENT_DEFINITION | INPUT_FIELD_DEFINITION | ENUM_VALUE
directive @specifiedBy(url: String!) on SCALAR
type __Schema {
  description: String
  types: [__Type!]!
  queryType: __Type!
  mutationType: __Type
  subscriptionType: __Type
  directives: [__Directive!]!
}
type __Type {
  kind: __TypeKind!
  name: String
  description: String
  fields(includeDeprecated: Boolean = false): [__Field!]
  interfaces: [__Type!]
  possibleTypes: [__Type!]
  enumValues(includeDeprecated: Boolean = false): [__EnumValue!]
  inputFields(includeDeprecated: Boolean = false): [__InputValue!]
  ofType: __Type
  specifiedByURL: String
}
enum __TypeKind { SCALAR OBJECT INTERFACE UNION ENUM INPUT_OBJECT LIST NON_NULL }
type __Field {
  name: String!
  description: String
  args(includeDeprecated: Boolean = false): [__InputValue!]!
  type: __Type!
  isDeprecated: Boolean!
  deprecationReason: String
}
type __InputValue {
  name: String!
  description: String
  type: __Type!
  defaultValue: String
  isDeprecated: Boolean!
  deprecationReason: String
}
type __EnumValue {
  name: String!
  description: String
  isDeprecated: Boolean!
  deprecationReason: String
}
type __Directive {
  name: String!
  description: String
  locations: [__DirectiveLocation!]!
  args(includeDeprecated: Boolean = false): [__InputValue!]!
  isRepeatable: Boolean!
}
enum __DirectiveLocation {
  QUERY MUTATION SUBSCRIPTION FIELD FRAGMENT_DEFINITION FRAGMENT_SPREAD INLINE_FRAGMENT VARIABLE_DEFINITION
  SCHEMA SCALAR OBJECT FIELD_DEFINITION ARGUMENT_DEFINITION INTERFACE UNION ENUM ENUM_VALUE INPUT_OBJECT INPUT_FIELD_DEFINITION
}
"#;

pub fn builtin_document() -> &'static Document {
    static D: OnceLock<Document> = OnceLock::new();
    D.get_or_init(|| parse_document(BUILTIN_SDL).expect("built-in SDL parses"))
}

#[derive(Clone, Debug)]
pub struct RefSchema {
    /// user types in definition order (extensions merged into their definition), then built-ins
    pub types: Vec<TypeDef>,
    pub index: BTreeMap<String, usize>,
    pub directives: BTreeMap<String, DirectiveDef>,
    pub query: Option<String>,
    pub mutation: Option<String>,
    pub subscription: Option<String>,
    pub schema_description: Option<StrLit>,
    pub schema_directives: Vec<Directive>,
    pub explicit_schema: bool,
    /// names of user-defined types and directives (everything else is built in)
    pub user_types: Vec<String>,
    pub user_directives: Vec<String>,
}

impl RefSchema {
    /// Lenient merge: the first definition of a name wins, extensions are appended in document
    /// order (wherever they are placed). Validation of duplicates etc. is typesys's job.
    pub fn from_document(doc: &Document) -> RefSchema {
        let mut s = RefSchema {
            types: vec![],
            index: BTreeMap::new(),
            directives: BTreeMap::new(),
            query: None,
            mutation: None,
            subscription: None,
            schema_description: None,
            schema_directives: vec![],
            explicit_schema: false,
            user_types: vec![],
            user_directives: vec![],
        };
        for d in &doc.defs {
            match d {
                Definition::Type(t) if !t.is_ext => {
                    if !s.index.contains_key(&t.name) {
                        s.index.insert(t.name.clone(), s.types.len());
                        s.types.push(t.clone());
                        s.user_types.push(t.name.clone());
                    }
                }
                Definition::Directive(dd) => {
                    if !s.directives.contains_key(&dd.name) {
                        s.directives.insert(dd.name.clone(), dd.clone());
                        s.user_directives.push(dd.name.clone());
                    }
                }
                _ => {}
            }
        }
        for d in &doc.defs {
            if let Definition::Type(t) = d {
                if t.is_ext {
                    if let Some(&i) = s.index.get(&t.name) {
                        let base = &mut s.types[i];
                        if base.kind == t.kind {
                            base.implements.extend(t.implements.iter().cloned());
                            base.directives.extend(t.directives.iter().cloned());
                            base.fields.extend(t.fields.iter().cloned());
                            base.members.extend(t.members.iter().cloned());
                            base.values.extend(t.values.iter().cloned());
                            base.input_fields.extend(t.input_fields.iter().cloned());
                        }
                    }
                }
            }
        }
        let mut roots: Vec<(OpType, String)> = vec![];
        for d in &doc.defs {
            if let Definition::Schema(sd) = d {
                if !sd.is_ext {
                    s.explicit_schema = true;
                    s.schema_description = sd.description.clone();
                }
                s.schema_directives.extend(sd.directives.iter().cloned());
                roots.extend(sd.roots.iter().cloned());
            }
        }
        let has_root_defs = !roots.is_empty() || s.explicit_schema;
        if has_root_defs {
            for (op, n) in roots {
                let slot = match op {
                    OpType::Query => &mut s.query,
                    OpType::Mutation => &mut s.mutation,
                    OpType::Subscription => &mut s.subscription,
                };
                if slot.is_none() {
                    *slot = Some(n);
                }
            }
        } else {
            for op in OpType::ALL {
                let n = op.default_root();
                if s.index.get(n).map(|&i| s.types[i].kind == TypeKind::Object).unwrap_or(false) {
                    match op {
                        OpType::Query => s.query = Some(n.into()),
                        OpType::Mutation => s.mutation = Some(n.into()),
                        OpType::Subscription => s.subscription = Some(n.into()),
                    }
                }
            }
        }
        // built-ins
        for n in BUILTIN_SCALARS {
            if !s.index.contains_key(n) {
                s.index.insert(n.to_string(), s.types.len());
                s.types.push(TypeDef::new(TypeKind::Scalar, n));
            }
        }
        for d in &builtin_document().defs {
            match d {
                Definition::Type(t) => {
                    if !s.index.contains_key(&t.name) {
                        s.index.insert(t.name.clone(), s.types.len());
                        s.types.push(t.clone());
                    }
                }
                Definition::Directive(dd) => {
                    if !s.directives.contains_key(&dd.name) {
                        s.directives.insert(dd.name.clone(), dd.clone());
                    }
                }
                _ => {}
            }
        }
        s
    }

    pub fn get(&self, name: &str) -> Option<&TypeDef> {
        self.index.get(name).map(|&i| &self.types[i])
    }
    pub fn kind(&self, name: &str) -> Option<TypeKind> {
        self.get(name).map(|t| t.kind)
    }
    pub fn root(&self, op: OpType) -> Option<&str> {
        match op {
            OpType::Query => self.query.as_deref(),
            OpType::Mutation => self.mutation.as_deref(),
            OpType::Subscription => self.subscription.as_deref(),
        }
    }
    pub fn is_builtin_type(&self, name: &str) -> bool {
        !self.user_types.iter().any(|n| n == name)
    }

    pub fn is_input_named(&self, name: &str) -> bool {
        matches!(self.kind(name), Some(TypeKind::Scalar | TypeKind::Enum | TypeKind::InputObject))
    }
    pub fn is_output_named(&self, name: &str) -> bool {
        matches!(self.kind(name), Some(TypeKind::Scalar | TypeKind::Enum | TypeKind::Object | TypeKind::Interface | TypeKind::Union))
    }
    pub fn is_composite(&self, name: &str) -> bool {
        matches!(self.kind(name), Some(TypeKind::Object | TypeKind::Interface | TypeKind::Union))
    }
    pub fn is_leaf(&self, name: &str) -> bool {
        matches!(self.kind(name), Some(TypeKind::Scalar | TypeKind::Enum))
    }
    pub fn is_abstract(&self, name: &str) -> bool {
        matches!(self.kind(name), Some(TypeKind::Interface | TypeKind::Union))
    }

    /// Field definition of `name` on composite type `parent`, meta-fields included
    /// (`__typename` everywhere; `__schema`/`__type` on the query root).
    pub fn field(&self, parent: &str, name: &str) -> Option<FieldDef> {
        let t = self.get(parent)?;
        if name == "__typename" && self.is_composite(parent) {
            return Some(FieldDef { description: None, name: name.into(), args: vec![], ty: Type::named("String").non_null(), directives: vec![] });
        }
        if self.query.as_deref() == Some(parent) {
            if name == "__schema" {
                return Some(FieldDef { description: None, name: name.into(), args: vec![], ty: Type::named("__Schema").non_null(), directives: vec![] });
            }
            if name == "__type" {
                return Some(FieldDef {
                    description: None,
                    name: name.into(),
                    args: vec![InputValueDef { description: None, name: "name".into(), ty: Type::named("String").non_null(), default: None, directives: vec![] }],
                    ty: Type::named("__Type"),
                    directives: vec![],
                });
            }
        }
        t.fields.iter().find(|f| f.name == name).cloned()
    }

    /// GetPossibleTypes: objects for an object (itself), implementing objects for an interface,
    /// members for a union. In definition order.
    pub fn possible_types(&self, name: &str) -> Vec<String> {
        match self.kind(name) {
            Some(TypeKind::Object) => vec![name.to_string()],
            Some(TypeKind::Interface) => self
                .types
                .iter()
                .filter(|t| t.kind == TypeKind::Object && t.implements.iter().any(|i| i == name))
                .map(|t| t.name.clone())
                .collect(),
            Some(TypeKind::Union) => self.get(name).unwrap().members.clone(),
            _ => vec![],
        }
    }

    /// Is named type `sub` a subtype of (or equal to) named type `sup`?
    pub fn is_named_subtype(&self, sup: &str, sub: &str) -> bool {
        if sup == sub {
            return true;
        }
        match self.kind(sup) {
            Some(TypeKind::Interface) => self.get(sub).map(|t| matches!(t.kind, TypeKind::Object | TypeKind::Interface) && t.implements.iter().any(|i| i == sup)).unwrap_or(false),
            Some(TypeKind::Union) => self.get(sup).unwrap().members.iter().any(|m| m == sub),
            _ => false,
        }
    }

    pub fn directive(&self, name: &str) -> Option<&DirectiveDef> {
        self.directives.get(name)
    }

    pub fn enum_has(&self, en: &str, value: &str) -> bool {
        self.get(en).map(|t| t.kind == TypeKind::Enum && t.values.iter().any(|v| v.name == value)).unwrap_or(false)
    }
}

/// AreTypesCompatible(variableType, locationType) (spec 5.8.5)
pub fn are_types_compatible(var: &Type, loc: &Type) -> bool {
    match (loc, var) {
        (Type::NonNull(l), Type::NonNull(v)) => are_types_compatible(v, l),
        (Type::NonNull(_), _) => false,
        (l, Type::NonNull(v)) => are_types_compatible(v, l),
        (Type::List(l), Type::List(v)) => are_types_compatible(v, l),
        (Type::List(_), _) | (_, Type::List(_)) => false,
        (Type::Named(l), Type::Named(v)) => l == v,
    }
}

/// IsVariableUsageAllowed(variableDefinition, variableUsage) (spec 5.8.5), with the explicit
/// default-value clauses: a `null` default does not count as a non-null default.
pub fn is_variable_usage_allowed(var_ty: &Type, var_default: Option<&Value>, loc_ty: &Type, loc_has_default: bool) -> bool {
    if let (Type::NonNull(loc_inner), false) = (loc_ty, var_ty.is_non_null()) {
        let has_non_null_var_default = matches!(var_default, Some(v) if *v != Value::Null);
        if !has_non_null_var_default && !loc_has_default {
            return false;
        }
        return are_types_compatible(var_ty, loc_inner);
    }
    are_types_compatible(var_ty, loc_ty)
}

/// IsValidImplementationFieldType(fieldType, implementedFieldType) (spec 3.6 / 3.7)
pub fn is_valid_implementation_field_type(s: &RefSchema, field: &Type, implemented: &Type) -> bool {
    match (field, implemented) {
        (Type::NonNull(f), Type::NonNull(i)) => is_valid_implementation_field_type(s, f, i),
        (Type::NonNull(f), i) => is_valid_implementation_field_type(s, f, i),
        (_, Type::NonNull(_)) => false,
        (Type::List(f), Type::List(i)) => is_valid_implementation_field_type(s, f, i),
        (Type::List(_), _) | (_, Type::List(_)) => false,
        (Type::Named(f), Type::Named(i)) => s.is_named_subtype(i, f),
    }
}

#[cfg(test)]
mod tests {
    use super::*;
    #[test]
    fn basics() {
        let d = parse_document("type Query { a: I } interface I { x: Int } type A implements I { x: Int } union U = A extend type Query { b: U }").unwrap();
        let s = RefSchema::from_document(&d);
        assert_eq!(s.query.as_deref(), Some("Query"));
        assert_eq!(s.get("Query").unwrap().fields.len(), 2);
        assert_eq!(s.possible_types("I"), vec!["A"]);
        assert!(s.is_named_subtype("U", "A"));
        assert!(s.field("Query", "__schema").is_some());
        assert!(s.field("A", "__schema").is_none());
        assert!(s.get("__Type").is_some());
        assert!(s.directive("skip").is_some());
        let t = |x: &str| super::super::parser::parse_type_whole(x).unwrap();
        assert!(are_types_compatible(&t("Int!"), &t("Int")));
        assert!(!are_types_compatible(&t("Int"), &t("Int!")));
        assert!(are_types_compatible(&t("[Int!]!"), &t("[Int]")));
        assert!(!are_types_compatible(&t("[Int]"), &t("[Int!]")));
        assert!(is_variable_usage_allowed(&t("Int"), Some(&Value::int(1)), &t("Int!"), false));
        assert!(!is_variable_usage_allowed(&t("Int"), Some(&Value::Null), &t("Int!"), false));
        assert!(is_variable_usage_allowed(&t("Int"), None, &t("Int!"), true));
        assert!(is_valid_implementation_field_type(&s, &t("[A!]!"), &t("[I]")));
        assert!(!is_valid_implementation_field_type(&s, &t("[I]"), &t("[A]")));
    }
}
