//! Independent reference models, written from the October 2021 specification.
//! Nothing in here calls apollo code.
pub mod ast;
pub mod lexer;
pub mod parser;
pub mod printer;
pub mod strings;
pub mod schema;
pub mod linecol;
pub mod coerce;
pub mod typesys;
pub mod depth;
pub mod introspect;
pub mod execvalid;
pub mod order;
pub mod executor;
