//! Reference lexer: a direct transcription of the October 2021 lexical grammar
//! (spec section 2.1, Appendix B "Lexical Tokens" and "Ignored Tokens").
//! Written for this harness; shares no code with apollo-parser.
//!
//! Token ::= Punctuator | Name | IntValue | FloatValue | StringValue
//! Ignored ::= UnicodeBOM | WhiteSpace | LineTerminator | Comment | Comma
//!
//! As apollo-parser's `TokenKind::Whitespace` documents, runs of WhiteSpace, LineTerminator and
//! UnicodeBOM are reported as ONE `Whitespace` token; `Comma` and `Comment` are their own tokens.

#[derive(Clone, Copy, Debug, PartialEq, Eq, Hash)]
pub enum K {
    Whitespace,
    Comment,
    Comma,
    Bang,
    Dollar,
    Amp,
    Spread,
    Colon,
    Eq,
    At,
    LParen,
    RParen,
    LBracket,
    RBracket,
    LCurly,
    RCurly,
    Pipe,
    Name,
    Int,
    Float,
    Str,
    BlockStr,
    Eof,
}

impl K {
    pub fn is_ignored(self) -> bool {
        matches!(self, K::Whitespace | K::Comment | K::Comma)
    }
}

#[derive(Clone, Debug, PartialEq, Eq)]
pub struct Tok {
    pub kind: K,
    pub start: usize,
    pub end: usize,
}

impl Tok {
    pub fn text<'a>(&self, src: &'a str) -> &'a str {
        &src[self.start..self.end]
    }
}

pub fn is_name_start(c: char) -> bool {
    c == '_' || c.is_ascii_alphabetic()
}
pub fn is_name_continue(c: char) -> bool {
    c == '_' || c.is_ascii_alphanumeric()
}
fn is_ws_run(c: char) -> bool {
    matches!(c, '\t' | ' ' | '\n' | '\r' | '\u{FEFF}')
}
fn is_line_terminator(c: char) -> bool {
    c == '\n' || c == '\r'
}

/// Lex one token starting at byte offset `at` (must be a char boundary, `at < src.len()`).
/// `Err(reason)` when no lexical token of the grammar starts here.
pub fn lex_at(src: &str, at: usize) -> Result<Tok, &'static str> {
    let s = &src[at..];
    let mut it = s.char_indices().peekable();
    let (_, c) = it.next().ok_or("eof")?;
    let tok = |kind: K, len: usize| Ok(Tok { kind, start: at, end: at + len });
    let p = |k: K| tok(k, 1);
    match c {
        '!' => return p(K::Bang),
        '$' => return p(K::Dollar),
        '&' => return p(K::Amp),
        '(' => return p(K::LParen),
        ')' => return p(K::RParen),
        ':' => return p(K::Colon),
        '=' => return p(K::Eq),
        '@' => return p(K::At),
        '[' => return p(K::LBracket),
        ']' => return p(K::RBracket),
        '{' => return p(K::LCurly),
        '}' => return p(K::RCurly),
        '|' => return p(K::Pipe),
        ',' => return p(K::Comma),
        '.' => {
            return if s.starts_with("...") { tok(K::Spread, 3) } else { Err("lone dot") };
        }
        '#' => {
            let len = s.find(is_line_terminator).unwrap_or(s.len());
            return tok(K::Comment, len);
        }
        _ => {}
    }
    if is_ws_run(c) {
        let len = s.find(|c: char| !is_ws_run(c)).unwrap_or(s.len());
        return tok(K::Whitespace, len);
    }
    if is_name_start(c) {
        let len = s.find(|c: char| !is_name_continue(c)).unwrap_or(s.len());
        return tok(K::Name, len);
    }
    if c == '-' || c.is_ascii_digit() {
        return lex_number(s).map(|(k, len)| Tok { kind: k, start: at, end: at + len });
    }
    if c == '"' {
        return lex_string(s).map(|(k, len)| Tok { kind: k, start: at, end: at + len });
    }
    Err("unexpected character")
}

/// IntValue / FloatValue with the lookahead restrictions.
fn lex_number(s: &str) -> Result<(K, usize), &'static str> {
    let b = s.as_bytes();
    let mut i = 0;
    if b.get(i) == Some(&b'-') {
        i += 1;
    }
    // IntegerPart :: NegativeSign? 0 | NegativeSign? NonZeroDigit Digit*
    match b.get(i) {
        Some(b'0') => {
            i += 1;
        }
        Some(d) if d.is_ascii_digit() => {
            while b.get(i).map(|d| d.is_ascii_digit()).unwrap_or(false) {
                i += 1;
            }
        }
        _ => return Err("minus without digit"),
    }
    let mut float = false;
    // FractionalPart :: . Digit+
    if b.get(i) == Some(&b'.') {
        if b.get(i + 1).map(|d| d.is_ascii_digit()).unwrap_or(false) {
            float = true;
            i += 1;
            while b.get(i).map(|d| d.is_ascii_digit()).unwrap_or(false) {
                i += 1;
            }
        } else {
            // IntValue must not be followed by `.`, and `1.` is no FloatValue
            return Err("dot without fractional digit");
        }
    }
    // ExponentPart :: ExponentIndicator Sign? Digit+
    if matches!(b.get(i), Some(b'e') | Some(b'E')) {
        let mut j = i + 1;
        if matches!(b.get(j), Some(b'+') | Some(b'-')) {
            j += 1;
        }
        if b.get(j).map(|d| d.is_ascii_digit()).unwrap_or(false) {
            while b.get(j).map(|d| d.is_ascii_digit()).unwrap_or(false) {
                j += 1;
            }
            float = true;
            i = j;
        } else {
            // `e` is a NameStart: the number may not be followed by it
            return Err("exponent without digit");
        }
    }
    // lookahead: not Digit, `.`, NameStart
    if let Some(&n) = b.get(i) {
        if n.is_ascii_digit() || n == b'.' || n == b'_' || n.is_ascii_alphabetic() {
            return Err("number followed by digit, dot or name start");
        }
    }
    Ok((if float { K::Float } else { K::Int }, i))
}

/// StringValue :: `""` [lookahead != `"`] | `"` StringCharacter+ `"` | `"""` BlockStringCharacter* `"""`
/// Documented exception (apollo-parser): `\u{...}` and surrogate `\uD800-\uDFFF` escapes are errors.
fn lex_string(s: &str) -> Result<(K, usize), &'static str> {
    if let Some(body) = s.strip_prefix("\"\"\"") {
        // block string: ends at the first `"""` not preceded by a backslash that escapes it
        let b = body.as_bytes();
        let mut i = 0;
        while i < b.len() {
            if b[i] == b'\\' && b[i..].starts_with(b"\\\"\"\"") {
                i += 4;
            } else if b[i..].starts_with(b"\"\"\"") {
                return Ok((K::BlockStr, 3 + i + 3));
            } else {
                i += 1;
            }
        }
        return Err("unterminated block string");
    }
    let b = s.as_bytes();
    debug_assert_eq!(b[0], b'"');
    let mut it = s[1..].char_indices();
    while let Some((off, c)) = it.next() {
        match c {
            '"' => return Ok((K::Str, 1 + off + 1)),
            '\n' | '\r' => return Err("line terminator in string"),
            '\\' => {
                let Some((_, e)) = it.next() else { return Err("unterminated string") };
                match e {
                    '"' | '\\' | '/' | 'b' | 'f' | 'n' | 'r' | 't' => {}
                    'u' => {
                        let mut v: u32 = 0;
                        for _ in 0..4 {
                            let Some((_, h)) = it.next() else { return Err("unterminated string") };
                            let Some(d) = h.to_digit(16) else { return Err("bad unicode escape") };
                            v = v * 16 + d;
                        }
                        if (0xD800..=0xDFFF).contains(&v) {
                            return Err("surrogate escape (documented: unsupported)");
                        }
                    }
                    _ => return Err("bad escape"),
                }
            }
            _ => {}
        }
    }
    Err("unterminated string")
}

/// Lex a whole source. `Ok(tokens)` (with a final Eof) iff the input is a sequence of lexical
/// tokens and ignored tokens.
pub fn lex_all(src: &str) -> Result<Vec<Tok>, (usize, &'static str)> {
    let mut out = vec![];
    let mut at = 0;
    while at < src.len() {
        match lex_at(src, at) {
            Ok(t) => {
                at = t.end;
                out.push(t);
            }
            Err(e) => return Err((at, e)),
        }
    }
    out.push(Tok { kind: K::Eof, start: src.len(), end: src.len() });
    Ok(out)
}

/// Error-tolerant item count used by the limit properties: lexes like `lex_all`, but on a
/// lexical error skips... (not defined by the spec) — so returns None when the input has a
/// lexical error.
pub fn significant(tokens: &[Tok]) -> Vec<Tok> {
    tokens.iter().filter(|t| !t.kind.is_ignored()).cloned().collect()
}

#[cfg(test)]
mod tests {
    use super::*;
    fn kinds(s: &str) -> Result<Vec<K>, (usize, &'static str)> {
        lex_all(s).map(|v| v.into_iter().map(|t| t.kind).collect())
    }
    #[test]
    fn spec_examples() {
        assert_eq!(kinds("{ a }").unwrap(), vec![K::LCurly, K::Whitespace, K::Name, K::Whitespace, K::RCurly, K::Eof]);
        assert_eq!(kinds("0").unwrap(), vec![K::Int, K::Eof]);
        assert_eq!(kinds("-0").unwrap(), vec![K::Int, K::Eof]);
        assert_eq!(kinds("1.5e+10").unwrap(), vec![K::Float, K::Eof]);
        assert_eq!(kinds("1e5").unwrap(), vec![K::Float, K::Eof]);
        assert!(kinds("01").is_err());
        assert!(kinds("1.").is_err());
        assert!(kinds("1.e5").is_err());
        assert!(kinds("1e").is_err());
        assert!(kinds("0x1").is_err());
        assert!(kinds("1a").is_err());
        assert!(kinds("1.5.").is_err());
        assert!(kinds("1.5a").is_err());
        assert!(kinds("-").is_err());
        assert!(kinds("..").is_err());
        assert_eq!(kinds("....").map_err(|e| e.0), Err(3));
        assert_eq!(kinds("\"\"").unwrap(), vec![K::Str, K::Eof]);
        assert_eq!(kinds("\"\"\"\"\"\"").unwrap(), vec![K::BlockStr, K::Eof]);
        assert_eq!(kinds("\"\"\"a\\\"\"\"b\"\"\"").unwrap(), vec![K::BlockStr, K::Eof]);
        assert_eq!(kinds("\"\"\"\"").map_err(|e| e.0), Err(0)); // `""""` : block string start, unterminated
        assert!(kinds("\"a\nb\"").is_err());
        assert!(kinds("\"\\q\"").is_err());
        assert!(kinds("\"\\u12\"").is_err());
        assert!(kinds("\"\\uD800\"").is_err());
        assert_eq!(kinds("\"\\u00e9\\n\"").unwrap(), vec![K::Str, K::Eof]);
        assert_eq!(kinds("#c\r\nx").unwrap(), vec![K::Comment, K::Whitespace, K::Name, K::Eof]);
        assert_eq!(kinds("\u{FEFF} ,").unwrap(), vec![K::Whitespace, K::Comma, K::Eof]);
        assert!(kinds("é").is_err());
        assert_eq!(kinds("\"é🚀\"").unwrap(), vec![K::Str, K::Eof]);
    }
}
