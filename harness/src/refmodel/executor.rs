//! Reference executor: October 2021 section 6 (ExecuteSelectionSet, CollectFields with
//! `@skip`/`@include`, ExecuteField, CoerceArgumentValues, CompleteValue, ResolveAbstractType,
//! Handling Field Errors). Independent of apollo: nothing in here calls apollo code.
//!
//! Resolvers are plain data: a resolver call yields an [`Outcome`]. Which outcome is "wrongly
//! typed" follows the result-coercion rules of section 3 with apollo-compiler's DOCUMENTED
//! choices where the specification says "may" (doc comments of `resolvers::ResolvedValue` and of
//! `resolvers/result_coercion.rs`):
//!   * `Int`: only integer JSON numbers, within 32 bits ("We choose not to [coerce], to keep with
//!     Rust's strong typing"): `1.0`, `"1"`, `true` raise a field error;
//!   * `Float`: only float-typed JSON numbers (an integer-typed `1` is a field error);
//!   * `String` only strings, `Boolean` only booleans, `ID` strings or integers;
//!   * enums are JSON strings naming a defined value; custom scalars pass any JSON value through;
//!   * `Leaf` is for leaf types, `Object` "where the GraphQL type is an object, interface, or union",
//!     `List` "for GraphQL list types": any other combination is a field error at that position;
//!   * an error yielded BY A LIST ITERATOR is a field error at the item's path that nulls the whole
//!     list, whatever the item type's nullability (`result_coercion.rs::test_error_path`);
//!   * `__schema` / `__type` with schema introspection disabled (the default) "return a field error".
//!
//! Two modes. `short_circuit = true` stops executing a selection set (or a list) at the first
//! field error that propagates through it, as a sequential implementation that cancels siblings
//! does (spec 6.4.4 allows it). `short_circuit = false` executes everything; its error list is the
//! set of ALL field errors any conforming execution order may report. Every error records where
//! its null LANDS (the nullable position that absorbs it, or the root).

use super::ast::*;
use super::coerce::{Coercer, Fail, Json, JsonMap};
use super::schema::{RefSchema, BUILTIN_SCALARS};
use std::collections::BTreeSet;

#[derive(Clone, Debug, PartialEq, Eq, Hash, PartialOrd, Ord)]
pub enum Seg {
    Key(String),
    Index(usize),
}

pub type Path = Vec<Seg>;

pub fn path_string(p: &[Seg]) -> String {
    let mut s = String::from("$");
    for seg in p {
        match seg {
            Seg::Key(k) => {
                s.push('.');
                s.push_str(k);
            }
            Seg::Index(i) => s.push_str(&format!("[{}]", i)),
        }
    }
    s
}

/// What a resolver hands back for one field (or a list iterator for one item).
#[derive(Clone, Debug, PartialEq)]
pub enum Outcome {
    /// the resolver returned an error / the list iterator yielded an error
    Error,
    /// a leaf JSON value; `Json::Null` is GraphQL null
    Leaf(Json),
    /// an object claiming this concrete type name
    Object(String),
    List(Vec<Outcome>),
}

pub struct Call<'a> {
    pub object_type: &'a str,
    pub field: &'a FieldDef,
    pub path: &'a [Seg],
    pub args: &'a JsonMap,
}

#[derive(Clone, Debug, PartialEq)]
pub struct CallRecord {
    pub object_type: String,
    pub field: String,
    pub path: Path,
    pub args: JsonMap,
}

pub trait Resolvers {
    fn resolve(&mut self, call: &Call) -> Outcome;
}

#[derive(Clone, Debug, PartialEq)]
pub enum Completed {
    Null,
    Leaf(Json),
    List(Vec<Node>),
    Object(Vec<(String, Node)>),
}

/// A completed value with the nullability of the position it sits at.
#[derive(Clone, Debug, PartialEq)]
pub struct Node {
    pub value: Completed,
    pub non_null: bool,
}

#[derive(Clone, Debug, PartialEq)]
pub enum Landing {
    Pending,
    At(Path),
    Root,
}

#[derive(Clone, Debug, PartialEq)]
pub struct ExecError {
    pub path: Path,
    pub landing: Landing,
    pub kind: &'static str,
}

#[derive(Clone, Debug)]
pub struct Response {
    /// `None`: a null propagated to the root
    pub data: Option<Vec<(String, Node)>>,
    pub errors: Vec<ExecError>,
    pub calls: Vec<CallRecord>,
    /// something was met whose outcome neither the specification nor apollo's documentation pins
    pub unspecified: Vec<&'static str>,
}

struct Propagate;

pub struct Executor<'a, 'r, R: Resolvers> {
    pub schema: &'a RefSchema,
    pub doc: &'a Document,
    pub variables: &'a JsonMap,
    pub resolvers: &'r mut R,
    pub short_circuit: bool,
    errors: Vec<ExecError>,
    calls: Vec<CallRecord>,
    unspecified: Vec<&'static str>,
}

/// Result coercion of a non-null leaf JSON value for the named leaf type (section 3 + apollo's
/// documented choices). `Err(true)`: unspecified.
pub fn coerce_result(schema: &RefSchema, name: &str, v: &Json) -> Result<(), bool> {
    let def = schema.get(name).ok_or(true)?;
    if def.kind == TypeKind::Enum {
        return match v {
            Json::String(s) if def.values.iter().any(|x| x.name == *s) => Ok(()),
            _ => Err(false),
        };
    }
    if !BUILTIN_SCALARS.contains(&name) {
        return Ok(());
    }
    match (name, v) {
        ("Int", Json::Number(n)) => match n.as_i64() {
            Some(i) if !n.is_f64() => {
                if i32::try_from(i).is_ok() {
                    Ok(())
                } else {
                    Err(false)
                }
            }
            _ => Err(false),
        },
        ("Float", Json::Number(n)) => {
            if n.is_f64() {
                Ok(())
            } else {
                Err(false)
            }
        }
        ("String", Json::String(_)) => Ok(()),
        ("Boolean", Json::Bool(_)) => Ok(()),
        ("ID", Json::String(_)) => Ok(()),
        ("ID", Json::Number(n)) => {
            if n.is_f64() {
                Err(false)
            } else if n.as_i64().is_some() {
                Ok(())
            } else {
                // an integer above i64::MAX: not pinned down
                Err(true)
            }
        }
        _ => Err(false),
    }
}

impl<'a, 'r, R: Resolvers> Executor<'a, 'r, R> {
    pub fn new(schema: &'a RefSchema, doc: &'a Document, variables: &'a JsonMap, resolvers: &'r mut R, short_circuit: bool) -> Self {
        Executor { schema, doc, variables, resolvers, short_circuit, errors: vec![], calls: vec![], unspecified: vec![] }
    }

    fn fragment(&self, name: &str) -> Option<&'a FragmentDef> {
        self.doc.defs.iter().find_map(|d| match d {
            Definition::Fragment(f) if f.name == name => Some(f),
            _ => None,
        })
    }

    fn raise(&mut self, path: &[Seg], kind: &'static str) -> Propagate {
        self.errors.push(ExecError { path: path.to_vec(), landing: Landing::Pending, kind });
        Propagate
    }

    /// The position `path` absorbs every still-propagating error raised since `mark`.
    fn land(&mut self, mark: usize, path: &[Seg]) {
        for e in self.errors[mark..].iter_mut() {
            if e.landing == Landing::Pending {
                e.landing = Landing::At(path.to_vec());
            }
        }
    }

    /// ExecuteRequest / ExecuteQuery / ExecuteMutation for one operation.
    pub fn execute(mut self, op: &'a OperationDef) -> Response {
        let data = match self.schema.root(op.op) {
            None => {
                self.unspecified.push("no-root-type");
                None
            }
            Some(root) => {
                let root = root.to_string();
                let sets: Vec<&'a [Selection]> = vec![&op.selection_set[..]];
                self.execute_selection_set(&root, &sets, &mut vec![]).ok()
            }
        };
        for e in self.errors.iter_mut() {
            if e.landing == Landing::Pending {
                e.landing = Landing::Root;
            }
        }
        Response { data, errors: self.errors, calls: self.calls, unspecified: self.unspecified }
    }

    /// 6.3 ExecuteSelectionSet (normal and serial execution differ only in permitted ordering;
    /// this reference always executes in the order of the grouped field set).
    fn execute_selection_set(&mut self, object_type: &str, sets: &[&'a [Selection]], path: &mut Path) -> Result<Vec<(String, Node)>, Propagate> {
        let mut grouped: Vec<(String, Vec<&'a Field>)> = vec![];
        let mut visited: BTreeSet<String> = BTreeSet::new();
        for s in sets {
            self.collect_fields(object_type, s, &mut visited, &mut grouped);
        }
        let mut out: Vec<(String, Node)> = vec![];
        let mut failed = false;
        for (key, fields) in grouped {
            let Some(def) = self.schema.field(object_type, &fields[0].name) else {
                // "If fieldType is defined" — an undefined field cannot occur in a valid document
                self.unspecified.push("undefined-field");
                continue;
            };
            path.push(Seg::Key(key.clone()));
            let r = self.execute_field(object_type, &def, &fields, path);
            path.pop();
            match r {
                Ok(node) => out.push((key, node)),
                Err(Propagate) => {
                    if self.short_circuit {
                        return Err(Propagate);
                    }
                    failed = true;
                }
            }
        }
        if failed {
            Err(Propagate)
        } else {
            Ok(out)
        }
    }

    fn directive_if(&mut self, directives: &[Directive], name: &str) -> Option<bool> {
        let d = directives.iter().find(|d| d.name == name)?;
        match d.args.iter().find(|(n, _)| n == "if").map(|(_, v)| v) {
            Some(Value::Bool(b)) => Some(*b),
            Some(Value::Var(v)) => match self.variables.get(v) {
                Some(Json::Bool(b)) => Some(*b),
                _ => {
                    // no runtime value or null for `if: Boolean!`: not generated
                    self.unspecified.push("directive-if-without-boolean");
                    None
                }
            },
            _ => {
                self.unspecified.push("directive-if-without-boolean");
                None
            }
        }
    }

    /// 6.3.2 CollectFields
    fn collect_fields(&mut self, object_type: &str, selections: &'a [Selection], visited: &mut BTreeSet<String>, grouped: &mut Vec<(String, Vec<&'a Field>)>) {
        for sel in selections {
            let directives = match sel {
                Selection::Field(f) => &f.directives,
                Selection::Spread(s) => &s.directives,
                Selection::Inline(i) => &i.directives,
            };
            if self.directive_if(directives, "skip") == Some(true) {
                continue;
            }
            if self.directive_if(directives, "include") == Some(false) {
                continue;
            }
            match sel {
                Selection::Field(f) => {
                    let key = f.response_key();
                    match grouped.iter_mut().find(|(k, _)| k == key) {
                        Some((_, v)) => v.push(f),
                        None => grouped.push((key.to_string(), vec![f])),
                    }
                }
                Selection::Spread(s) => {
                    if !visited.insert(s.name.clone()) {
                        continue;
                    }
                    let Some(frag) = self.fragment(&s.name) else { continue };
                    if !self.does_fragment_type_apply(object_type, &frag.type_condition) {
                        continue;
                    }
                    self.collect_fields(object_type, &frag.selection_set, visited, grouped);
                }
                Selection::Inline(i) => {
                    if let Some(t) = &i.type_condition {
                        if !self.does_fragment_type_apply(object_type, t) {
                            continue;
                        }
                    }
                    self.collect_fields(object_type, &i.selection_set, visited, grouped);
                }
            }
        }
    }

    /// 6.3.2 DoesFragmentTypeApply
    pub fn does_fragment_type_apply(&self, object_type: &str, fragment_type: &str) -> bool {
        match self.schema.kind(fragment_type) {
            Some(TypeKind::Object) => object_type == fragment_type,
            Some(TypeKind::Interface) => self.schema.get(object_type).map(|t| t.implements.iter().any(|i| i == fragment_type)).unwrap_or(false),
            Some(TypeKind::Union) => self.schema.get(fragment_type).map(|t| t.members.iter().any(|m| m == object_type)).unwrap_or(false),
            _ => false,
        }
    }

    /// 6.4 ExecuteField, including the error handling of 6.4.4 at this field's position.
    fn execute_field(&mut self, object_type: &str, def: &FieldDef, fields: &[&'a Field], path: &mut Path) -> Result<Node, Propagate> {
        let mark = self.errors.len();
        let field = fields[0];
        let non_null = def.ty.is_non_null();
        let completed: Result<Completed, Propagate> = (|| {
            // 6.4.1 CoerceArgumentValues
            let args = match Coercer::new(self.schema).coerce_argument_values(&def.args, &field.args, self.variables) {
                Ok(a) => a,
                Err(Fail::Err(_)) => return Err(self.raise(path, "argument-coercion")),
                Err(Fail::Unspecified(_)) => {
                    self.unspecified.push("argument-coercion");
                    return Err(self.raise(path, "argument-coercion"));
                }
            };
            // 6.4.2 ResolveFieldValue
            let is_query_root = self.schema.query.as_deref() == Some(object_type);
            let resolved = match field.name.as_str() {
                "__typename" => Outcome::Leaf(Json::String(object_type.to_string())),
                // schema introspection is disabled unless asked for: "return a field error"
                "__schema" | "__type" if is_query_root => Outcome::Error,
                _ => {
                    let o = self.resolvers.resolve(&Call { object_type, field: def, path, args: &args });
                    self.calls.push(CallRecord { object_type: object_type.to_string(), field: def.name.clone(), path: path.clone(), args });
                    o
                }
            };
            if resolved == Outcome::Error {
                return Err(self.raise(path, "resolver-error"));
            }
            // 6.4.3 CompleteValue
            self.complete_value(&def.ty, fields, &resolved, path)
        })();
        match completed {
            Ok(value) => Ok(Node { value, non_null }),
            Err(Propagate) if non_null => Err(Propagate),
            Err(Propagate) => {
                self.land(mark, path);
                Ok(Node { value: Completed::Null, non_null: false })
            }
        }
    }

    /// 6.4.3 CompleteValue
    fn complete_value(&mut self, ty: &Type, fields: &[&'a Field], result: &Outcome, path: &mut Path) -> Result<Completed, Propagate> {
        match ty {
            Type::NonNull(inner) => {
                let r = self.complete_value(inner, fields, result, path)?;
                if r == Completed::Null {
                    return Err(self.raise(path, "null-at-non-null"));
                }
                Ok(r)
            }
            _ if *result == Outcome::Leaf(Json::Null) => Ok(Completed::Null),
            Type::List(item_ty) => {
                let Outcome::List(items) = result else {
                    // "If result is not a collection of values, raise a field error."
                    return Err(self.raise(path, "not-a-list"));
                };
                let item_non_null = item_ty.is_non_null();
                let mut out = Vec::with_capacity(items.len());
                let mut failed = false;
                for (i, item) in items.iter().enumerate() {
                    path.push(Seg::Index(i));
                    let mark = self.errors.len();
                    let r = if *item == Outcome::Error {
                        // apollo's documented choice: an iterator error nulls the list
                        let _ = self.raise(path, "iterator-error");
                        failed = true;
                        if self.short_circuit {
                            path.pop();
                            return Err(Propagate);
                        }
                        path.pop();
                        continue;
                    } else {
                        self.complete_value(item_ty, fields, item, path)
                    };
                    match r {
                        Ok(value) => out.push(Node { value, non_null: item_non_null }),
                        Err(Propagate) if item_non_null => {
                            failed = true;
                            if self.short_circuit {
                                path.pop();
                                return Err(Propagate);
                            }
                        }
                        Err(Propagate) => {
                            self.land(mark, path);
                            out.push(Node { value: Completed::Null, non_null: false });
                        }
                    }
                    path.pop();
                }
                if failed {
                    Err(Propagate)
                } else {
                    Ok(Completed::List(out))
                }
            }
            Type::Named(name) => {
                if let Outcome::List(_) = result {
                    return Err(self.raise(path, "list-for-named-type"));
                }
                match self.schema.kind(name) {
                    Some(TypeKind::Scalar | TypeKind::Enum) => {
                        let Outcome::Leaf(json) = result else {
                            return Err(self.raise(path, "object-for-leaf-type"));
                        };
                        match coerce_result(self.schema, name, json) {
                            Ok(()) => Ok(Completed::Leaf(json.clone())),
                            Err(unspecified) => {
                                if unspecified {
                                    self.unspecified.push("leaf-coercion");
                                }
                                Err(self.raise(path, "leaf-coercion"))
                            }
                        }
                    }
                    Some(kind @ (TypeKind::Object | TypeKind::Interface | TypeKind::Union)) => {
                        let Outcome::Object(type_name) = result else {
                            return Err(self.raise(path, "leaf-for-composite-type"));
                        };
                        // ResolveAbstractType, or the object type itself
                        let ok = if kind == TypeKind::Object {
                            type_name == name
                        } else {
                            self.schema.kind(type_name) == Some(TypeKind::Object) && self.schema.possible_types(name).iter().any(|p| p == type_name)
                        };
                        if !ok {
                            return Err(self.raise(path, "wrong-object-type"));
                        }
                        // MergeSelectionSets
                        let sets: Vec<&'a [Selection]> = fields.iter().map(|f| &f.selection_set[..]).collect();
                        let type_name = type_name.clone();
                        self.execute_selection_set(&type_name, &sets, path).map(Completed::Object)
                    }
                    _ => {
                        self.unspecified.push("field-of-non-output-type");
                        Err(self.raise(path, "non-output-type"))
                    }
                }
            }
        }
    }
}

/// Execute operation `op` of `doc`.
pub fn execute<R: Resolvers>(schema: &RefSchema, doc: &Document, op: &OperationDef, variables: &JsonMap, resolvers: &mut R, short_circuit: bool) -> Response {
    Executor::new(schema, doc, variables, resolvers, short_circuit).execute(op)
}

struct NoResolvers;
impl Resolvers for NoResolvers {
    fn resolve(&mut self, _call: &Call) -> Outcome {
        Outcome::Error
    }
}

/// CollectFields (6.3.2) of the merged selection sets `sets` for concrete object type
/// `object_type`: response keys in order, each with its field selections. The flag says whether
/// something unspecified was met (`@skip`/`@include` without a boolean).
pub fn collect_fields<'a>(schema: &'a RefSchema, doc: &'a Document, variables: &'a JsonMap, object_type: &str, sets: &[&'a [Selection]]) -> (Vec<(String, Vec<&'a Field>)>, bool) {
    let mut r = NoResolvers;
    let mut ex = Executor::new(schema, doc, variables, &mut r, true);
    let mut grouped = vec![];
    let mut visited = BTreeSet::new();
    for s in sets {
        ex.collect_fields(object_type, s, &mut visited, &mut grouped);
    }
    let unspecified = !ex.unspecified.is_empty();
    (grouped, unspecified)
}

// ------------------------------------------------------------------------------------------------
// Views of a response

/// `data` as JSON (key order preserved: the response map is ordered, 6.3 / 7.1).
pub fn data_json(data: &Option<Vec<(String, Node)>>) -> Json {
    fn node(n: &Node) -> Json {
        match &n.value {
            Completed::Null => Json::Null,
            Completed::Leaf(j) => j.clone(),
            Completed::List(l) => Json::Array(l.iter().map(node).collect()),
            Completed::Object(o) => Json::Object(o.iter().map(|(k, v)| (k.clone(), node(v))).collect()),
        }
    }
    match data {
        None => Json::Null,
        Some(o) => Json::Object(o.iter().map(|(k, v)| (k.clone(), node(v))).collect()),
    }
}

/// The node at `path` in `data`, if the whole path exists.
pub fn node_at<'n>(data: &'n Option<Vec<(String, Node)>>, path: &[Seg]) -> Option<&'n Node> {
    let root = data.as_ref()?;
    let (first, rest) = path.split_first()?;
    let Seg::Key(k) = first else { return None };
    let mut cur = &root.iter().find(|(n, _)| n == k)?.1;
    for seg in rest {
        cur = match (seg, &cur.value) {
            (Seg::Key(k), Completed::Object(o)) => &o.iter().find(|(n, _)| n == k)?.1,
            (Seg::Index(i), Completed::List(l)) => l.get(*i)?,
            _ => return None,
        };
    }
    Some(cur)
}

/// Is the landing position of `e` a null that is visible in the final `data`?
pub fn landing_visible(data: &Option<Vec<(String, Node)>>, e: &ExecError) -> bool {
    match &e.landing {
        Landing::Root => data.is_none(),
        Landing::At(p) => matches!(node_at(data, p), Some(Node { value: Completed::Null, .. })),
        Landing::Pending => false,
    }
}

/// Positions holding null although their declared type is Non-Null (must be empty).
pub fn nulls_at_non_null(data: &Option<Vec<(String, Node)>>) -> Vec<Path> {
    fn walk(n: &Node, path: &mut Path, out: &mut Vec<Path>) {
        match &n.value {
            Completed::Null => {
                if n.non_null {
                    out.push(path.clone());
                }
            }
            Completed::Leaf(_) => {}
            Completed::List(l) => {
                for (i, x) in l.iter().enumerate() {
                    path.push(Seg::Index(i));
                    walk(x, path, out);
                    path.pop();
                }
            }
            Completed::Object(o) => {
                for (k, x) in o {
                    path.push(Seg::Key(k.clone()));
                    walk(x, path, out);
                    path.pop();
                }
            }
        }
    }
    let mut out = vec![];
    if let Some(o) = data {
        let mut p = vec![];
        for (k, x) in o {
            p.push(Seg::Key(k.clone()));
            walk(x, &mut p, &mut out);
            p.pop();
        }
    }
    out
}

#[cfg(test)]
mod tests {
    use super::*;
    use crate::refmodel::parser::parse_document;
    use serde_json::json;
    use std::collections::BTreeMap;

    /// Resolvers from a table `path string -> outcome`; anything else resolves to a default leaf.
    struct Table(BTreeMap<String, Outcome>);
    impl Resolvers for Table {
        fn resolve(&mut self, call: &Call) -> Outcome {
            self.0.get(&path_string(call.path)).cloned().unwrap_or(Outcome::Leaf(json!(1)))
        }
    }

    fn run(sdl: &str, q: &str, vars: Json, table: &[(&str, Outcome)], sc: bool) -> (Json, Vec<String>, Vec<String>) {
        let sd = parse_document(sdl).unwrap();
        let s = RefSchema::from_document(&sd);
        let d = parse_document(q).unwrap();
        let op = d.defs.iter().find_map(|x| if let Definition::Operation(o) = x { Some(o) } else { None }).unwrap();
        let Json::Object(vars) = vars else { panic!() };
        let mut t = Table(table.iter().map(|(k, v)| (k.to_string(), v.clone())).collect());
        let r = execute(&s, &d, op, &vars, &mut t, sc);
        assert!(r.unspecified.is_empty(), "{:?}", r.unspecified);
        assert!(nulls_at_non_null(&r.data).is_empty());
        (data_json(&r.data), r.errors.iter().map(|e| path_string(&e.path)).collect(), r.calls.iter().map(|c| path_string(&c.path)).collect())
    }

    fn obj(n: &str) -> Outcome {
        Outcome::Object(n.into())
    }
    fn leaf(j: Json) -> Outcome {
        Outcome::Leaf(j)
    }

    const DOG: &str = "type Query { dog: Dog me: User a: A b: Int } type Dog { name: String nickname: String barkVolume: Int owner: User } \
        type User { name: String! age: Int birthday: Birthday friends: [User] id: ID! } type Birthday { month: Int year: Int } \
        type A { subfield1: Int subfield2: Int }";

    /// 6.3.2: fields with the same response key are grouped, fragments are flattened in order.
    #[test]
    fn collect_fields_examples() {
        let q = "{ a { subfield1 } ...ExampleFragment } fragment ExampleFragment on Query { a { subfield2 } b }";
        let (data, errors, calls) = run(DOG, q, json!({}), &[("$.a", obj("A"))], true);
        assert_eq!(serde_json::to_string(&data).unwrap(), r#"{"a":{"subfield1":1,"subfield2":1},"b":1}"#);
        assert!(errors.is_empty());
        // `a` is resolved once although selected twice
        assert_eq!(calls, vec!["$.a", "$.a.subfield1", "$.a.subfield2", "$.b"]);
    }

    /// 6.3.2: "@skip ... @include": a field is skipped when either says so; variables are used.
    #[test]
    fn skip_include() {
        let q = "query($t: Boolean!, $f: Boolean!) { a @skip(if: $t) { subfield1 } b @include(if: $f) x: b @skip(if: $f) @include(if: $t) y: b @skip(if: true) @include(if: true) \
                 ... @include(if: $f) { z: b } ...F @skip(if: $t) ... on Query @skip(if: false) { w: b } } fragment F on Query { v: b }";
        let (data, _, calls) = run(DOG, q, json!({"t": true, "f": false}), &[], true);
        assert_eq!(serde_json::to_string(&data).unwrap(), r#"{"x":1,"w":1}"#);
        assert_eq!(calls, vec!["$.x", "$.w"]);
    }

    /// A named fragment is visited once per selection set; type conditions select by concrete type.
    #[test]
    fn fragments_and_type_conditions() {
        let sdl = "type Query { n: Node u: U } interface Node { id: ID } type X implements Node { id: ID x: Int } type Y implements Node { id: ID y: Int } union U = X | Y";
        let q = "{ n { ...F ...F ... on X { x } ... on Y { y } ... on U { __typename } ... on Node { id } } u { ... on Node { id } ... on Y { y } __typename } } fragment F on Node { k: id }";
        let (data, _, _) = run(sdl, q, json!({}), &[("$.n", obj("Y")), ("$.u", obj("X"))], true);
        assert_eq!(serde_json::to_string(&data).unwrap(), r#"{"n":{"k":1,"y":1,"__typename":"Y","id":1},"u":{"id":1,"__typename":"X"}}"#);
    }

    /// 6.4.4: a field error on a nullable field becomes null with one error carrying the path.
    #[test]
    fn error_on_nullable_field() {
        let q = "{ me { name birthday { month } } }";
        let (data, errors, _) = run(DOG, q, json!({}), &[("$.me", obj("User")), ("$.me.name", leaf(json!("n"))), ("$.me.birthday", obj("Birthday")), ("$.me.birthday.month", Outcome::Error)], true);
        assert_eq!(data, json!({"me": {"name": "n", "birthday": {"month": null}}}));
        assert_eq!(errors, vec!["$.me.birthday.month"]);
    }

    /// 6.4.4: "If the field which experienced an error was declared as Non-Null, the null result
    /// will bubble up to the next nullable field."
    #[test]
    fn non_null_propagation() {
        let q = "{ me { name age } b }";
        let t = [("$.me", obj("User")), ("$.me.name", leaf(Json::Null))];
        let (data, errors, _) = run(DOG, q, json!({}), &t, true);
        assert_eq!(data, json!({"me": null, "b": 1}));
        assert_eq!(errors, vec!["$.me.name"]);
        // all fields from the root to the error non-null: data is null
        let sdl = "type Query { a: A! } type A { b: B! } type B { c: Int! d: Int! }";
        let t = [("$.a", obj("A")), ("$.a.b", obj("B")), ("$.a.b.c", Outcome::Error), ("$.a.b.d", Outcome::Error)];
        let (data, errors, calls) = run(sdl, "{ a { b { c d } } }", json!({}), &t, true);
        assert_eq!(data, Json::Null);
        assert_eq!(errors, vec!["$.a.b.c"]);
        assert_eq!(calls.len(), 3);
        // without cancellation both errors are found
        let (data, errors, _) = run(sdl, "{ a { b { c d } } }", json!({}), &t, false);
        assert_eq!(data, Json::Null);
        assert_eq!(errors, vec!["$.a.b.c", "$.a.b.d"]);
    }

    /// 6.4.4 list examples: `[Int]` keeps a null item, `[Int!]` becomes null as a whole,
    /// `[Int!]!` propagates further.
    #[test]
    fn lists() {
        let sdl = "type Query { a: [Int] b: [Int!] c: [Int!]! d: [[Int!]] e: Int }";
        let l = |bad: Outcome| Outcome::List(vec![leaf(json!(1)), leaf(json!(2)), bad, leaf(json!(4))]);
        let (data, errors, _) = run(sdl, "{ a e }", json!({}), &[("$.a", l(leaf(Json::Null)))], true);
        assert_eq!(data, json!({"a": [1, 2, null, 4], "e": 1}));
        assert!(errors.is_empty());
        let (data, errors, _) = run(sdl, "{ a e }", json!({}), &[("$.a", l(leaf(json!("x"))))], true);
        assert_eq!(data, json!({"a": [1, 2, null, 4], "e": 1}));
        assert_eq!(errors, vec!["$.a[2]"]);
        let (data, errors, _) = run(sdl, "{ b e }", json!({}), &[("$.b", l(leaf(Json::Null)))], true);
        assert_eq!(data, json!({"b": null, "e": 1}));
        assert_eq!(errors, vec!["$.b[2]"]);
        let (data, errors, _) = run(sdl, "{ e c }", json!({}), &[("$.c", l(leaf(json!(true))))], true);
        assert_eq!(data, Json::Null);
        assert_eq!(errors, vec!["$.c[2]"]);
        // nested: the inner list is nulled, the outer one keeps it
        let inner = Outcome::List(vec![leaf(json!(1)), leaf(Json::Null)]);
        let (data, errors, _) = run(sdl, "{ d }", json!({}), &[("$.d", Outcome::List(vec![inner, Outcome::List(vec![leaf(json!(3))])]))], true);
        assert_eq!(data, json!({"d": [null, [3]]}));
        assert_eq!(errors, vec!["$.d[0][1]"]);
        // iterator error (apollo's documented choice): the list is null, path has the index
        let (data, errors, _) = run(sdl, "{ a }", json!({}), &[("$.a", Outcome::List(vec![leaf(json!(42)), Outcome::Error]))], true);
        assert_eq!(data, json!({"a": null}));
        assert_eq!(errors, vec!["$.a[1]"]);
        // not a collection
        let (data, errors, _) = run(sdl, "{ a }", json!({}), &[("$.a", leaf(json!(1)))], true);
        assert_eq!(data, json!({"a": null}));
        assert_eq!(errors, vec!["$.a"]);
    }

    #[test]
    fn leaf_coercion_and_abstract_types() {
        let sdl = "type Query { i: Int f: Float s: String b: Boolean id: ID e: E c: Any n: Node u: U o: X } enum E { A B } scalar Any \
                   interface Node { id: ID } type X implements Node { id: ID } type Y { id: ID } union U = Y";
        let t = [
            ("$.i", leaf(json!(2147483648i64))),
            ("$.f", leaf(json!(1))),
            ("$.s", leaf(json!(1))),
            ("$.b", leaf(json!("true"))),
            ("$.id", leaf(json!(1.5))),
            ("$.e", leaf(json!("C"))),
            ("$.c", leaf(json!({"k": [1, null]}))),
            ("$.n", obj("Y")),
            ("$.u", obj("X")),
            ("$.o", obj("Ghost")),
        ];
        let (data, errors, _) = run(sdl, "{ i f s b id e c n { id } u { __typename } o { id } }", json!({}), &t, true);
        assert_eq!(data, json!({"i": null, "f": null, "s": null, "b": null, "id": null, "e": null, "c": {"k": [1, null]}, "n": null, "u": null, "o": null}));
        assert_eq!(errors.len(), 9);
        let t = [("$.i", leaf(json!(-2147483648i64))), ("$.f", leaf(json!(1.0))), ("$.id", leaf(json!(7))), ("$.e", leaf(json!("B"))), ("$.n", obj("X")), ("$.u", obj("Y"))];
        let (data, errors, _) = run(sdl, "{ i f id e n { id } u { __typename } }", json!({}), &t, true);
        assert_eq!(data, json!({"i": -2147483648i64, "f": 1.0, "id": 7, "e": "B", "n": {"id": 1}, "u": {"__typename": "Y"}}));
        assert!(errors.is_empty());
        // kind mismatches
        let t = [("$.i", obj("X")), ("$.n", leaf(json!("x"))), ("$.o", Outcome::List(vec![])), ("$.c", Outcome::List(vec![]))];
        let (data, errors, _) = run(sdl, "{ i n { id } o { id } c }", json!({}), &t, true);
        assert_eq!(data, json!({"i": null, "n": null, "o": null, "c": null}));
        assert_eq!(errors.len(), 4);
    }

    #[test]
    fn arguments_and_landing() {
        let sdl = "type Query { f(a: Int!, b: [Int] = 3): Int g(a: Int!): Int! h: H } type H { g(a: Int!): Int! k: Int }";
        let sd = parse_document(sdl).unwrap();
        let s = RefSchema::from_document(&sd);
        let d = parse_document("query($v: Int = 1) { f(a: $v) h { k g(a: $v) } }").unwrap();
        let Definition::Operation(op) = &d.defs[0] else { panic!() };
        let mut t = Table([("$.h".to_string(), obj("H"))].into_iter().collect());
        let vars: JsonMap = [("v".to_string(), json!(5))].into_iter().collect();
        let r = execute(&s, &d, op, &vars, &mut t, true);
        assert_eq!(r.calls[0].args, json!({"a": 5, "b": [3]}).as_object().unwrap().clone());
        assert!(r.errors.is_empty());
        // explicit null for a non-null argument: field error at the field, before the resolver
        let vars: JsonMap = [("v".to_string(), Json::Null)].into_iter().collect();
        let r = execute(&s, &d, op, &vars, &mut t, true);
        assert_eq!(data_json(&r.data), json!({"f": null, "h": null}));
        assert_eq!(r.calls.iter().map(|c| path_string(&c.path)).collect::<Vec<_>>(), vec!["$.h", "$.h.k"]);
        assert_eq!(r.errors[1].landing, Landing::At(vec![Seg::Key("h".into())]));
        assert!(landing_visible(&r.data, &r.errors[0]) && landing_visible(&r.data, &r.errors[1]));
    }
}
