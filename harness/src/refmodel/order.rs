//! Reference model of the ORDER in which a type-system document lists things (C12, C13).
//!
//! GraphQL type and schema extensions add components to a definition (spec 3.3.2, 3.6.3 ...: an
//! extension "is used to represent a type which has been extended from some original type"); the
//! merged order the property speaks about ("in the same order") is: the components of the
//! definition first, then the components of every extension in the order the extensions appear in
//! the source, wherever the extensions are placed relative to the definition. Types and directive
//! definitions are listed in the order of their definitions.
//!
//! The model is only meaningful for documents that build without errors (one definition per name,
//! every extension has a definition of its kind, no duplicated component); callers skip the others.
//! Nothing in here calls apollo code.

use super::ast::*;
use super::schema::BUILTIN_SCALARS;

#[derive(Clone, Debug, PartialEq)]
pub struct OrderFact {
    /// kind of collection (goes into failure signatures)
    pub kind: &'static str,
    pub path: String,
    pub value: String,
    /// built-in types: only the END of the actual list is known (what the extensions added)
    pub suffix_only: bool,
}

/// Directive names that the implementation may define itself; a user definition with such a name
/// replaces the built-in one in place, so its position says nothing.
pub const BUILTIN_DIRECTIVE_NAMES: [&str; 7] = ["skip", "include", "deprecated", "specifiedBy", "oneOf", "defer", "stream"];

pub fn is_builtin_type_name(n: &str) -> bool {
    n.starts_with("__") || BUILTIN_SCALARS.contains(&n)
}

/// Canonical rendering of a const value that both sides can produce without sharing a printer:
/// integers, booleans, null and enum values literally, everything else by kind.
pub fn render_value(v: &Value) -> String {
    match v {
        Value::Int(t) => match t.parse::<i64>() {
            Ok(i) => i.to_string(),
            Err(_) => "<int>".into(),
        },
        Value::Bool(b) => b.to_string(),
        Value::Null => "null".into(),
        Value::Enum(e) => e.clone(),
        Value::Var(n) => format!("${n}"),
        Value::Float(_) => "<float>".into(),
        Value::Str(_) => "<string>".into(),
        Value::List(_) => "<list>".into(),
        Value::Object(_) => "<object>".into(),
    }
}

pub fn render_directive(d: &Directive) -> String {
    if d.args.is_empty() {
        return format!("@{}", d.name);
    }
    let args: Vec<String> = d.args.iter().map(|(n, v)| format!("{n}: {}", render_value(v))).collect();
    format!("@{}({})", d.name, args.join(", "))
}

pub fn render_directives(ds: &[Directive]) -> String {
    ds.iter().map(render_directive).collect::<Vec<_>>().join(" ")
}

fn fact(out: &mut Vec<OrderFact>, kind: &'static str, path: String, value: String, suffix_only: bool) {
    out.push(OrderFact { kind, path, value, suffix_only });
}

/// Path of the `i`-th argument `name` in `names` (duplicates are numbered by occurrence).
pub fn arg_path(owner: &str, names: &[&str], i: usize) -> String {
    let dup = names[..i].iter().filter(|n| **n == names[i]).count();
    if dup == 0 {
        format!("{owner}({})", names[i])
    } else {
        format!("{owner}({}#{dup})", names[i])
    }
}

fn args(out: &mut Vec<OrderFact>, kinds: [&'static str; 2], owner: &str, a: &[InputValueDef]) {
    fact(out, kinds[0], format!("{owner}.args"), a.iter().map(|x| x.name.clone()).collect::<Vec<_>>().join(","), false);
    let names: Vec<&str> = a.iter().map(|x| x.name.as_str()).collect();
    for (i, x) in a.iter().enumerate() {
        fact(out, kinds[1], format!("{}.directives", arg_path(owner, &names, i)), render_directives(&x.directives), false);
    }
}

/// The ordered collections of the schema that `doc` describes.
pub fn expected_order(doc: &Document) -> Vec<OrderFact> {
    expected_order_with(doc, false)
}

/// `adopt`: extensions of a name that is never defined extend an empty definition that is listed
/// after all defined types, in the order the names are first extended (apollo's documented
/// `adopt_orphan_extensions` mode; not part of the specification).
pub fn expected_order_with(doc: &Document, adopt: bool) -> Vec<OrderFact> {
    let mut out = vec![];
    // types in definition order; built-in types are not listed (their position is the implementation's business)
    let mut user_types: Vec<&TypeDef> = vec![];
    for d in &doc.defs {
        if let Definition::Type(t) = d {
            if !t.is_ext && !is_builtin_type_name(&t.name) && !user_types.iter().any(|u| u.name == t.name) {
                user_types.push(t);
            }
        }
    }
    let mut adopted: Vec<TypeDef> = vec![];
    if adopt {
        for d in &doc.defs {
            if let Definition::Type(t) = d {
                if t.is_ext && !is_builtin_type_name(&t.name) && !user_types.iter().any(|u| u.name == t.name) && !adopted.iter().any(|u| u.name == t.name) {
                    adopted.push(TypeDef::new(t.kind, &t.name));
                }
            }
        }
    }
    user_types.extend(adopted.iter());
    fact(&mut out, "types", "<types>".into(), user_types.iter().map(|t| t.name.clone()).collect::<Vec<_>>().join(","), false);
    // names that are only extended (built-in types)
    let mut extended_builtins: Vec<(&str, TypeKind)> = vec![];
    for d in &doc.defs {
        if let Definition::Type(t) = d {
            if t.is_ext && is_builtin_type_name(&t.name) && !extended_builtins.iter().any(|(n, _)| *n == t.name) {
                extended_builtins.push((&t.name, t.kind));
            }
        }
    }
    let merged = |name: &str, base: Option<&TypeDef>, kind: TypeKind| -> TypeDef {
        let mut m = match base {
            Some(b) => b.clone(),
            None => TypeDef::new(kind, name),
        };
        for d in &doc.defs {
            if let Definition::Type(e) = d {
                if e.is_ext && e.name == name && e.kind == m.kind {
                    m.implements.extend(e.implements.iter().cloned());
                    m.directives.extend(e.directives.iter().cloned());
                    m.fields.extend(e.fields.iter().cloned());
                    m.members.extend(e.members.iter().cloned());
                    m.values.extend(e.values.iter().cloned());
                    m.input_fields.extend(e.input_fields.iter().cloned());
                }
            }
        }
        m
    };
    let mut all: Vec<(TypeDef, bool)> = user_types.iter().map(|t| (merged(&t.name, Some(t), t.kind), false)).collect();
    all.extend(extended_builtins.iter().map(|(n, k)| (merged(n, None, *k), true)));
    for (t, builtin) in &all {
        let tn = format!("type {}", t.name);
        fact(&mut out, "type-directives", format!("{tn}.directives"), render_directives(&t.directives), *builtin);
        match t.kind {
            TypeKind::Scalar => {}
            TypeKind::Object | TypeKind::Interface => {
                fact(&mut out, "implements", format!("{tn}.implements"), t.implements.join(","), *builtin);
                fact(&mut out, "fields", format!("{tn}.fields"), t.fields.iter().map(|f| f.name.clone()).collect::<Vec<_>>().join(","), *builtin);
                for f in &t.fields {
                    let p = format!("{tn}.{}", f.name);
                    fact(&mut out, "field-directives", format!("{p}.directives"), render_directives(&f.directives), false);
                    args(&mut out, ["arguments", "argument-directives"], &p, &f.args);
                }
            }
            TypeKind::Union => fact(&mut out, "members", format!("{tn}.members"), t.members.join(","), *builtin),
            TypeKind::Enum => {
                fact(&mut out, "values", format!("{tn}.values"), t.values.iter().map(|v| v.name.clone()).collect::<Vec<_>>().join(","), *builtin);
                for v in &t.values {
                    fact(&mut out, "value-directives", format!("{tn}.{}.directives", v.name), render_directives(&v.directives), false);
                }
            }
            TypeKind::InputObject => {
                fact(&mut out, "input-fields", format!("{tn}.fields"), t.input_fields.iter().map(|f| f.name.clone()).collect::<Vec<_>>().join(","), *builtin);
                for f in &t.input_fields {
                    fact(&mut out, "input-field-directives", format!("{tn}.{}.directives", f.name), render_directives(&f.directives), false);
                }
            }
        }
    }
    // directive definitions
    let mut dirs: Vec<&DirectiveDef> = vec![];
    for d in &doc.defs {
        if let Definition::Directive(dd) = d {
            if !dirs.iter().any(|x| x.name == dd.name) {
                dirs.push(dd);
            }
        }
    }
    fact(
        &mut out,
        "directive-definitions",
        "<directive-definitions>".into(),
        dirs.iter().filter(|d| !BUILTIN_DIRECTIVE_NAMES.contains(&d.name.as_str())).map(|d| d.name.clone()).collect::<Vec<_>>().join(","),
        false,
    );
    for d in dirs {
        args(&mut out, ["directive-arguments", "directive-argument-directives"], &format!("@{}", d.name), &d.args);
    }
    // schema definition and its extensions
    let mut schema_dirs: Vec<Directive> = vec![];
    let mut explicit = false;
    let mut roots: Vec<(OpType, String)> = vec![];
    for d in &doc.defs {
        if let Definition::Schema(sd) = d {
            if !sd.is_ext {
                explicit = true;
                schema_dirs.splice(0..0, sd.directives.iter().cloned());
            }
        }
    }
    for d in &doc.defs {
        if let Definition::Schema(sd) = d {
            if sd.is_ext {
                schema_dirs.extend(sd.directives.iter().cloned());
            }
            roots.extend(sd.roots.iter().cloned());
        }
    }
    fact(&mut out, "schema-directives", "<schema>.directives".into(), render_directives(&schema_dirs), false);
    if explicit {
        // with an explicit definition the root operation types are exactly the ones written down
        for op in OpType::ALL {
            let v = roots.iter().find(|(o, _)| *o == op).map(|(_, n)| n.clone()).unwrap_or_else(|| "-".into());
            fact(&mut out, "root-operation", format!("<schema>.{}", op.keyword()), v, false);
        }
    }
    out
}

#[cfg(test)]
mod tests {
    use super::*;
    use crate::refmodel::parser::parse_document;

    fn get<'a>(f: &'a [OrderFact], path: &str) -> &'a str {
        &f.iter().find(|x| x.path == path).unwrap_or_else(|| panic!("no fact {path}")).value
    }

    #[test]
    fn extensions_append_in_source_order_wherever_they_are() {
        let d = parse_document(
            "extend type Q @a { z: Int } type Q implements I @b(n: 1) { f(x: Int @t, y: Int): Int @c } extend type Q implements J @d(n: 2) { b: Int } \
             extend type Q { a: Int } interface I { f: Int } interface J { b: Int } extend schema @s2 schema @s1 { query: Q } extend schema @s3 { mutation: Q } \
             directive @b(n: Int) on OBJECT directive @a on OBJECT directive @skip(if: Boolean!) on FIELD extend scalar Int @a extend enum __TypeKind { X }",
        )
        .unwrap();
        let f = expected_order(&d);
        assert_eq!(get(&f, "<types>"), "Q,I,J");
        assert_eq!(get(&f, "type Q.fields"), "f,z,b,a");
        assert_eq!(get(&f, "type Q.implements"), "I,J");
        assert_eq!(get(&f, "type Q.directives"), "@b(n: 1) @a @d(n: 2)");
        assert_eq!(get(&f, "type Q.f.args"), "x,y");
        assert_eq!(get(&f, "type Q.f(x).directives"), "@t");
        assert_eq!(get(&f, "type Q.f.directives"), "@c");
        assert_eq!(get(&f, "<schema>.directives"), "@s1 @s2 @s3");
        assert_eq!(get(&f, "<schema>.mutation"), "Q");
        assert_eq!(get(&f, "<schema>.subscription"), "-");
        assert_eq!(get(&f, "<directive-definitions>"), "b,a");
        assert_eq!(get(&f, "type Int.directives"), "@a");
        assert!(f.iter().any(|x| x.path == "type Int.directives" && x.suffix_only));
        let tk = f.iter().find(|x| x.path == "type __TypeKind.values").unwrap();
        assert!(tk.suffix_only && tk.value == "X");
    }
}
