//! Reference parser: strict recursive descent over the reference lexer's tokens, transcribed
//! from the October 2021 document grammar (Appendix B). Independent of apollo-parser.

use super::ast::*;
use super::lexer::{lex_all, Tok, K};
use super::strings;

#[derive(Clone, Debug, PartialEq)]
pub struct ParseErr {
    /// grammar production being parsed
    pub production: &'static str,
    /// what was expected
    pub expected: &'static str,
    /// index into the significant-token list (== tokens.len()-1 for Eof)
    pub at_token: usize,
    pub at_byte: usize,
}

impl ParseErr {
    pub fn code(&self) -> String {
        format!("{}/expected {}", self.production, self.expected)
    }
}

pub struct P<'a> {
    src: &'a str,
    toks: Vec<Tok>,
    pos: usize,
}

type R<T> = Result<T, ParseErr>;

impl<'a> P<'a> {
    pub fn new(src: &'a str) -> Result<P<'a>, ParseErr> {
        let all = lex_all(src).map_err(|(at, _)| ParseErr {
            production: "Lexical",
            expected: "token",
            at_token: 0,
            at_byte: at,
        })?;
        Ok(P {
            src,
            toks: all.into_iter().filter(|t| !t.kind.is_ignored()).collect(),
            pos: 0,
        })
    }

    fn peek(&self) -> K {
        self.toks[self.pos].kind
    }
    fn peek_n(&self, n: usize) -> K {
        self.toks.get(self.pos + n).map(|t| t.kind).unwrap_or(K::Eof)
    }
    fn text(&self) -> &'a str {
        let t = &self.toks[self.pos];
        &self.src[t.start..t.end]
    }
    fn text_n(&self, n: usize) -> &'a str {
        match self.toks.get(self.pos + n) {
            Some(t) => &self.src[t.start..t.end],
            None => "",
        }
    }
    fn bump(&mut self) {
        if self.pos + 1 < self.toks.len() {
            self.pos += 1;
        }
    }
    fn err<T>(&self, production: &'static str, expected: &'static str) -> R<T> {
        Err(ParseErr {
            production,
            expected,
            at_token: self.pos,
            at_byte: self.toks[self.pos].start,
        })
    }
    fn expect(&mut self, k: K, production: &'static str, expected: &'static str) -> R<()> {
        if self.peek() == k {
            self.bump();
            Ok(())
        } else {
            self.err(production, expected)
        }
    }
    fn at_kw(&self, kw: &str) -> bool {
        self.peek() == K::Name && self.text() == kw
    }
    fn name(&mut self, production: &'static str) -> R<String> {
        if self.peek() == K::Name {
            let s = self.text().to_string();
            self.bump();
            Ok(s)
        } else {
            self.err(production, "Name")
        }
    }
    pub fn at_eof(&self) -> bool {
        self.peek() == K::Eof
    }

    // ---- Document ----

    pub fn document(&mut self) -> R<Document> {
        let mut defs = vec![];
        // Document :: Definition+
        loop {
            defs.push(self.definition()?);
            if self.at_eof() {
                break;
            }
        }
        Ok(Document { defs })
    }

    fn description(&mut self) -> Option<StrLit> {
        if matches!(self.peek(), K::Str | K::BlockStr) {
            let raw = self.text().to_string();
            let block = self.peek() == K::BlockStr;
            self.bump();
            Some(StrLit {
                value: strings::token_value(&raw).unwrap_or_default(),
                raw,
                block,
            })
        } else {
            None
        }
    }

    fn definition(&mut self) -> R<Definition> {
        if self.peek() == K::LCurly {
            let selection_set = self.selection_set()?;
            return Ok(Definition::Operation(OperationDef {
                op: OpType::Query,
                shorthand: true,
                name: None,
                vars: vec![],
                directives: vec![],
                selection_set,
            }));
        }
        let description = self.description();
        if self.peek() != K::Name {
            return self.err("Definition", "definition keyword");
        }
        let kw = self.text();
        if description.is_some() && matches!(kw, "query" | "mutation" | "subscription" | "fragment" | "extend") {
            return self.err("Definition", "type system definition after description");
        }
        match kw {
            "query" | "mutation" | "subscription" => self.operation().map(Definition::Operation),
            "fragment" => self.fragment().map(Definition::Fragment),
            "schema" => self.schema_def(description, false).map(Definition::Schema),
            "scalar" | "type" | "interface" | "union" | "enum" | "input" => {
                self.type_def(description, false).map(Definition::Type)
            }
            "directive" => self.directive_def(description).map(Definition::Directive),
            "extend" => {
                self.bump();
                if self.at_kw("schema") {
                    self.schema_def(None, true).map(Definition::Schema)
                } else if self.peek() == K::Name
                    && matches!(self.text(), "scalar" | "type" | "interface" | "union" | "enum" | "input")
                {
                    self.type_def(None, true).map(Definition::Type)
                } else {
                    self.err("TypeSystemExtension", "schema or type keyword")
                }
            }
            _ => self.err("Definition", "definition keyword"),
        }
    }

    // ---- Executable ----

    fn operation(&mut self) -> R<OperationDef> {
        let op = match self.text() {
            "query" => OpType::Query,
            "mutation" => OpType::Mutation,
            _ => OpType::Subscription,
        };
        self.bump();
        let name = if self.peek() == K::Name { Some(self.name("OperationDefinition")?) } else { None };
        let vars = if self.peek() == K::LParen { self.variable_definitions()? } else { vec![] };
        let directives = self.directives(false)?;
        if self.peek() != K::LCurly {
            return self.err("OperationDefinition", "'{'");
        }
        let selection_set = self.selection_set()?;
        Ok(OperationDef { op, shorthand: false, name, vars, directives, selection_set })
    }

    fn variable_definitions(&mut self) -> R<Vec<VarDef>> {
        self.expect(K::LParen, "VariableDefinitions", "'('")?;
        let mut out = vec![];
        loop {
            self.expect(K::Dollar, "VariableDefinition", "'$'")?;
            let name = self.name("Variable")?;
            self.expect(K::Colon, "VariableDefinition", "':'")?;
            let ty = self.ty()?;
            let default = if self.peek() == K::Eq {
                self.bump();
                Some(self.value(true)?)
            } else {
                None
            };
            let directives = self.directives(true)?;
            out.push(VarDef { name, ty, default, directives });
            if self.peek() == K::RParen {
                self.bump();
                break;
            }
        }
        Ok(out)
    }

    pub fn selection_set(&mut self) -> R<Vec<Selection>> {
        self.expect(K::LCurly, "SelectionSet", "'{'")?;
        let mut out = vec![];
        loop {
            out.push(self.selection()?);
            if self.peek() == K::RCurly {
                self.bump();
                break;
            }
        }
        Ok(out)
    }

    fn selection(&mut self) -> R<Selection> {
        match self.peek() {
            K::Spread => {
                self.bump();
                if self.peek() == K::Name && self.text() != "on" {
                    let name = self.name("FragmentSpread")?;
                    let directives = self.directives(false)?;
                    Ok(Selection::Spread(FragmentSpread { name, directives }))
                } else {
                    let type_condition = if self.at_kw("on") {
                        self.bump();
                        Some(self.name("TypeCondition")?)
                    } else {
                        None
                    };
                    let directives = self.directives(false)?;
                    if self.peek() != K::LCurly {
                        return self.err("InlineFragment", "'{'");
                    }
                    let selection_set = self.selection_set()?;
                    Ok(Selection::Inline(InlineFragment { type_condition, directives, selection_set }))
                }
            }
            K::Name => {
                let first = self.name("Field")?;
                let (alias, name) = if self.peek() == K::Colon {
                    self.bump();
                    (Some(first), self.name("Field")?)
                } else {
                    (None, first)
                };
                let args = if self.peek() == K::LParen { self.arguments(false)? } else { vec![] };
                let directives = self.directives(false)?;
                let selection_set = if self.peek() == K::LCurly { self.selection_set()? } else { vec![] };
                Ok(Selection::Field(Field { alias, name, args, directives, selection_set }))
            }
            _ => self.err("Selection", "field or '...'"),
        }
    }

    fn arguments(&mut self, constant: bool) -> R<Vec<(String, Value)>> {
        self.expect(K::LParen, "Arguments", "'('")?;
        let mut out = vec![];
        loop {
            let name = self.name("Argument")?;
            self.expect(K::Colon, "Argument", "':'")?;
            let v = self.value(constant)?;
            out.push((name, v));
            if self.peek() == K::RParen {
                self.bump();
                break;
            }
        }
        Ok(out)
    }

    fn directives(&mut self, constant: bool) -> R<Vec<Directive>> {
        let mut out = vec![];
        while self.peek() == K::At {
            self.bump();
            let name = self.name("Directive")?;
            let args = if self.peek() == K::LParen { self.arguments(constant)? } else { vec![] };
            out.push(Directive { name, args });
        }
        Ok(out)
    }

    fn fragment(&mut self) -> R<FragmentDef> {
        self.bump(); // fragment
        if self.peek() != K::Name || self.text() == "on" {
            return self.err("FragmentDefinition", "FragmentName");
        }
        let name = self.name("FragmentDefinition")?;
        if !self.at_kw("on") {
            return self.err("TypeCondition", "'on'");
        }
        self.bump();
        let type_condition = self.name("TypeCondition")?;
        let directives = self.directives(false)?;
        if self.peek() != K::LCurly {
            return self.err("FragmentDefinition", "'{'");
        }
        let selection_set = self.selection_set()?;
        Ok(FragmentDef { name, type_condition, directives, selection_set })
    }

    pub fn value(&mut self, constant: bool) -> R<Value> {
        match self.peek() {
            K::Dollar => {
                if constant {
                    return self.err("Value[Const]", "constant value");
                }
                self.bump();
                Ok(Value::Var(self.name("Variable")?))
            }
            K::Int => {
                let t = self.text().to_string();
                self.bump();
                Ok(Value::Int(t))
            }
            K::Float => {
                let t = self.text().to_string();
                self.bump();
                Ok(Value::Float(t))
            }
            K::Str | K::BlockStr => {
                let raw = self.text().to_string();
                let block = self.peek() == K::BlockStr;
                self.bump();
                Ok(Value::Str(StrLit { value: strings::token_value(&raw).unwrap_or_default(), raw, block }))
            }
            K::Name => {
                let t = self.text().to_string();
                self.bump();
                Ok(match t.as_str() {
                    "true" => Value::Bool(true),
                    "false" => Value::Bool(false),
                    "null" => Value::Null,
                    _ => Value::Enum(t),
                })
            }
            K::LBracket => {
                self.bump();
                let mut items = vec![];
                while self.peek() != K::RBracket {
                    items.push(self.value(constant)?);
                }
                self.bump();
                Ok(Value::List(items))
            }
            K::LCurly => {
                self.bump();
                let mut fields = vec![];
                while self.peek() != K::RCurly {
                    let name = self.name("ObjectField")?;
                    self.expect(K::Colon, "ObjectField", "':'")?;
                    fields.push((name, self.value(constant)?));
                }
                self.bump();
                Ok(Value::Object(fields))
            }
            _ => self.err("Value", "value"),
        }
    }

    pub fn ty(&mut self) -> R<Type> {
        let base = match self.peek() {
            K::Name => Type::Named(self.name("NamedType")?),
            K::LBracket => {
                self.bump();
                let inner = self.ty()?;
                self.expect(K::RBracket, "ListType", "']'")?;
                Type::List(Box::new(inner))
            }
            _ => return self.err("Type", "Name or '['"),
        };
        if self.peek() == K::Bang {
            self.bump();
            Ok(Type::NonNull(Box::new(base)))
        } else {
            Ok(base)
        }
    }

    // ---- Type system ----

    fn schema_def(&mut self, description: Option<StrLit>, is_ext: bool) -> R<SchemaDef> {
        self.bump(); // schema
        let directives = self.directives(true)?;
        let mut roots = vec![];
        if self.peek() == K::LCurly {
            self.bump();
            loop {
                let op = match (self.peek(), self.text()) {
                    (K::Name, "query") => OpType::Query,
                    (K::Name, "mutation") => OpType::Mutation,
                    (K::Name, "subscription") => OpType::Subscription,
                    _ => return self.err("RootOperationTypeDefinition", "operation type"),
                };
                self.bump();
                self.expect(K::Colon, "RootOperationTypeDefinition", "':'")?;
                roots.push((op, self.name("RootOperationTypeDefinition")?));
                if self.peek() == K::RCurly {
                    self.bump();
                    break;
                }
            }
        } else if !is_ext {
            return self.err("SchemaDefinition", "'{'");
        } else if directives.is_empty() {
            return self.err("SchemaExtension", "directives or '{'");
        }
        Ok(SchemaDef { is_ext, description, directives, roots })
    }

    fn type_def(&mut self, description: Option<StrLit>, is_ext: bool) -> R<TypeDef> {
        let kind = match self.text() {
            "scalar" => TypeKind::Scalar,
            "type" => TypeKind::Object,
            "interface" => TypeKind::Interface,
            "union" => TypeKind::Union,
            "enum" => TypeKind::Enum,
            _ => TypeKind::InputObject,
        };
        self.bump();
        let name = self.name("TypeDefinition")?;
        let mut t = TypeDef::new(kind, &name);
        t.is_ext = is_ext;
        t.description = description;
        if matches!(kind, TypeKind::Object | TypeKind::Interface) && self.at_kw("implements") {
            self.bump();
            if self.peek() == K::Amp {
                self.bump();
            }
            t.implements.push(self.name("ImplementsInterfaces")?);
            while self.peek() == K::Amp {
                self.bump();
                t.implements.push(self.name("ImplementsInterfaces")?);
            }
        }
        t.directives = self.directives(true)?;
        let mut has_body = false;
        match kind {
            TypeKind::Scalar => {}
            TypeKind::Object | TypeKind::Interface => {
                if self.peek() == K::LCurly {
                    has_body = true;
                    self.bump();
                    loop {
                        t.fields.push(self.field_def()?);
                        if self.peek() == K::RCurly {
                            self.bump();
                            break;
                        }
                    }
                }
            }
            TypeKind::Union => {
                if self.peek() == K::Eq {
                    has_body = true;
                    self.bump();
                    if self.peek() == K::Pipe {
                        self.bump();
                    }
                    t.members.push(self.name("UnionMemberTypes")?);
                    while self.peek() == K::Pipe {
                        self.bump();
                        t.members.push(self.name("UnionMemberTypes")?);
                    }
                }
            }
            TypeKind::Enum => {
                if self.peek() == K::LCurly {
                    has_body = true;
                    self.bump();
                    loop {
                        let description = self.description();
                        if self.peek() != K::Name || matches!(self.text(), "true" | "false" | "null") {
                            return self.err("EnumValueDefinition", "EnumValue");
                        }
                        let name = self.name("EnumValueDefinition")?;
                        let directives = self.directives(true)?;
                        t.values.push(EnumValueDef { description, name, directives });
                        if self.peek() == K::RCurly {
                            self.bump();
                            break;
                        }
                    }
                }
            }
            TypeKind::InputObject => {
                if self.peek() == K::LCurly {
                    has_body = true;
                    self.bump();
                    loop {
                        t.input_fields.push(self.input_value_def()?);
                        if self.peek() == K::RCurly {
                            self.bump();
                            break;
                        }
                    }
                }
            }
        }
        if is_ext && !has_body && t.directives.is_empty() && t.implements.is_empty() {
            return self.err("TypeExtension", "directives, implements or body");
        }
        Ok(t)
    }

    fn field_def(&mut self) -> R<FieldDef> {
        let description = self.description();
        let name = self.name("FieldDefinition")?;
        let args = if self.peek() == K::LParen { self.arguments_def()? } else { vec![] };
        self.expect(K::Colon, "FieldDefinition", "':'")?;
        let ty = self.ty()?;
        let directives = self.directives(true)?;
        Ok(FieldDef { description, name, args, ty, directives })
    }

    fn arguments_def(&mut self) -> R<Vec<InputValueDef>> {
        self.expect(K::LParen, "ArgumentsDefinition", "'('")?;
        let mut out = vec![];
        loop {
            out.push(self.input_value_def()?);
            if self.peek() == K::RParen {
                self.bump();
                break;
            }
        }
        Ok(out)
    }

    fn input_value_def(&mut self) -> R<InputValueDef> {
        let description = self.description();
        let name = self.name("InputValueDefinition")?;
        self.expect(K::Colon, "InputValueDefinition", "':'")?;
        let ty = self.ty()?;
        let default = if self.peek() == K::Eq {
            self.bump();
            Some(self.value(true)?)
        } else {
            None
        };
        let directives = self.directives(true)?;
        Ok(InputValueDef { description, name, ty, default, directives })
    }

    fn directive_def(&mut self, description: Option<StrLit>) -> R<DirectiveDef> {
        self.bump(); // directive
        self.expect(K::At, "DirectiveDefinition", "'@'")?;
        let name = self.name("DirectiveDefinition")?;
        let args = if self.peek() == K::LParen { self.arguments_def()? } else { vec![] };
        let repeatable = if self.at_kw("repeatable") {
            self.bump();
            true
        } else {
            false
        };
        if !self.at_kw("on") {
            return self.err("DirectiveDefinition", "'on'");
        }
        self.bump();
        if self.peek() == K::Pipe {
            self.bump();
        }
        let mut locations = vec![];
        loop {
            if self.peek() != K::Name || !is_directive_location(self.text()) {
                return self.err("DirectiveLocations", "DirectiveLocation");
            }
            locations.push(self.name("DirectiveLocation")?);
            if self.peek() == K::Pipe {
                self.bump();
            } else {
                break;
            }
        }
        Ok(DirectiveDef { description, name, args, repeatable, locations })
    }

    #[allow(dead_code)]
    fn _unused(&self) -> (K, &str) {
        (self.peek_n(1), self.text_n(1))
    }
}

pub fn parse_document(src: &str) -> R<Document> {
    let mut p = P::new(src)?;
    p.document()
}

/// The whole input is exactly one Type.
pub fn parse_type_whole(src: &str) -> R<Type> {
    let mut p = P::new(src)?;
    let t = p.ty()?;
    if !p.at_eof() {
        return p.err("Type", "end of input");
    }
    Ok(t)
}

/// The whole input is exactly one selection set: `{ Selection+ }` or (federation field-set
/// syntax) `Selection+` without the outer braces.
pub fn parse_field_set_whole(src: &str) -> R<Vec<Selection>> {
    let mut p = P::new(src)?;
    let sels = if p.peek() == K::LCurly {
        p.selection_set()?
    } else {
        let mut out = vec![];
        loop {
            out.push(p.selection()?);
            if p.at_eof() {
                break;
            }
        }
        out
    };
    if !p.at_eof() {
        return p.err("SelectionSet", "end of input");
    }
    Ok(sels)
}

#[cfg(test)]
mod tests {
    use super::*;
    fn ok(s: &str) {
        parse_document(s).unwrap_or_else(|e| panic!("{s:?}: {e:?}"));
    }
    fn bad(s: &str) {
        assert!(parse_document(s).is_err(), "{s:?} should be rejected");
    }
    #[test]
    fn grammar_examples() {
        ok("{ a }");
        ok("query Q($a: Int = 1 @d, $b: [T!]!) @x { a: b(c: $a, d: [1, {e: \"f\"}]) @i(if: true) { ...F ... on T { x } ... @s { y } } }");
        ok("fragment F on T @d { a }");
        bad("fragment on on T { a }");
        bad("{ }");
        bad("{ a() }");
        bad("query ($a: Int = $b) { a }");
        bad("{ f(a) }");
        bad("{ f(a: {b}) }");
        bad("schema");
        bad("schema @d");
        ok("schema @d { query: Q }");
        ok("extend schema @d");
        bad("extend schema");
        ok("\"d\" type A implements & B & C @d { \"x\" f(\"y\" a: Int = 1 @d): T @d }");
        ok("type A");
        bad("extend type A");
        ok("extend type A implements B");
        ok("union U = | A | B");
        ok("union U");
        bad("union U =");
        ok("enum E { A B }");
        bad("enum E { true }");
        bad("enum E { }");
        ok("input I { a: Int = 1 }");
        ok("directive @d(a: Int) repeatable on | FIELD | QUERY");
        bad("directive @d on FOO");
        bad("directive @d FIELD");
        bad("\"desc\" query { a }");
        bad("\"desc\" extend type A @d");
        ok("scalar S @d extend scalar S @e");
        bad("extend scalar S");
        ok("type A { f: Int } { a }");
        bad("");
        ok("query { a }");
        ok("{ on }");
        ok("{ ... on on { a } }");
        bad("{ ... on }");
        ok("{ a(b: $c) }");
        bad("type A @d(a: $v)");
        ok("interface I implements J { a: Int }");
    }
    #[test]
    fn standalone() {
        assert!(parse_type_whole("[Int!]!").is_ok());
        assert!(parse_type_whole("Int ]").is_err());
        assert!(parse_type_whole("Int!!").is_err());
        assert!(parse_field_set_whole("a b { c }").is_ok());
        assert!(parse_field_set_whole("{ a }").is_ok());
        assert!(parse_field_set_whole("{ a } b").is_err());
        assert!(parse_field_set_whole("a } b").is_err());
        assert!(parse_field_set_whole("").is_err());
    }
}
