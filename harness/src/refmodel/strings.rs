//! Reference string semantics (October 2021 spec section 2.9.4), char based.
//! `quoted_value`: static semantics of StringValue :: `"` StringCharacter* `"`.
//! `block_string_value`: the BlockStringValue(rawValue) algorithm, steps as in the spec.

/// Decode the token text of a quoted string (including both quotes). Input must be lexically
/// valid (reference lexer accepted it); returns None otherwise.
pub fn quoted_value(token: &str) -> Option<String> {
    let inner = token.strip_prefix('"')?.strip_suffix('"')?;
    let mut out = String::new();
    let mut it = inner.chars();
    while let Some(c) = it.next() {
        if c != '\\' {
            out.push(c);
            continue;
        }
        match it.next()? {
            '"' => out.push('"'),
            '\\' => out.push('\\'),
            '/' => out.push('/'),
            'b' => out.push('\u{0008}'),
            'f' => out.push('\u{000C}'),
            'n' => out.push('\n'),
            'r' => out.push('\r'),
            't' => out.push('\t'),
            'u' => {
                let mut v = 0u32;
                for _ in 0..4 {
                    v = v * 16 + it.next()?.to_digit(16)?;
                }
                out.push(char::from_u32(v)?);
            }
            _ => return None,
        }
    }
    Some(out)
}

/// Decode the token text of a block string (including the `"""` delimiters).
pub fn block_value(token: &str) -> Option<String> {
    let inner = token.strip_prefix("\"\"\"")?.strip_suffix("\"\"\"")?;
    // static semantics: `\"""` is the only escape sequence
    let raw = inner.replace("\\\"\"\"", "\"\"\"");
    Some(block_string_value(&raw))
}

/// BlockStringValue(rawValue)
pub fn block_string_value(raw: &str) -> String {
    // 1. Let lines be the result of splitting rawValue by LineTerminator.
    //    LineTerminator :: \n | \r [lookahead != \n] | \r\n
    let mut lines: Vec<Vec<char>> = vec![vec![]];
    let chars: Vec<char> = raw.chars().collect();
    let mut i = 0;
    while i < chars.len() {
        let c = chars[i];
        if c == '\r' {
            if chars.get(i + 1) == Some(&'\n') {
                i += 1;
            }
            lines.push(vec![]);
        } else if c == '\n' {
            lines.push(vec![]);
        } else {
            lines.last_mut().unwrap().push(c);
        }
        i += 1;
    }
    let is_ws = |c: &char| *c == ' ' || *c == '\t';
    // 2-3. commonIndent over all lines except the first
    let mut common: Option<usize> = None;
    for line in lines.iter().skip(1) {
        let length = line.len();
        let indent = line.iter().take_while(|c| is_ws(c)).count();
        if indent < length {
            if common.map(|c| indent < c).unwrap_or(true) {
                common = Some(indent);
            }
        }
    }
    // 4. remove commonIndent characters from the beginning of each line except the first
    if let Some(ci) = common {
        for line in lines.iter_mut().skip(1) {
            let n = ci.min(line.len());
            line.drain(0..n);
        }
    }
    // 5. while the first line contains only WhiteSpace, remove it
    while lines.first().map(|l| l.iter().all(is_ws)).unwrap_or(false) {
        lines.remove(0);
    }
    // 6. same for the last line
    while lines.last().map(|l| l.iter().all(is_ws)).unwrap_or(false) {
        lines.pop();
    }
    // 7-9. join with U+000A
    let mut out = String::new();
    for (i, l) in lines.iter().enumerate() {
        if i > 0 {
            out.push('\n');
        }
        out.extend(l.iter());
    }
    out
}

/// Value of any string token text.
pub fn token_value(token: &str) -> Option<String> {
    if token.starts_with("\"\"\"") && token.len() >= 6 {
        block_value(token)
    } else {
        quoted_value(token)
    }
}

/// A canonical quoted literal for an arbitrary string (used by the reference printer).
pub fn quote(s: &str) -> String {
    let mut out = String::from("\"");
    for c in s.chars() {
        match c {
            '"' => out.push_str("\\\""),
            '\\' => out.push_str("\\\\"),
            '\n' => out.push_str("\\n"),
            '\r' => out.push_str("\\r"),
            '\t' => out.push_str("\\t"),
            '\u{0008}' => out.push_str("\\b"),
            '\u{000C}' => out.push_str("\\f"),
            c if (c as u32) < 0x20 || c as u32 == 0x7f => out.push_str(&format!("\\u{:04X}", c as u32)),
            c => out.push(c),
        }
    }
    out.push('"');
    out
}

#[cfg(test)]
mod tests {
    use super::*;
    #[test]
    fn spec_block_example() {
        let raw = "\n    Hello,\n      World!\n\n    Yours,\n      GraphQL.\n  ";
        assert_eq!(block_string_value(raw), "Hello,\n  World!\n\nYours,\n  GraphQL.");
        assert_eq!(block_string_value("a\r\nb\rc"), "a\nb\nc");
        assert_eq!(block_string_value("  a\n  b"), "  a\nb");
        assert_eq!(block_string_value("\n\n  \n"), "");
        assert_eq!(block_string_value("\t a\n\t  b\n\t c"), "\t a\n b\nc");
        assert_eq!(block_value("\"\"\"a \\\"\"\" b \\n\"\"\"").unwrap(), "a \"\"\" b \\n");
    }
    #[test]
    fn quoted() {
        assert_eq!(quoted_value("\"a\\n\\u00e9\\/\\\"\"").unwrap(), "a\né/\"");
        assert_eq!(quoted_value(&quote("x\"\\\n\u{1}é")).unwrap(), "x\"\\\n\u{1}é");
    }
}
