//! Reference implementation of the October 2021 operation validation rules (spec section 5),
//! written from the specification text. Independent of apollo: works on the reference AST and
//! `RefSchema` only.
//!
//! The verdict is three-valued. `Invalid` carries the set of rule codes (DESIGN.md Appendix B);
//! `Unspecified` is returned when no rule is definitely violated but the document contains a
//! construct on which the specification text and graphql-js differ or are silent (listed at
//! `Report::unspecified`).
//!
//! Documented, deliberate apollo-compiler differences that are ENCODED here (and only these):
//!  * an operation whose root operation type is not defined by the schema is invalid
//!    (`E.rootTypeDefined`);
//!  * `@skip` / `@include` on a selection among a subscription's root selections is invalid
//!    (`E.subscriptionSingleRoot.conditional`);
//!  * a fragment whose type condition equals the parent type can always be spread (graphql-js
//!    does the same; the spec text would reject it for an interface without implementers).
//! apollo's own `@defer` rules are not modelled: a document that applies `@defer` / `@stream` is
//! `Unspecified` unless it violates some other rule.
//!
//! The schema is assumed to be valid.

use super::ast::*;
use super::schema::{is_variable_usage_allowed, RefSchema, BUILTIN_SCALARS};
use std::collections::{BTreeMap, BTreeSet};

#[derive(Clone, Debug, PartialEq)]
pub enum Verdict {
    Valid,
    Invalid(BTreeSet<String>),
    Unspecified(Vec<String>),
}

impl Verdict {
    pub fn is_valid(&self) -> bool {
        matches!(self, Verdict::Valid)
    }
    pub fn codes(&self) -> Vec<String> {
        match self {
            Verdict::Invalid(c) => c.iter().cloned().collect(),
            _ => vec![],
        }
    }
    pub fn label(&self) -> &'static str {
        match self {
            Verdict::Valid => "valid",
            Verdict::Invalid(_) => "invalid",
            Verdict::Unspecified(_) => "unspecified",
        }
    }
}

#[derive(Clone, Debug, Default)]
pub struct Report {
    pub codes: BTreeSet<String>,
    pub unspecified: Vec<String>,
}

impl Report {
    pub fn verdict(&self) -> Verdict {
        if !self.codes.is_empty() {
            Verdict::Invalid(self.codes.clone())
        } else if !self.unspecified.is_empty() {
            Verdict::Unspecified(self.unspecified.clone())
        } else {
            Verdict::Valid
        }
    }
}

#[derive(Clone, Copy, Debug, PartialEq, Eq)]
pub enum Pos {
    Top,
    ListItem,
    InputField,
}

impl Pos {
    fn code(self) -> &'static str {
        match self {
            Pos::Top => "top",
            Pos::ListItem => "listItem",
            Pos::InputField => "inputField",
        }
    }
}

/// One variable usage inside an operation or a fragment definition.
#[derive(Clone, Debug)]
struct Usage {
    name: String,
    /// expected type of the position, whether the position (argument / input field) has a default
    /// value, and the kind of position; `None` when the position's type is unknown (undefined
    /// argument, undefined field, ...)
    loc: Option<(Type, bool, Pos)>,
}

#[derive(Default)]
struct Scope {
    usages: Vec<Usage>,
    spreads: Vec<String>,
}

/// Result of comparing two argument values of fields that must merge.
#[derive(Clone, Debug, PartialEq)]
pub enum Cmp {
    Same,
    Diff(&'static str),
    /// equal under one reasonable reading of "identical", different under another
    Unsure(&'static str),
}

struct V<'a> {
    s: &'a RefSchema,
    frags: BTreeMap<&'a str, &'a FragmentDef>,
    codes: BTreeSet<String>,
    unspec: Vec<String>,
    has_cycle: bool,
    budget: u64,
}

pub fn validate(schema: &RefSchema, doc: &Document) -> Verdict {
    report(schema, doc).verdict()
}

pub fn report(schema: &RefSchema, doc: &Document) -> Report {
    let mut v = V { s: schema, frags: BTreeMap::new(), codes: BTreeSet::new(), unspec: vec![], has_cycle: false, budget: 400_000 };
    v.document(doc);
    let mut unspec = v.unspec;
    unspec.sort();
    unspec.dedup();
    Report { codes: v.codes, unspecified: unspec }
}

fn directive_named<'x>(ds: &'x [Directive], n: &str) -> Option<&'x Directive> {
    ds.iter().find(|d| d.name == n)
}

fn selection_directives(sel: &Selection) -> &[Directive] {
    match sel {
        Selection::Field(f) => &f.directives,
        Selection::Spread(s) => &s.directives,
        Selection::Inline(i) => &i.directives,
    }
}

impl<'a> V<'a> {
    fn code(&mut self, c: impl Into<String>) {
        self.codes.insert(c.into());
    }
    fn unspecified(&mut self, why: &str) {
        self.unspec.push(why.to_string());
    }

    fn document(&mut self, doc: &'a Document) {
        // 5.1.1 Executable Definitions
        if doc.defs.iter().any(|d| !d.is_executable()) {
            self.code("E.execOnly");
        }
        let ops: Vec<&OperationDef> = doc.defs.iter().filter_map(|d| if let Definition::Operation(o) = d { Some(o) } else { None }).collect();
        let frag_defs: Vec<&FragmentDef> = doc.defs.iter().filter_map(|d| if let Definition::Fragment(f) = d { Some(f) } else { None }).collect();

        // 5.2.1.1 Operation Name Uniqueness, 5.2.2.1 Lone Anonymous Operation
        let mut names: BTreeSet<&str> = BTreeSet::new();
        for o in &ops {
            if let Some(n) = &o.name {
                if !names.insert(n) {
                    self.code("E.opNameUnique");
                }
            }
        }
        if ops.iter().any(|o| o.name.is_none()) && ops.len() > 1 {
            self.code("E.loneAnonymous");
        }
        // 5.5.1.1 Fragment Name Uniqueness
        for f in &frag_defs {
            if self.frags.contains_key(f.name.as_str()) {
                self.code("E.fragUnique");
            } else {
                self.frags.insert(&f.name, f);
            }
        }

        // 5.5.2.2 Fragment spreads must not form cycles (whole spread graph, used or not)
        self.has_cycle = self.detect_cycles(&frag_defs);
        if self.has_cycle {
            self.code("E.fragCycle");
        }

        // scopes: per fragment definition and per operation
        let mut frag_scopes: BTreeMap<String, Scope> = BTreeMap::new();
        for f in &frag_defs {
            let mut sc = Scope::default();
            // 5.5.1.2 / 5.5.1.3
            let parent = self.type_condition(&f.type_condition);
            self.directives(&f.directives, "FRAGMENT_DEFINITION", &mut sc);
            self.selection_set(parent, &f.selection_set, &mut sc);
            // a duplicate definition is still validated, but only the first is a spread target
            if std::ptr::eq(*self.frags.get(f.name.as_str()).unwrap(), *f) {
                frag_scopes.insert(f.name.clone(), sc);
            }
        }

        let mut used_frags: BTreeSet<String> = BTreeSet::new();
        for o in &ops {
            let mut sc = Scope::default();
            let loc = match o.op {
                OpType::Query => "QUERY",
                OpType::Mutation => "MUTATION",
                OpType::Subscription => "SUBSCRIPTION",
            };
            self.directives(&o.directives, loc, &mut sc);
            self.variable_definitions(&o.vars);
            let root: Option<&str> = match self.s.root(o.op) {
                Some(r) if self.s.kind(r) == Some(TypeKind::Object) => Some(r),
                _ => {
                    // encoded apollo difference
                    self.code("E.rootTypeDefined");
                    None
                }
            };
            self.selection_set(root, &o.selection_set, &mut sc);
            if o.op == OpType::Subscription {
                if let Some(r) = root {
                    self.subscription(r, o);
                }
            }

            // fragments reachable from this operation
            let mut reach: Vec<String> = vec![];
            let mut stack: Vec<String> = sc.spreads.clone();
            while let Some(n) = stack.pop() {
                if reach.contains(&n) {
                    continue;
                }
                if let Some(fs) = frag_scopes.get(&n) {
                    stack.extend(fs.spreads.iter().cloned());
                }
                reach.push(n);
            }
            // 5.8.3 All Variable Uses Defined, 5.8.4 All Variables Used, 5.8.5 usages allowed
            let mut used_vars: BTreeSet<&str> = BTreeSet::new();
            let mut all_usages: Vec<&Usage> = sc.usages.iter().collect();
            for n in &reach {
                if let Some(fs) = frag_scopes.get(n) {
                    all_usages.extend(fs.usages.iter());
                }
            }
            for u in all_usages {
                used_vars.insert(&u.name);
                let Some(def) = o.vars.iter().find(|d| d.name == u.name) else {
                    self.code("E.varDefined");
                    continue;
                };
                let Some((loc_ty, has_default, pos)) = &u.loc else { continue };
                if !self.s.is_input_named(def.ty.inner_name()) {
                    continue; // E.varInputType already
                }
                if !is_variable_usage_allowed(&def.ty, def.default.as_ref(), loc_ty, *has_default) {
                    // which clause failed: only the `null` default (apollo finding) or more
                    // (sub-reason only for top-level positions: at nested positions the default
                    // plays no role in what distinguishes implementations)
                    let with_any_default = is_variable_usage_allowed(&def.ty, Some(&Value::Int("0".into())), loc_ty, *has_default);
                    let sub = if *pos == Pos::Top && def.default == Some(Value::Null) && with_any_default { ".default-null" } else { "" };
                    self.code(format!("E.varPosition.{}{}", pos.code(), sub));
                }
            }
            for d in &o.vars {
                if !used_vars.contains(d.name.as_str()) {
                    self.code("E.varUnused");
                }
            }
            used_frags.extend(reach);
        }
        // 5.5.1.4 Fragments Must Be Used
        for f in &frag_defs {
            if !used_frags.contains(&f.name) {
                self.code("E.fragUnused");
            }
        }
    }

    /// Returns true when the spread graph has a cycle.
    fn detect_cycles(&self, frag_defs: &[&'a FragmentDef]) -> bool {
        fn spreads_of<'x>(sels: &'x [Selection], out: &mut Vec<&'x str>) {
            for s in sels {
                match s {
                    Selection::Field(f) => spreads_of(&f.selection_set, out),
                    Selection::Inline(i) => spreads_of(&i.selection_set, out),
                    Selection::Spread(sp) => out.push(&sp.name),
                }
            }
        }
        // colours: 0 unvisited, 1 on stack, 2 done
        let mut colour: BTreeMap<&str, u8> = BTreeMap::new();
        fn dfs<'x>(n: &'x str, frags: &BTreeMap<&'x str, &'x FragmentDef>, colour: &mut BTreeMap<&'x str, u8>) -> bool {
            match colour.get(n) {
                Some(1) => return true,
                Some(2) => return false,
                _ => {}
            }
            let Some(f) = frags.get(n) else { return false };
            colour.insert(n, 1);
            let mut out = vec![];
            spreads_of(&f.selection_set, &mut out);
            for m in out {
                if dfs(m, frags, colour) {
                    return true;
                }
            }
            colour.insert(n, 2);
            false
        }
        for f in frag_defs {
            if dfs(&f.name, &self.frags, &mut colour) {
                return true;
            }
        }
        false
    }

    /// 5.5.1.2 Fragment Spread Type Existence, 5.5.1.3 Fragments On Composite Types.
    /// Returns the type to validate the fragment's selections against.
    fn type_condition(&mut self, name: &'a str) -> Option<&'a str> {
        match self.s.kind(name) {
            None => {
                self.code("E.fragTypeExists");
                None
            }
            Some(TypeKind::Object | TypeKind::Interface | TypeKind::Union) => Some(name),
            Some(_) => {
                self.code("E.fragOnComposite");
                None
            }
        }
    }

    fn variable_definitions(&mut self, vars: &'a [VarDef]) {
        let mut seen: BTreeSet<&str> = BTreeSet::new();
        for v in vars {
            // 5.8.1 Variable Uniqueness
            if !seen.insert(&v.name) {
                self.code("E.varUnique");
            }
            let mut dummy = Scope::default();
            self.directives(&v.directives, "VARIABLE_DEFINITION", &mut dummy);
            if !dummy.usages.is_empty() {
                // Directives[Const]: the reference parser rejects this before validation
                self.code("E.syntax");
            }
            // 5.8.2 Variables Are Input Types
            if !self.s.is_input_named(v.ty.inner_name()) {
                self.code("E.varInputType");
                continue;
            }
            if let Some(d) = &v.default {
                self.object_fields_unique(d);
                let mut sc = Scope::default();
                self.value(d, &v.ty, false, Pos::Top, &mut sc);
                if !sc.usages.is_empty() {
                    self.code("E.syntax");
                }
            }
        }
    }

    fn selection_set(&mut self, parent: Option<&str>, sels: &'a [Selection], sc: &mut Scope) {
        // 5.3.2 Field Selection Merging: "Let set be any selection set defined in the document"
        if let Some(p) = parent {
            if !self.has_cycle {
                let mut set = vec![];
                let mut visited = BTreeSet::new();
                self.collect(Some(p.to_string()), sels, &mut visited, &mut set);
                self.fields_in_set_can_merge(&set, 0);
            }
        }
        for sel in sels {
            match sel {
                Selection::Field(f) => self.field(parent, f, sc),
                Selection::Spread(sp) => {
                    self.directives(&sp.directives, "FRAGMENT_SPREAD", sc);
                    sc.spreads.push(sp.name.clone());
                    match self.frags.get(sp.name.as_str()).copied() {
                        // 5.5.2.1 Fragment spread target defined
                        None => self.code("E.fragUndefined"),
                        Some(fd) => {
                            if let Some(p) = parent {
                                if self.s.is_composite(&fd.type_condition) {
                                    self.spread_possible(p, &fd.type_condition);
                                }
                            }
                        }
                    }
                }
                Selection::Inline(inl) => {
                    self.directives(&inl.directives, "INLINE_FRAGMENT", sc);
                    let inner: Option<&str> = match &inl.type_condition {
                        None => parent,
                        Some(tc) => {
                            let t = self.type_condition(tc);
                            if let (Some(p), Some(t)) = (parent, t) {
                                self.spread_possible(p, t);
                            }
                            t
                        }
                    };
                    self.selection_set(inner, &inl.selection_set, sc);
                }
            }
        }
    }

    /// 5.5.2.3 Fragment spread is possible
    fn spread_possible(&mut self, parent: &str, cond: &str) {
        if parent == cond {
            return; // encoded: always applies (graphql-js doTypesOverlap, apollo)
        }
        let a = self.s.possible_types(parent);
        let b = self.s.possible_types(cond);
        if !a.iter().any(|x| b.contains(x)) {
            self.code("E.spreadImpossible");
        }
    }

    fn field(&mut self, parent: Option<&str>, f: &'a Field, sc: &mut Scope) {
        self.directives(&f.directives, "FIELD", sc);
        self.arg_unique(&f.args);
        let def = parent.and_then(|p| self.s.field(p, &f.name));
        let Some(def) = def else {
            if parent.is_some() {
                // 5.3.1 Field Selections
                self.code("E.fieldDefined");
            }
            // nothing below can be typed; variable usages still count as usages
            for (_, v) in &f.args {
                untyped_usages(v, sc);
            }
            self.selection_set(None, &f.selection_set, sc);
            return;
        };
        self.arguments(&f.args, &def.args, sc);
        // 5.3.3 Leaf Field Selections
        let inner = def.ty.inner_name().to_string();
        if self.s.is_leaf(&inner) {
            if !f.selection_set.is_empty() {
                self.code("E.leaf.subselectionOnLeaf");
            }
            self.selection_set(None, &f.selection_set, sc);
        } else if self.s.is_composite(&inner) {
            if f.selection_set.is_empty() {
                self.code("E.leaf.missingSubselection");
            }
            self.selection_set(Some(&inner), &f.selection_set, sc);
        } else {
            self.selection_set(None, &f.selection_set, sc);
        }
    }

    /// 5.4.2 Argument Uniqueness; 5.6.3 Input Object Field Uniqueness ("for each input object
    /// value in the document": every object literal, whatever type is expected there)
    fn arg_unique(&mut self, args: &[(String, Value)]) {
        let mut seen: BTreeSet<&str> = BTreeSet::new();
        for (n, v) in args {
            if !seen.insert(n) {
                self.code("E.argUnique");
            }
            self.object_fields_unique(v);
        }
    }

    fn object_fields_unique(&mut self, v: &Value) {
        match v {
            Value::List(l) => l.iter().for_each(|x| self.object_fields_unique(x)),
            Value::Object(o) => {
                let mut seen: BTreeSet<&str> = BTreeSet::new();
                for (k, x) in o {
                    if !seen.insert(k) {
                        self.code("E.inputFieldUnique");
                    }
                    self.object_fields_unique(x);
                }
            }
            _ => {}
        }
    }

    /// 5.4.1 Argument Names, 5.4.2.1 Required Arguments, 5.6.1 values, variable usages
    fn arguments(&mut self, args: &'a [(String, Value)], defs: &[InputValueDef], sc: &mut Scope) {
        for (n, v) in args {
            match defs.iter().find(|d| d.name == *n) {
                None => {
                    self.code("E.argKnown");
                    untyped_usages(v, sc);
                }
                Some(d) => self.value(v, &d.ty, d.default.is_some(), Pos::Top, sc),
            }
        }
        for d in defs {
            if d.ty.is_non_null() && d.default.is_none() {
                match args.iter().find(|(n, _)| *n == d.name) {
                    None => self.code("E.argRequired"),
                    Some((_, Value::Null)) => self.code("E.argRequired"),
                    _ => {}
                }
            }
        }
    }

    /// 5.7 Directives
    fn directives(&mut self, ds: &'a [Directive], location: &str, sc: &mut Scope) {
        let mut seen: BTreeSet<&str> = BTreeSet::new();
        for d in ds {
            self.arg_unique(&d.args);
            if d.name == "defer" || d.name == "stream" {
                // apollo applies the rules of the incremental-delivery proposal to @defer
                // (documented difference); they are not modelled here
                self.unspecified("@defer / @stream");
            }
            let Some(def) = self.s.directive(&d.name).cloned() else {
                // 5.7.1 Directives Are Defined
                self.code("E.dirKnown");
                for (_, v) in &d.args {
                    untyped_usages(v, sc);
                }
                continue;
            };
            // 5.7.2 Directives Are In Valid Locations
            if !def.locations.iter().any(|l| l == location) {
                self.code("E.dirLocation");
            }
            // 5.7.3 Directives Are Unique Per Location
            if !seen.insert(&d.name) && !def.repeatable {
                self.code("E.dirUnique");
            }
            self.arguments(&d.args, &def.args, sc);
        }
    }

    /// 5.6.1 Values of Correct Type (literal coercion), 5.6.2–5.6.4 input objects; records the
    /// variable usages with the expected type of their position.
    fn value(&mut self, v: &Value, ty: &Type, has_default: bool, pos: Pos, sc: &mut Scope) {
        match v {
            Value::Var(n) => {
                sc.usages.push(Usage { name: n.clone(), loc: Some((ty.clone(), has_default, pos)) });
                return;
            }
            Value::Null => {
                if ty.is_non_null() {
                    self.code("E.value.null->NonNull");
                }
                return;
            }
            _ => {}
        }
        match ty.nullable() {
            Type::NonNull(_) => unreachable!("nullable() strips NonNull"),
            Type::List(item) => match v {
                Value::List(items) => {
                    for it in items {
                        if item.is_list() && !matches!(it, Value::List(_) | Value::Null | Value::Var(_)) {
                            // `[1, 2]` for `[[Int]]`: the October 2021 table of 3.11 says "Error:
                            // Incorrect item value", its prose and later editions coerce each item
                            // to a list of one (as graphql-js does)
                            self.unspecified("non-list item inside a list literal whose item type is a list");
                        }
                        self.value(it, item, false, Pos::ListItem, sc);
                    }
                }
                // a non-list, non-null value is coerced as a list of one item
                single => self.value(single, item, false, Pos::ListItem, sc),
            },
            Type::Named(n) => self.named_value(v, n, sc),
        }
    }

    fn named_value(&mut self, v: &Value, n: &str, sc: &mut Scope) {
        let kind = value_kind(v);
        let Some(td) = self.s.get(n) else {
            untyped_usages(v, sc);
            return;
        };
        match td.kind {
            TypeKind::Scalar if !BUILTIN_SCALARS.contains(&n) => {
                // custom scalar: every literal may be accepted by its (unknown) coercion
                if v.contains_var() {
                    untyped_usages(v, sc);
                    self.unspecified("variable inside a literal for a custom scalar");
                }
            }
            TypeKind::Scalar => {
                let ok = match (n, v) {
                    ("Int", Value::Int(t)) => match t.parse::<i64>() {
                        Ok(x) if x >= i32::MIN as i64 && x <= i32::MAX as i64 => true,
                        _ => {
                            self.code("E.value.int->Int.range");
                            return;
                        }
                    },
                    ("Float", Value::Int(t)) | ("Float", Value::Float(t)) => {
                        match t.parse::<f64>() {
                            Ok(x) if x.is_finite() => {}
                            _ => self.unspecified("numeric literal not representable as a finite f64"),
                        }
                        true
                    }
                    ("String", Value::Str(_)) => true,
                    ("Boolean", Value::Bool(_)) => true,
                    ("ID", Value::Str(_)) | ("ID", Value::Int(_)) => true,
                    _ => false,
                };
                if !ok {
                    untyped_usages(v, sc);
                    self.code(format!("E.value.{}->{}", kind, n));
                }
            }
            TypeKind::Enum => match v {
                Value::Enum(e) => {
                    if !td.values.iter().any(|x| x.name == *e) {
                        self.code("E.value.enum->Enum.unknown");
                    }
                }
                _ => {
                    untyped_usages(v, sc);
                    self.code(format!("E.value.{}->Enum", kind));
                }
            },
            TypeKind::InputObject => match v {
                Value::Object(fields) => {
                    let td = td.clone();
                    for (fname, fv) in fields {
                        match td.input_fields.iter().find(|d| d.name == *fname) {
                            // 5.6.2 Input Object Field Names
                            None => {
                                self.code("E.inputFieldKnown");
                                untyped_usages(fv, sc);
                            }
                            Some(d) => self.value(fv, &d.ty, d.default.is_some(), Pos::InputField, sc),
                        }
                    }
                    // 5.6.4 Input Object Required Fields
                    for d in &td.input_fields {
                        if d.ty.is_non_null() && d.default.is_none() {
                            match fields.iter().find(|(k, _)| *k == d.name) {
                                None | Some((_, Value::Null)) => self.code("E.inputFieldRequired"),
                                _ => {}
                            }
                        }
                    }
                }
                _ => {
                    untyped_usages(v, sc);
                    self.code(format!("E.value.{}->InputObject", kind));
                }
            },
            // not an input type: only reachable through an invalid variable type (skipped before)
            _ => untyped_usages(v, sc),
        }
    }

    // ---------------------------------------------------------------------------------------
    // 5.2.3.1 Single root field

    fn subscription(&mut self, root: &str, o: &'a OperationDef) {
        // (a) CollectFields(subscriptionType, selectionSet) as in spec 6.3.2, ignoring directives
        let mut grouped: Vec<(&str, &Field)> = vec![];
        let mut visited: BTreeSet<&str> = BTreeSet::new();
        let mut cond_typed = false;
        self.collect_sub(root, &o.selection_set, true, &mut visited, &mut grouped, &mut cond_typed);
        // (b) the same walk without DoesFragmentTypeApply (what a purely syntactic walk sees)
        let mut grouped2 = vec![];
        let mut visited2 = BTreeSet::new();
        let mut cond_untyped = false;
        self.collect_sub(root, &o.selection_set, false, &mut visited2, &mut grouped2, &mut cond_untyped);
        if cond_typed {
            // encoded apollo difference
            self.code("E.subscriptionSingleRoot.conditional");
            return;
        }
        if cond_untyped {
            self.unspecified("@skip/@include under a fragment that does not apply to the subscription root type");
        }
        let mut keys: Vec<&str> = vec![];
        for (k, _) in &grouped {
            if !keys.contains(k) {
                keys.push(k);
            }
        }
        if keys.len() != 1 {
            self.code("E.subscriptionSingleRoot.count");
        } else if grouped[0].1.name.starts_with("__") {
            self.code("E.subscriptionSingleRoot.introspection");
        }
    }

    fn collect_sub(&self, root: &str, sels: &'a [Selection], typed: bool, visited: &mut BTreeSet<&'a str>, out: &mut Vec<(&'a str, &'a Field)>, conditional: &mut bool) {
        for sel in sels {
            let ds = selection_directives(sel);
            if directive_named(ds, "skip").is_some() || directive_named(ds, "include").is_some() {
                *conditional = true;
            }
            match sel {
                Selection::Field(f) => out.push((f.response_key(), f)),
                Selection::Spread(sp) => {
                    if !visited.insert(&sp.name) {
                        continue;
                    }
                    let Some(fd) = self.frags.get(sp.name.as_str()).copied() else { continue };
                    if typed && !self.does_fragment_type_apply(root, &fd.type_condition) {
                        continue;
                    }
                    self.collect_sub(root, &fd.selection_set, typed, visited, out, conditional);
                }
                Selection::Inline(i) => {
                    if let Some(tc) = &i.type_condition {
                        if typed && !self.does_fragment_type_apply(root, tc) {
                            continue;
                        }
                    }
                    self.collect_sub(root, &i.selection_set, typed, visited, out, conditional);
                }
            }
        }
    }

    /// DoesFragmentTypeApply(objectType, fragmentType) (spec 6.3.2)
    fn does_fragment_type_apply(&self, object: &str, frag_ty: &str) -> bool {
        match self.s.kind(frag_ty) {
            Some(TypeKind::Object) => object == frag_ty,
            Some(TypeKind::Interface) => self.s.get(object).map(|t| t.implements.iter().any(|i| i == frag_ty)).unwrap_or(false),
            Some(TypeKind::Union) => self.s.get(frag_ty).map(|t| t.members.iter().any(|m| m == object)).unwrap_or(false),
            _ => false,
        }
    }

    // ---------------------------------------------------------------------------------------
    // 5.3.2 Field Selection Merging (naive pairwise algorithm of the spec text)

    /// "the set of selections with a given response name in set including visiting fragments
    /// and inline fragments": every field with the type of its enclosing selection set.
    fn collect(&self, parent: Option<String>, sels: &'a [Selection], visited: &mut BTreeSet<&'a str>, out: &mut Vec<(Option<String>, &'a Field)>) {
        for sel in sels {
            match sel {
                Selection::Field(f) => out.push((parent.clone(), f)),
                Selection::Inline(i) => {
                    let p = match &i.type_condition {
                        None => parent.clone(),
                        Some(tc) if self.s.is_composite(tc) => Some(tc.clone()),
                        Some(_) => None,
                    };
                    self.collect(p, &i.selection_set, visited, out);
                }
                Selection::Spread(sp) => {
                    if !visited.insert(&sp.name) {
                        continue;
                    }
                    if let Some(fd) = self.frags.get(sp.name.as_str()).copied() {
                        let p = if self.s.is_composite(&fd.type_condition) { Some(fd.type_condition.clone()) } else { None };
                        self.collect(p, &fd.selection_set, visited, out);
                    }
                }
            }
        }
    }

    fn sub_set(&self, a: &(Option<String>, &'a Field), out: &mut Vec<(Option<String>, &'a Field)>) {
        let Some(p) = &a.0 else { return };
        let Some(def) = self.s.field(p, &a.1.name) else { return };
        let inner = def.ty.inner_name().to_string();
        let parent = if self.s.is_composite(&inner) { Some(inner) } else { None };
        let mut visited = BTreeSet::new();
        // fragments are visited once per field's selection set; a fragment reached from both
        // fields contributes the same selections twice, which is harmless for a pairwise check
        self.collect(parent, &a.1.selection_set, &mut visited, out);
    }

    fn fields_in_set_can_merge(&mut self, set: &[(Option<String>, &'a Field)], depth: usize) {
        if depth > 64 {
            self.unspecified("field merging deeper than 64 levels");
            return;
        }
        let mut groups: BTreeMap<&str, Vec<usize>> = BTreeMap::new();
        for (i, (_, f)) in set.iter().enumerate() {
            groups.entry(f.response_key()).or_default().push(i);
        }
        for idxs in groups.values() {
            for (x, &i) in idxs.iter().enumerate() {
                for &j in &idxs[x + 1..] {
                    if self.budget == 0 {
                        self.unspecified("field merging budget exhausted");
                        return;
                    }
                    self.budget -= 1;
                    let (a, b) = (&set[i], &set[j]);
                    if std::ptr::eq(a.1, b.1) {
                        continue; // the same selection reached twice
                    }
                    let (Some(pa), Some(pb)) = (&a.0, &b.0) else { continue };
                    self.same_response_shape(a, b, depth);
                    let both_objects_differ = pa != pb && self.s.kind(pa) == Some(TypeKind::Object) && self.s.kind(pb) == Some(TypeKind::Object);
                    if !both_objects_differ {
                        if a.1.name != b.1.name {
                            self.code("E.merge.name");
                        }
                        match diff_args(&a.1.args, &b.1.args) {
                            Cmp::Same => {}
                            Cmp::Diff(sub) => self.code(format!("E.merge.args.{}", sub)),
                            Cmp::Unsure(why) => self.unspecified(&format!("field merging: arguments {}", why)),
                        }
                        let mut merged = vec![];
                        self.sub_set(a, &mut merged);
                        self.sub_set(b, &mut merged);
                        if !merged.is_empty() {
                            self.fields_in_set_can_merge(&merged, depth + 1);
                        }
                    }
                }
            }
        }
    }

    fn same_response_shape(&mut self, a: &(Option<String>, &'a Field), b: &(Option<String>, &'a Field), depth: usize) {
        if depth > 64 {
            self.unspecified("field merging deeper than 64 levels");
            return;
        }
        let (Some(pa), Some(pb)) = (&a.0, &b.0) else { return };
        let (Some(da), Some(db)) = (self.s.field(pa, &a.1.name), self.s.field(pb, &b.1.name)) else { return };
        let (mut ta, mut tb) = (&da.ty, &db.ty);
        loop {
            if ta.is_non_null() || tb.is_non_null() {
                if !(ta.is_non_null() && tb.is_non_null()) {
                    self.code("E.merge.shape.nonnull");
                    return;
                }
                ta = ta.nullable();
                tb = tb.nullable();
            }
            match (ta, tb) {
                (Type::List(ia), Type::List(ib)) => {
                    ta = ia;
                    tb = ib;
                }
                (Type::List(_), _) | (_, Type::List(_)) => {
                    self.code("E.merge.shape.list");
                    return;
                }
                _ => break,
            }
        }
        let (na, nb) = (ta.inner_name(), tb.inner_name());
        let (la, lb) = (self.s.is_leaf(na), self.s.is_leaf(nb));
        if la || lb {
            if la && lb {
                if na != nb {
                    self.code("E.merge.shape.leaf-type");
                }
            } else {
                self.code("E.merge.shape.leaf-vs-composite");
            }
            return;
        }
        if !(self.s.is_composite(na) && self.s.is_composite(nb)) {
            return;
        }
        let mut merged = vec![];
        self.sub_set(a, &mut merged);
        self.sub_set(b, &mut merged);
        let mut groups: BTreeMap<&str, Vec<usize>> = BTreeMap::new();
        for (i, (_, f)) in merged.iter().enumerate() {
            groups.entry(f.response_key()).or_default().push(i);
        }
        for idxs in groups.values() {
            for (x, &i) in idxs.iter().enumerate() {
                for &j in &idxs[x + 1..] {
                    if self.budget == 0 {
                        self.unspecified("field merging budget exhausted");
                        return;
                    }
                    self.budget -= 1;
                    if std::ptr::eq(merged[i].1, merged[j].1) {
                        continue;
                    }
                    let (x, y) = (merged[i].clone(), merged[j].clone());
                    self.same_response_shape(&x, &y, depth + 1);
                }
            }
        }
    }
}

fn value_kind(v: &Value) -> &'static str {
    match v {
        Value::Var(_) => "variable",
        Value::Int(_) => "int",
        Value::Float(_) => "float",
        Value::Str(_) => "string",
        Value::Bool(_) => "boolean",
        Value::Null => "null",
        Value::Enum(_) => "enum",
        Value::List(_) => "list",
        Value::Object(_) => "object",
    }
}

/// Variable usages in a value whose expected type is unknown.
fn untyped_usages(v: &Value, sc: &mut Scope) {
    match v {
        Value::Var(n) => sc.usages.push(Usage { name: n.clone(), loc: None }),
        Value::List(l) => l.iter().for_each(|x| untyped_usages(x, sc)),
        Value::Object(o) => o.iter().for_each(|(_, x)| untyped_usages(x, sc)),
        _ => {}
    }
}

/// "fieldA and fieldB must have identical sets of arguments" (5.3.2).
pub fn diff_args(a: &[(String, Value)], b: &[(String, Value)]) -> Cmp {
    let mut unsure: Option<&'static str> = None;
    let mut diff: Option<&'static str> = None;
    for (n, va) in a {
        match b.iter().find(|(m, _)| m == n) {
            None => diff = diff.or(Some("missing")),
            Some((_, vb)) => match diff_value(va, vb) {
                Cmp::Same => {}
                Cmp::Diff(s) => diff = diff.or(Some(s)),
                Cmp::Unsure(s) => unsure = unsure.or(Some(s)),
            },
        }
    }
    for (n, _) in b {
        if !a.iter().any(|(m, _)| m == n) {
            diff = diff.or(Some("missing"));
        }
    }
    // duplicate argument names are invalid by themselves; their comparison is not defined
    let dup = |x: &[(String, Value)]| x.iter().enumerate().any(|(i, (n, _))| x[..i].iter().any(|(m, _)| m == n));
    if dup(a) || dup(b) {
        return match diff {
            Some(d) => Cmp::Diff(d),
            None => Cmp::Unsure("with duplicate names"),
        };
    }
    match (diff, unsure) {
        (Some(d), _) => Cmp::Diff(d),
        (None, Some(u)) => Cmp::Unsure(u),
        _ => Cmp::Same,
    }
}

fn num(t: &str) -> Option<f64> {
    t.parse::<f64>().ok().filter(|x| x.is_finite())
}

/// Are two argument values "identical"? `Same` only for textually identical values; `Diff` only
/// when they differ under every reading (different kinds, different semantic values); `Unsure`
/// for values that are semantically equal but written differently (graphql-js compares printed
/// text, later graphql-js versions sort object fields, apollo compares semantically).
pub fn diff_value(a: &Value, b: &Value) -> Cmp {
    match (a, b) {
        (Value::Var(x), Value::Var(y)) => {
            if x == y {
                Cmp::Same
            } else {
                Cmp::Diff("variable")
            }
        }
        (Value::Var(_), _) | (_, Value::Var(_)) => Cmp::Diff("variable"),
        (Value::Int(x), Value::Int(y)) | (Value::Float(x), Value::Float(y)) => {
            if x == y {
                return Cmp::Same;
            }
            match (num(x), num(y)) {
                (Some(p), Some(q)) if p != q => Cmp::Diff("literal"),
                // exact comparison of long integer literals: compare digit strings
                _ => {
                    if matches!(a, Value::Int(_)) && x.trim_start_matches('-') != y.trim_start_matches('-') {
                        Cmp::Diff("literal")
                    } else {
                        Cmp::Unsure("numerically equal, textually different")
                    }
                }
            }
        }
        (Value::Int(x), Value::Float(y)) | (Value::Float(x), Value::Int(y)) => match (num(x), num(y)) {
            (Some(p), Some(q)) if p != q => Cmp::Diff("literal"),
            _ => Cmp::Unsure("Int and Float literal of equal value"),
        },
        (Value::Str(x), Value::Str(y)) => {
            if x.raw == y.raw {
                Cmp::Same
            } else if x.value != y.value {
                Cmp::Diff("literal")
            } else {
                Cmp::Unsure("equal strings written differently")
            }
        }
        (Value::Bool(x), Value::Bool(y)) => {
            if x == y {
                Cmp::Same
            } else {
                Cmp::Diff("literal")
            }
        }
        (Value::Null, Value::Null) => Cmp::Same,
        (Value::Enum(x), Value::Enum(y)) => {
            if x == y {
                Cmp::Same
            } else {
                Cmp::Diff("literal")
            }
        }
        (Value::List(x), Value::List(y)) => {
            if x.len() != y.len() {
                return Cmp::Diff("list-length");
            }
            let mut unsure = None;
            for (p, q) in x.iter().zip(y.iter()) {
                match diff_value(p, q) {
                    Cmp::Same => {}
                    Cmp::Diff(_) => return Cmp::Diff("list-item"),
                    Cmp::Unsure(u) => unsure = Some(u),
                }
            }
            unsure.map(Cmp::Unsure).unwrap_or(Cmp::Same)
        }
        (Value::Object(x), Value::Object(y)) => {
            let dup = |o: &[(String, Value)]| o.iter().enumerate().any(|(i, (n, _))| o[..i].iter().any(|(m, _)| m == n));
            if dup(x) || dup(y) {
                return Cmp::Unsure("object literal with duplicate fields");
            }
            if x.len() != y.len() || x.iter().any(|(k, _)| !y.iter().any(|(m, _)| m == k)) {
                return Cmp::Diff("object-field");
            }
            let mut unsure = None;
            if x.iter().zip(y.iter()).any(|((k, _), (m, _))| k != m) {
                unsure = Some("object fields in different order");
            }
            for (k, p) in x {
                let q = &y.iter().find(|(m, _)| m == k).unwrap().1;
                match diff_value(p, q) {
                    Cmp::Same => {}
                    Cmp::Diff(_) => return Cmp::Diff("object-field"),
                    Cmp::Unsure(u) => unsure = unsure.or(Some(u)),
                }
            }
            unsure.map(Cmp::Unsure).unwrap_or(Cmp::Same)
        }
        // different kinds of literal
        _ => Cmp::Diff("literal"),
    }
}

#[cfg(test)]
mod tests {
    use super::super::parser::parse_document;
    use super::*;

    /// The example schema of spec section 5 (Validation), plus the extensions used by the
    /// section's examples (arguments, Arguments type, ComplexInput, findDog, booleanList).
    const SPEC_SCHEMA: &str = r#"
type Query { dog: Dog human: Human pet: Pet catOrDog: CatOrDog dogOrHuman: DogOrHuman humanOrAlien: HumanOrAlien
  arguments: Arguments findDog(complex: ComplexInput): Dog booleanList(booleanListArg: [Boolean!]): Boolean }
type Mutation { mutateDog: Dog }
type Subscription { newMessage: Message disallowedSecondRootField: Boolean }
type Message { body: String sender: String }
enum DogCommand { SIT DOWN HEEL }
type Dog implements Pet { name: String! nickname: String barkVolume: Int doesKnowCommand(dogCommand: DogCommand!): Boolean!
  isHouseTrained(atOtherHomes: Boolean): Boolean! owner: Human }
interface Sentient { name: String! }
interface Pet { name: String! }
type Alien implements Sentient { name: String! homePlanet: String }
type Human implements Sentient { name: String! pets: [Pet!] }
enum CatCommand { JUMP }
type Cat implements Pet { name: String! nickname: String doesKnowCommand(catCommand: CatCommand!): Boolean! meowVolume: Int }
union CatOrDog = Cat | Dog
union DogOrHuman = Dog | Human
union HumanOrAlien = Human | Alien
type Arguments { multipleReqs(x: Int!, y: Int!): Int! booleanArgField(booleanArg: Boolean): Boolean floatArgField(floatArg: Float): Float
  intArgField(intArg: Int): Int nonNullBooleanArgField(nonNullBooleanArg: Boolean!): Boolean!
  booleanListArgField(booleanListArg: [Boolean]!): [Boolean] optionalNonNullBooleanArgField(optionalBooleanArg: Boolean! = false): Boolean!
  nonNullBooleanListField(nonNullBooleanListArg: [Boolean!]): Boolean }
input ComplexInput { name: String owner: String }
directive @once on FIELD
directive @many repeatable on FIELD
"#;

    fn run(schema: &str, doc: &str) -> Verdict {
        let s = RefSchema::from_document(&parse_document(schema).unwrap());
        let d = parse_document(doc).unwrap_or_else(|e| panic!("{doc}: {e:?}"));
        validate(&s, &d)
    }
    fn ok(doc: &str) {
        assert_eq!(run(SPEC_SCHEMA, doc), Verdict::Valid, "{doc}");
    }
    fn bad(doc: &str, codes: &[&str]) {
        match run(SPEC_SCHEMA, doc) {
            Verdict::Invalid(c) => {
                let got: Vec<&str> = c.iter().map(|s| s.as_str()).collect();
                assert_eq!(got, codes, "{doc}");
            }
            v => panic!("{doc}: expected {codes:?}, got {v:?}"),
        }
    }

    #[test]
    fn documents_and_operations() {
        bad("query getDogName { dog { name } } extend type Dog { color: String }", &["E.execOnly"]);
        ok("query getDogName { dog { name } } query getOwnerName { dog { owner { name } } }");
        bad("query getName { dog { name } } query getName { dog { owner { name } } }", &["E.opNameUnique"]);
        bad("query dogOperation { dog { name } } mutation dogOperation { mutateDog { name } }", &["E.opNameUnique"]);
        ok("{ dog { name } }");
        bad("{ dog { name } } query getName { dog { owner { name } } }", &["E.loneAnonymous"]);
        bad("{ dog { name } } { dog { name } }", &["E.loneAnonymous"]);
    }

    #[test]
    fn subscriptions() {
        ok("subscription sub { newMessage { body sender } }");
        ok("subscription sub { ...newMessageFields } fragment newMessageFields on Subscription { newMessage { body sender } }");
        bad("subscription sub { newMessage { body sender } disallowedSecondRootField }", &["E.subscriptionSingleRoot.count"]);
        bad(
            "subscription sub { ...multipleSubscriptions } fragment multipleSubscriptions on Subscription { newMessage { body sender } disallowedSecondRootField }",
            &["E.subscriptionSingleRoot.count"],
        );
        bad("subscription sub { __typename }", &["E.subscriptionSingleRoot.introspection"]);
        // one response key selected twice is one entry of the grouped field set
        ok("subscription { disallowedSecondRootField disallowedSecondRootField }");
        ok("subscription { newMessage { body } ... { newMessage { sender } } }");
        // encoded apollo difference
        bad("subscription { newMessage @skip(if: true) { body } }", &["E.subscriptionSingleRoot.conditional"]);
        bad("subscription { ... @include(if: true) { newMessage { body } } }", &["E.subscriptionSingleRoot.conditional"]);
        ok("subscription { newMessage { body @skip(if: true) sender } }");
        // root type not defined (encoded apollo difference)
        assert_eq!(run("type Query { a: Int }", "mutation { a }"), Verdict::Invalid(["E.rootTypeDefined".to_string()].into()));
    }

    #[test]
    fn fields() {
        bad("{ dog { ...fieldNotDefined } } fragment fieldNotDefined on Dog { meowVolume }", &["E.fieldDefined"]);
        bad("{ dog { ...f } } fragment f on Dog { barkVolume: kawVolume }", &["E.fieldDefined"]);
        ok("{ dog { ...f } } fragment f on Pet { name }");
        bad("{ dog { ...f } } fragment f on Pet { nickname }", &["E.fieldDefined"]);
        ok("{ catOrDog { ...f } } fragment f on CatOrDog { __typename ... on Pet { name } ... on Dog { barkVolume } }");
        bad("{ catOrDog { ...f } } fragment f on CatOrDog { name barkVolume }", &["E.fieldDefined"]);
        ok("{ __schema { types { name } } __type(name: \"Dog\") { kind } __typename }");
        bad("mutation { __schema { types { name } } }", &["E.fieldDefined"]);
        // leaf selections
        ok("{ dog { ...f } } fragment f on Dog { barkVolume }");
        bad("{ dog { ...f } } fragment f on Dog { barkVolume { sinceWhen } }", &["E.leaf.subselectionOnLeaf"]);
        bad("query directQueryOnObjectWithoutSubFields { human }", &["E.leaf.missingSubselection"]);
        bad("{ pet }", &["E.leaf.missingSubselection"]);
        bad("{ catOrDog }", &["E.leaf.missingSubselection"]);
    }

    #[test]
    fn merging() {
        let w = |body: &str| format!("{{ dog {{ ...f }} }} fragment f on Dog {{ {} }}", body);
        ok(&w("name name"));
        ok(&w("otherName: name otherName: name"));
        bad(&w("name: nickname name"), &["E.merge.name", "E.merge.shape.nonnull"]);
        bad(&w("n: nickname n: barkVolume"), &["E.merge.name", "E.merge.shape.leaf-type"]);
        ok(&w("doesKnowCommand(dogCommand: SIT) doesKnowCommand(dogCommand: SIT)"));
        ok("query q($dogCommand: DogCommand!) { dog { doesKnowCommand(dogCommand: $dogCommand) doesKnowCommand(dogCommand: $dogCommand) } }");
        bad(&w("doesKnowCommand(dogCommand: SIT) doesKnowCommand(dogCommand: HEEL)"), &["E.merge.args.literal"]);
        bad("query q($dogCommand: DogCommand!) { dog { doesKnowCommand(dogCommand: SIT) doesKnowCommand(dogCommand: $dogCommand) } }", &["E.merge.args.variable"]);
        bad(
            "query q($varOne: DogCommand!, $varTwo: DogCommand!) { dog { doesKnowCommand(dogCommand: $varOne) doesKnowCommand(dogCommand: $varTwo) } }",
            &["E.merge.args.variable"],
        );
        bad(&w("isHouseTrained(atOtherHomes: true) isHouseTrained"), &["E.merge.args.missing"]);
        // differing fields on mutually exclusive object types
        ok("{ pet { ... on Dog { volume: barkVolume } ... on Cat { volume: meowVolume } } }");
        ok("{ pet { ... on Dog { doesKnowCommand(dogCommand: SIT) } ... on Cat { doesKnowCommand(catCommand: JUMP) } } }");
        bad("{ pet { ... on Dog { someValue: nickname } ... on Cat { someValue: meowVolume } } }", &["E.merge.shape.leaf-type"]);
        // an interface parent is not exclusive
        bad("{ pet { ... on Dog { n: nickname } ... on Pet { n: name } } }", &["E.merge.name", "E.merge.shape.nonnull"]);
        bad("{ dog { x: name } pet { ... on Dog { x: barkVolume } } human { pets { name } } dog { x: nickname } }", &["E.merge.name", "E.merge.shape.nonnull"]);
        // nested
        bad("{ dog { owner { n: name } } dog { owner { n: pets { name } } } }", &["E.merge.name", "E.merge.shape.nonnull"]);
        bad("{ human { pets { ... on Dog { v: owner { name } } ... on Cat { v: meowVolume } } } }", &["E.merge.shape.leaf-vs-composite"]);
        bad("{ human { pets { ... on Dog { v: owner { x: name } } ... on Cat { v: owner2 } } } }", &["E.fieldDefined"]);
        // list arguments
        bad("{ booleanList(booleanListArg: [true]) booleanList(booleanListArg: [true, false]) }", &["E.merge.args.list-length"]);
        bad("{ booleanList(booleanListArg: [true]) booleanList(booleanListArg: [false]) }", &["E.merge.args.list-item"]);
        bad("{ findDog(complex: {name: \"a\"}) { name } findDog(complex: {name: \"b\"}) { name } }", &["E.merge.args.object-field"]);
        match run(SPEC_SCHEMA, "{ findDog(complex: {name: \"a\", owner: \"o\"}) { name } findDog(complex: {owner: \"o\", name: \"a\"}) { name } }") {
            Verdict::Unspecified(_) => {}
            v => panic!("{v:?}"),
        }
        // a selection set that is never paired with another one is still checked
        bad("{ dog { a: name a: nickname } }", &["E.merge.name", "E.merge.shape.nonnull"]);
        bad("{ ... { dog { a: name a: nickname } } }", &["E.merge.name", "E.merge.shape.nonnull"]);
    }

    #[test]
    fn arguments() {
        ok("{ dog { doesKnowCommand(dogCommand: SIT) } arguments { multipleReqs(y: 1, x: 2) } }");
        bad("{ dog { doesKnowCommand(command: CLEAN_UP_HOUSE, dogCommand: SIT) } }", &["E.argKnown"]);
        bad("{ dog { isHouseTrained(atOtherHomes: true) @include(unless: false, if: true) } }", &["E.argKnown"]);
        bad("{ dog { isHouseTrained(atOtherHomes: true, atOtherHomes: true) } }", &["E.argUnique"]);
        ok("{ arguments { booleanArgField(booleanArg: true) nonNullBooleanArgField(nonNullBooleanArg: true) } }");
        ok("{ arguments { booleanArgField } }");
        ok("{ arguments { optionalNonNullBooleanArgField } }");
        bad("{ arguments { nonNullBooleanArgField } }", &["E.argRequired"]);
        bad("{ arguments { nonNullBooleanArgField(nonNullBooleanArg: null) } }", &["E.argRequired", "E.value.null->NonNull"]);
        bad("{ dog { name @include } }", &["E.argRequired"]);
    }

    #[test]
    fn fragments() {
        bad("{ dog { ...fragmentOne } } fragment fragmentOne on Dog { name } fragment fragmentOne on Dog { owner { name } }", &["E.fragUnique"]);
        ok("{ dog { ...a ...b ...c } } fragment a on Dog { name } fragment b on Dog { ... on Dog { name } } fragment c on Dog { ... @include(if: true) { name } }");
        bad("{ dog { ...f } } fragment f on NotInSchema { name }", &["E.fragTypeExists"]);
        bad("{ dog { ... on NotInSchema { name } } }", &["E.fragTypeExists"]);
        ok("{ dog { ...a ...b } catOrDog { ...c } } fragment a on Dog { name } fragment b on Pet { name } fragment c on CatOrDog { ... on Dog { name } }");
        bad("{ dog { ...f } } fragment f on Int { something }", &["E.fragOnComposite"]);
        bad("{ dog { ... on Boolean { somethingElse } } }", &["E.fragOnComposite"]);
        bad("{ dog { name } } fragment nameFragment on Dog { name }", &["E.fragUnused"]);
        bad("{ dog { ...undefinedFragment } }", &["E.fragUndefined"]);
        bad("{ dog { ...nameFragment } } fragment nameFragment on Dog { name ...barkVolumeFragment } fragment barkVolumeFragment on Dog { barkVolume ...nameFragment }", &["E.fragCycle"]);
        bad("{ dog { ...dogFragment } } fragment dogFragment on Dog { name owner { ...ownerFragment } } fragment ownerFragment on Human { name pets { ...dogFragment } }", &["E.fragCycle"]);
        bad("{ dog { ...f } } fragment f on Dog { ...f }", &["E.fragCycle"]);
        // spreads
        ok("{ dog { ... on Dog { barkVolume } } }");
        bad("{ dog { ... on Cat { meowVolume } } }", &["E.spreadImpossible"]);
        ok("{ dog { ... on Pet { name } ... on CatOrDog { ... on Cat { meowVolume } } } }");
        ok("{ pet { ... on Dog { barkVolume } } catOrDog { ... on Cat { meowVolume } } }");
        bad("{ human { ... on Pet { name } } }", &["E.spreadImpossible"]);
        bad("{ dog { ...f } } fragment f on Sentient { ... on Dog { barkVolume } }", &["E.spreadImpossible"]);
        bad("{ humanOrAlien { ... on Cat { meowVolume } } }", &["E.spreadImpossible"]);
        ok("{ pet { ...u } dogOrHuman { ...p } } fragment u on DogOrHuman { ... on Dog { barkVolume } } fragment p on Pet { name }");
        bad("{ pet { ...s } } fragment s on Sentient { name }", &["E.spreadImpossible"]);
        // an interface without implementers spread on itself (encoded: always applies)
        assert_eq!(run("type Query { i: I } interface I { x: Int }", "{ i { ... on I { x } ...f } } fragment f on I { x }"), Verdict::Valid);
    }

    #[test]
    fn values() {
        ok("{ arguments { booleanArgField(booleanArg: true) floatArgField(floatArg: 1) intArgField(intArg: 1) } }");
        ok("query goodComplexDefaultValue($search: ComplexInput = { name: \"Fido\" }) { findDog(complex: $search) { name } }");
        bad("{ arguments { nonNullBooleanListField(nonNullBooleanListArg: [true, false, null]) } }", &["E.value.null->NonNull"]);
        bad("{ arguments { intArgField(intArg: \"123\") } }", &["E.value.string->Int"]);
        bad("{ arguments { intArgField(intArg: 1.5) } }", &["E.value.float->Int"]);
        bad("{ arguments { intArgField(intArg: 2147483648) } }", &["E.value.int->Int.range"]);
        ok("{ arguments { intArgField(intArg: -2147483648) floatArgField(floatArg: 1.5e3) } }");
        bad("{ arguments { floatArgField(floatArg: \"1\") booleanArgField(booleanArg: 1) } }", &["E.value.int->Boolean", "E.value.string->Float"]);
        bad("query badComplexValue { findDog(complex: { name: 123 }) { name } }", &["E.value.int->String"]);
        bad("{ dog { doesKnowCommand(dogCommand: \"SIT\") } }", &["E.value.string->Enum"]);
        bad("{ dog { doesKnowCommand(dogCommand: ROLL) } }", &["E.value.enum->Enum.unknown"]);
        bad("{ dog { doesKnowCommand(dogCommand: true) } }", &["E.value.boolean->Enum"]);
        // list coercion
        ok("{ booleanList(booleanListArg: true) arguments { booleanListArgField(booleanListArg: [true, null]) } }");
        bad("{ arguments { intArgField(intArg: [1]) } }", &["E.value.list->Int"]);
        bad("{ booleanList(booleanListArg: [[true]]) }", &["E.value.list->Boolean"]);
        // input objects
        ok("{ findDog(complex: { name: \"Fido\" }) { name } }");
        bad("{ findDog(complex: { favoriteCookieFlavor: \"Bacon\" }) { name } }", &["E.inputFieldKnown"]);
        bad("{ findDog(complex: { name: \"Fido\", name: \"Fido\" }) { name } }", &["E.inputFieldUnique"]);
        bad("{ findDog(complex: \"x\") { name } }", &["E.value.string->InputObject"]);
        let s = "type Query { f(i: In, s: S, l: [[Int]], e: [E!]!): Int } input In { req: Int! opt: Int = 1 d: Int! = 2 n: In } scalar S enum E { A }";
        let one = |d: &str| run(s, d);
        assert_eq!(one("{ f(i: {req: 1}, e: A) }"), Verdict::Valid);
        assert_eq!(one("{ f(i: {req: 1, n: {req: 2, n: null}}, e: [A, A]) }"), Verdict::Valid);
        assert_eq!(one("{ f(i: {}, e: A) }").codes(), vec!["E.inputFieldRequired"]);
        assert_eq!(one("{ f(i: {req: null}, e: A) }").codes(), vec!["E.inputFieldRequired", "E.value.null->NonNull"]);
        assert_eq!(one("{ f(i: {req: 1, d: null}, e: A) }").codes(), vec!["E.value.null->NonNull"]);
        assert_eq!(one("{ f(s: {a: [1, \"x\", E]}, e: A) g: f(s: 1.5, e: []) h: f(s: X, e: A) }"), Verdict::Valid);
        assert_eq!(one("{ f(l: 1, e: A) b: f(l: [[1], null, [2, null]], e: A) }"), Verdict::Valid);
        // October 2021 table vs prose / graphql-js: not compared
        assert!(matches!(one("{ f(l: [1], e: A) }"), Verdict::Unspecified(_)));
        assert!(matches!(one("{ f(l: [[1], 2], e: A) }"), Verdict::Unspecified(_)));
        // duplicate fields in any object literal, typed or not
        assert_eq!(one("{ f(s: {a: 1, a: 2}, e: A) }").codes(), vec!["E.inputFieldUnique"]);
        assert_eq!(one("{ f(s: [{a: {b: 1, b: 1}}], e: A) }").codes(), vec!["E.inputFieldUnique"]);
        assert_eq!(one("query($v: In = {req: 1, req: 1}) { f(i: $v, e: A) }").codes(), vec!["E.inputFieldUnique"]);
        assert_eq!(one("{ f(e: A) @skip(if: true, zz: {a: 1, a: 1}) }").codes(), vec!["E.argKnown", "E.inputFieldUnique"]);
        assert_eq!(one("{ f(l: [[[1]]], e: A) }").codes(), vec!["E.value.list->Int"]);
        assert_eq!(one("{ f(e: [A, null]) }").codes(), vec!["E.value.null->NonNull"]);
        assert_eq!(one("{ f(e: null) }").codes(), vec!["E.argRequired", "E.value.null->NonNull"]);
        assert!(matches!(one("query($v: Int) { f(s: [$v], e: A) }"), Verdict::Unspecified(_)));
    }

    /// Judgements that depend on where a shared definition is used: every spread site, every
    /// operation, and the directive definition in force (a schema may re-define a built-in one).
    #[test]
    fn context_dependent() {
        // the same fragment at two sites: possible at the first, impossible at the second
        ok("{ dog { ...d } pet { ...d } } fragment d on Dog { name }");
        bad("{ dog { ...d } human { ...d } } fragment d on Dog { name }", &["E.spreadImpossible"]);
        bad("{ human { ...d } dog { ...d } } fragment d on Dog { name }", &["E.spreadImpossible"]);
        bad("{ pet { ...p } human { ...h } } fragment p on Pet { name ...d } fragment h on Human { name ...d } fragment d on Dog { nickname }", &["E.spreadImpossible"]);
        // a fragment's variables are checked against EACH operation that reaches it
        ok("query A($x: Boolean) { ...F } query B($x: Boolean!) { dog { name } ...F } fragment F on Query { dog { isHouseTrained(atOtherHomes: $x) } }");
        bad("query A($x: Boolean) { ...F } query B { dog { name } ...F } fragment F on Query { dog { isHouseTrained(atOtherHomes: $x) } }", &["E.varDefined"]);
        bad("query B { dog { name } ...F } query A($x: Boolean) { ...F } fragment F on Query { dog { isHouseTrained(atOtherHomes: $x) } }", &["E.varDefined"]);
        bad("query A($x: Boolean) { ...F } query B($x: Int) { ...F } fragment F on Query { dog { isHouseTrained(atOtherHomes: $x) } }", &["E.varPosition.top"]);
        bad(
            "query A($x: Boolean!) { ...O } query B($x: Boolean) { dog { ...I } } fragment O on Query { dog { ...I } } fragment I on Dog { name @skip(if: $x) }",
            &["E.varPosition.top"],
        );
        // used by another operation only
        bad("query A($x: Boolean) { ...F } query B($x: Boolean) { dog { name } } fragment F on Query { dog { isHouseTrained(atOtherHomes: $x) } }", &["E.varUnused"]);
        // a conflict beside ONE of two spreads of the same fragment
        ok("{ dog { ...n } pet { ...n } } fragment n on Pet { name }");
        bad("{ dog { ...n } pet { ...n ... on Dog { name: nickname } } } fragment n on Pet { name }", &["E.merge.name", "E.merge.shape.nonnull"]);
        // re-defined built-in directives: the schema's own definition is the one in force
        let redefined = "directive @skip(if: Boolean!) repeatable on FIELD | FRAGMENT_SPREAD | INLINE_FRAGMENT | QUERY\n\
                         directive @include(if: Boolean!) on FIELD\n\
                         directive @deprecated(reason: String = \"No longer supported\") repeatable on FIELD_DEFINITION | ARGUMENT_DEFINITION | INPUT_FIELD_DEFINITION | ENUM_VALUE | FIELD\n\
                         type Query { a: Int @deprecated b: Int }";
        assert_eq!(run(redefined, "query @skip(if: false) { a @skip(if: true) @skip(if: false) }"), Verdict::Valid);
        assert_eq!(run(redefined, "{ a @deprecated @deprecated(reason: \"x\") }"), Verdict::Valid);
        assert_eq!(run(redefined, "{ a @include(if: true) @include(if: true) }").codes(), ["E.dirUnique"]);
        assert_eq!(run(redefined, "{ ... @include(if: true) { a } }").codes(), ["E.dirLocation"]);
        assert_eq!(run("type Query { a: Int }", "query @skip(if: false) { a @skip(if: true) @skip(if: false) }").codes(), ["E.dirLocation", "E.dirUnique"]);
    }

    #[test]
    fn directives() {
        bad("{ dog { name @nope } }", &["E.dirKnown"]);
        bad("query @skip(if: true) { dog { name } }", &["E.dirLocation"]);
        bad("query ($foo: Boolean = true, $bar: Boolean = false) { dog @skip(if: $foo) @skip(if: $bar) { name } }", &["E.dirUnique"]);
        ok("query ($foo: Boolean = true, $bar: Boolean = false) { dog @skip(if: $foo) { name } dog @skip(if: $bar) { nickname } }");
        ok("{ dog { name @many @many @once } }");
        bad("{ dog { name @once @many @once } }", &["E.dirUnique"]);
        bad("{ dog { name @deprecated } }", &["E.dirLocation"]);
    }

    #[test]
    fn variables() {
        ok("query A($atOtherHomes: Boolean) { ...H } query B($atOtherHomes: Boolean) { ...H } fragment H on Query { dog { isHouseTrained(atOtherHomes: $atOtherHomes) } }");
        bad("query houseTrainedQuery($atOtherHomes: Boolean, $atOtherHomes: Boolean) { dog { isHouseTrained(atOtherHomes: $atOtherHomes) } }", &["E.varUnique"]);
        ok("query takesComplexInput($c: ComplexInput) { findDog(complex: $c) { name } booleanList(booleanListArg: [true]) }");
        bad("query takesCat($cat: Cat) { dog { name } }", &["E.varInputType", "E.varUnused"]);
        bad("query takesDogBang($dog: Dog!) { dog { name } }", &["E.varInputType", "E.varUnused"]);
        bad("query takesListOfPet($pets: [Pet]) { dog { name } }", &["E.varInputType", "E.varUnused"]);
        bad("query takesCatOrDog($catOrDog: CatOrDog) { dog { name } }", &["E.varInputType", "E.varUnused"]);
        bad("query q($x: Nope) { dog { name } }", &["E.varInputType", "E.varUnused"]);
        bad("query variableIsNotDefined { dog { isHouseTrained(atOtherHomes: $atOtherHomes) } }", &["E.varDefined"]);
        bad("query q { dog { ...f } } fragment f on Dog { isHouseTrained(atOtherHomes: $atOtherHomes) }", &["E.varDefined"]);
        bad(
            "query housetrainedQueryOne($atOtherHomes: Boolean) { dog { ...f } } query housetrainedQueryTwoNotDefined { dog { ...f } } fragment f on Dog { isHouseTrained(atOtherHomes: $atOtherHomes) }",
            &["E.varDefined"],
        );
        bad("query variableUnused($atOtherHomes: Boolean) { dog { isHouseTrained } }", &["E.varUnused"]);
        bad("query q($atOtherHomes: Boolean) { dog { ...f } } fragment f on Dog { isHouseTrained }", &["E.varUnused"]);
        bad(
            "query a($atOtherHomes: Boolean) { dog { ...f } } query b($extra: Int, $atOtherHomes: Boolean) { dog { ...f } } fragment f on Dog { isHouseTrained(atOtherHomes: $atOtherHomes) }",
            &["E.varUnused"],
        );
        // usages allowed
        bad("query intCannotGoIntoBoolean($intArg: Int) { arguments { booleanArgField(booleanArg: $intArg) } }", &["E.varPosition.top"]);
        bad("query booleanListCannotGoIntoBoolean($booleanListArg: [Boolean]) { arguments { booleanArgField(booleanArg: $booleanListArg) } }", &["E.varPosition.top"]);
        bad("query booleanArgQuery($booleanArg: Boolean) { arguments { nonNullBooleanArgField(nonNullBooleanArg: $booleanArg) } }", &["E.varPosition.top"]);
        ok("query nonNullListToList($nonNullBooleanList: [Boolean]!) { arguments { booleanListArgField(booleanListArg: $nonNullBooleanList) } }");
        bad("query listToNonNullList($booleanList: [Boolean]) { arguments { booleanListArgField(booleanListArg: $booleanList) } }", &["E.varPosition.top"]);
        ok("query booleanArgQueryWithDefault($booleanArg: Boolean) { arguments { optionalNonNullBooleanArgField(optionalBooleanArg: $booleanArg) } }");
        ok("query booleanArgQueryWithDefault($booleanArg: Boolean = true) { arguments { nonNullBooleanArgField(nonNullBooleanArg: $booleanArg) } }");
        bad("query q($booleanArg: Boolean = null) { arguments { nonNullBooleanArgField(nonNullBooleanArg: $booleanArg) } }", &["E.varPosition.top.default-null"]);
        bad("query q($v: Int = null) { arguments { nonNullBooleanArgField(nonNullBooleanArg: $v) } }", &["E.varPosition.top"]);
        // nested positions
        bad("query q($b: Boolean) { booleanList(booleanListArg: [$b]) }", &["E.varPosition.listItem"]);
        ok("query q($b: Boolean!) { booleanList(booleanListArg: [$b]) }");
        bad("query q($b: Boolean!) { booleanList(booleanListArg: $b) }", &["E.varPosition.top"]);
        bad("query q($b: Int) { findDog(complex: {name: $b}) { name } }", &["E.varPosition.inputField"]);
        ok("query q($b: String) { findDog(complex: {name: $b}) { name } }");
        ok("query q($b: Boolean!) { dog { name @skip(if: $b) } }");
        // directives on operations use variables too
        assert_eq!(run("type Query { a: Int } directive @d(x: Int) on QUERY | FRAGMENT_DEFINITION", "query ($v: Int) @d(x: $v) { a }"), Verdict::Valid);
        assert_eq!(run("type Query { a: Int } directive @d(x: Int) on QUERY | FRAGMENT_DEFINITION", "query ($v: Int) { ...f } fragment f on Query @d(x: $v) { a }"), Verdict::Valid);
        assert_eq!(run("type Query { a: Int } directive @d(x: Int!) on QUERY", "query ($v: Int) @d(x: $v) { a }").codes(), vec!["E.varPosition.top"]);
        // input field with a default accepts a nullable variable
        let s = "type Query { f(i: In): Int } input In { a: Int! = 1 b: Int! }";
        assert_eq!(run(s, "query($v: Int) { f(i: {a: $v, b: 1}) }"), Verdict::Valid);
        assert_eq!(run(s, "query($v: Int) { f(i: {b: $v}) }").codes(), vec!["E.varPosition.inputField"]);
        assert_eq!(run(s, "query($v: Int = null) { f(i: {b: $v}) }").codes(), vec!["E.varPosition.inputField"]);
        assert_eq!(run(s, "query($v: Int = 3) { f(i: {b: $v}) }"), Verdict::Valid);
    }

    #[test]
    fn value_comparison() {
        let v = |s: &str| {
            let d = parse_document(&format!("{{ f(a: {}) }}", s)).unwrap();
            match &d.defs[0] {
                Definition::Operation(o) => match &o.selection_set[0] {
                    Selection::Field(f) => f.args[0].1.clone(),
                    _ => unreachable!(),
                },
                _ => unreachable!(),
            }
        };
        assert_eq!(diff_value(&v("1"), &v("1")), Cmp::Same);
        assert_eq!(diff_value(&v("1"), &v("2")), Cmp::Diff("literal"));
        assert!(matches!(diff_value(&v("1.0"), &v("1.00")), Cmp::Unsure(_)));
        assert!(matches!(diff_value(&v("1"), &v("1.0")), Cmp::Unsure(_)));
        assert!(matches!(diff_value(&v("0"), &v("-0")), Cmp::Unsure(_)));
        assert_eq!(diff_value(&v("1"), &v("\"1\"")), Cmp::Diff("literal"));
        assert!(matches!(diff_value(&v("\"a\""), &v("\"\"\"a\"\"\"")), Cmp::Unsure(_)));
        assert_eq!(diff_value(&v("[1]"), &v("1")), Cmp::Diff("literal"));
        assert_eq!(diff_value(&v("[1, 2]"), &v("[1]")), Cmp::Diff("list-length"));
        assert_eq!(diff_value(&v("{a: 1, b: 2}"), &v("{b: 3, a: 1}")), Cmp::Diff("object-field"));
        assert!(matches!(diff_value(&v("{a: 1, b: 2}"), &v("{b: 2, a: 1}")), Cmp::Unsure(_)));
        assert_eq!(diff_value(&v("{a: 1}"), &v("{a: 1, b: 2}")), Cmp::Diff("object-field"));
        assert_eq!(diff_value(&v("$x"), &v("$x")), Cmp::Same);
        assert_eq!(diff_value(&v("$x"), &v("1")), Cmp::Diff("variable"));
    }
}

#[cfg(test)]
mod lookalike_tests {
    use super::super::parser::parse_document;
    use super::*;

    fn verdict(schema: &str, doc: &str) -> Verdict {
        let s = RefSchema::from_document(&parse_document(schema).unwrap());
        validate(&s, &parse_document(doc).unwrap())
    }
    fn valid(schema: &str, doc: &str) {
        assert_eq!(verdict(schema, doc), Verdict::Valid, "{doc}");
    }
    fn invalid(schema: &str, doc: &str, code: &str) {
        match verdict(schema, doc) {
            Verdict::Invalid(c) => assert!(c.iter().any(|x| x.starts_with(code)), "{doc}: {c:?}"),
            v => panic!("{doc}: expected {code}, got {v:?}"),
        }
    }

    /// The reference has no cache: a conflicting selection set is reported whatever look-alike
    /// valid set (content-equal fields below other parent types) was seen before or after it.
    #[test]
    fn merge_conflict_beside_a_lookalike_valid_set() {
        const S: &str = "type Query { pet: Pet other: Pet } interface Pet { name: String nick: String } \
                         type Dog implements Pet { name: String nick: String } type Cat implements Pet { name: String nick: String }";
        let good = "... on Dog { x: name } ... on Cat { x: nick }";
        let bad = "... on Dog { x: name } ... on Dog { x: nick }";
        let bad_abstract = "... on Dog { x: name } ... on Pet { x: nick }";
        valid(S, &format!("{{ pet {{ {good} }} }}"));
        valid(S, &format!("{{ pet {{ {good} }} other {{ {good} }} }}"));
        for b in [bad, bad_abstract] {
            invalid(S, &format!("{{ other {{ {b} }} }}"), "E.merge");
            invalid(S, &format!("{{ pet {{ {good} }} other {{ {b} }} }}"), "E.merge");
            invalid(S, &format!("{{ other {{ {b} }} pet {{ {good} }} }}"), "E.merge");
            invalid(S, &format!("{{ a: pet {{ {good} }} b: pet {{ {b} }} }}"), "E.merge");
            invalid(S, &format!("query A {{ pet {{ {good} }} }} query B {{ pet {{ {b} }} }}"), "E.merge");
            invalid(S, &format!("query A {{ pet {{ {b} }} }} query B {{ pet {{ {good} }} }}"), "E.merge");
        }
    }

    /// IsVariableUsageAllowed / AreTypesCompatible (spec 5.8.5) for list types: a default (on
    /// the variable or on the location) only waives the OUTER non-null of the location; item
    /// types must be compatible in the direction variable -> location at every depth.
    #[test]
    fn list_variables_let_in_by_a_default() {
        const S: &str = "type Query { strict(list: [Int!]!): Int loose(list: [Int]!): Int strictD(list: [Int!]! = [0]): Int \
                         looseD(list: [Int]! = []): Int nested(list: [[Int!]]!): Int scalar(x: Int!): Int }";
        invalid(S, "query($v: [Int]) { strict(list: $v) }", "E.varPosition");
        invalid(S, "query($v: [Int]) { loose(list: $v) }", "E.varPosition");
        invalid(S, "query($v: [Int!]) { strict(list: $v) }", "E.varPosition");
        valid(S, "query($v: [Int] = [1]) { loose(list: $v) }");
        valid(S, "query($v: [Int!] = [1]) { strict(list: $v) }");
        invalid(S, "query($v: [Int] = [1]) { scalar(x: $v) }", "E.varPosition");
        invalid(S, "query($v: [Int] = [1]) { strict(list: $v) }", "E.varPosition");
        invalid(S, "query($v: [Int]) { strictD(list: $v) }", "E.varPosition");
        valid(S, "query($v: [Int!]) { strictD(list: $v) }");
        valid(S, "query($v: [Int!] = [1]) { loose(list: $v) }");
        valid(S, "query($v: [Int!]) { looseD(list: $v) }");
        valid(S, "query($v: [Int]) { looseD(list: $v) }");
        invalid(S, "query($v: [[Int]] = [[1]]) { nested(list: $v) }", "E.varPosition");
        valid(S, "query($v: [[Int!]!] = [[1]]) { nested(list: $v) }");
        valid(S, "query($v: [[Int!]] = [[1]]) { nested(list: $v) }");
        invalid(S, "query($v: [[Int]!] = [[1]]) { nested(list: $v) }", "E.varPosition");
        invalid(S, "query($v: [Int] = [1]) { nested(list: $v) }", "E.varPosition");
        valid(S, "query($v: [Int!]!) { loose(list: $v) }");
        invalid(S, "query($v: [Int]!) { strict(list: $v) }", "E.varPosition");
    }
}
