//! Reference line/column: line = 1 + LineTerminators before the offset (LineTerminator ::
//! \n | \r [lookahead != \n] | \r\n), column = 1 + Unicode scalar values since the line start
//! (as `apollo_compiler::parser::LineColumn` documents).

pub fn line_column(src: &str, offset: usize) -> Option<(usize, usize)> {
    if offset > src.len() || !src.is_char_boundary(offset) {
        return None;
    }
    let b = src.as_bytes();
    let mut line = 1;
    let mut line_start = 0;
    let mut i = 0;
    while i < offset {
        match b[i] {
            b'\n' => {
                line += 1;
                line_start = i + 1;
            }
            b'\r' => {
                if b.get(i + 1) == Some(&b'\n') {
                    // the position between \r and \n is inside the terminator: not a valid probe
                    if i + 1 == offset {
                        return None;
                    }
                    i += 1;
                }
                line += 1;
                line_start = i + 1;
            }
            _ => {}
        }
        i += 1;
    }
    Some((line, 1 + src[line_start..offset].chars().count()))
}

#[cfg(test)]
mod tests {
    use super::*;
    #[test]
    fn examples() {
        assert_eq!(line_column("abc", 0), Some((1, 1)));
        assert_eq!(line_column("a\nb", 2), Some((2, 1)));
        assert_eq!(line_column("a\r\nb", 3), Some((2, 1)));
        assert_eq!(line_column("a\r\nb", 2), None);
        assert_eq!(line_column("a\rb\n\nc", 5), Some((4, 1)));
        assert_eq!(line_column("é中🚀 x", 10), Some((1, 5)));
        assert_eq!(line_column("a\u{2028}b\u{c}c", 6), Some((1, 5)));
        assert_eq!(line_column("ab", 2), Some((1, 3)));
    }
}
