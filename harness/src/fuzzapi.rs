//! Entry points for coverage-guided fuzzing (cargo-fuzz / libFuzzer, `/verif/fuzz`).
//!
//! The fuzz input is either the byte-choice vector of one random stage of a property
//! (structured mode: the same total decoder as the PBT driver, so every input is a well-formed
//! case) or, for the properties that have a text oracle, the raw UTF-8 text (text mode,
//! `VERIF_FUZZ_STAGE=@text`). The semantic oracle of the property runs inside the target. A
//! failure whose signature is a listed known finding is tolerated (counted), so a campaign does
//! not rediscover one defect forever; any other failure aborts the process, libFuzzer saves the
//! input, and `verif confirm` re-runs it in the standard (non-ASan, 2 MiB-stack) worker, which is
//! the deciding step: only a confirmed failure becomes a VIOLATION line.

use crate::runner::{self, Ctx, Outcome, Prop, StageKind, Tier};
use std::sync::OnceLock;

struct State {
    prop: &'static Prop,
    mode: Mode,
    known: Vec<String>,
    max_len: usize,
}

enum Mode {
    Choices(runner::CheckFn),
    Text(fn(&str, &mut Ctx) -> Outcome),
}

static STATE: OnceLock<State> = OnceLock::new();

fn state() -> &'static State {
    STATE.get_or_init(|| {
        let id = std::env::var("VERIF_FUZZ_PROP").expect("VERIF_FUZZ_PROP");
        let stage = std::env::var("VERIF_FUZZ_STAGE").unwrap_or_default();
        let props: &'static Vec<Prop> = Box::leak(Box::new(crate::props::all()));
        let prop = props.iter().find(|p| p.id == id).expect("unknown property");
        // libfuzzer-sys installs an aborting panic hook in LLVMFuzzerInitialize; replace it so that
        // `guarded` can turn a panic into a signature (known panics must not stop the campaign)
        runner::install_panic_hook();
        runner::set_known_for(prop.id);
        let known = runner::load_known(prop.id).into_iter().map(|k| k.sig).collect();
        let (mode, max_len) = if stage == "@text" {
            (Mode::Text(prop.text_check.expect("property has no text oracle")), 4096)
        } else {
            let st = prop
                .stages
                .iter()
                .find(|s| s.name == stage)
                .or_else(|| prop.stages.iter().find(|s| matches!(s.kind, StageKind::Random { .. })))
                .expect("no random stage");
            match &st.kind {
                StageKind::Random { check, max_len, .. } => (Mode::Choices(*check), max_len(Tier::Thorough)),
                _ => panic!("stage is not random"),
            }
        };
        State { prop, mode, known, max_len }
    })
}

/// Longest input the selected stage decodes (libFuzzer `-max_len`).
pub fn max_len() -> usize {
    state().max_len
}

/// One fuzz iteration. Aborts the process on an unlisted failure.
pub fn one(data: &[u8]) {
    let st = state();
    let mut ctx = Ctx::new(Tier::Thorough, false);
    let out = match &st.mode {
        Mode::Choices(check) => runner::guarded(st.prop.id, || check(data, &mut ctx)),
        Mode::Text(check) => {
            let Ok(text) = std::str::from_utf8(data) else { return };
            runner::guarded(st.prop.id, || check(text, &mut ctx))
        }
    };
    if let Outcome::Fail { sig, detail } = out {
        if st.known.iter().any(|k| *k == sig) {
            return;
        }
        eprintln!("FUZZ-FAILURE property={} sig={}\n{}", st.prop.id, sig, runner::truncate(&detail, 2000));
        std::process::abort();
    }
}
