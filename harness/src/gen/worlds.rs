//! Resolver worlds: for every field position a resolver may be called at (keyed by response
//! path) one outcome, decoded from `Choices`: a correct value, a wrongly-typed leaf of each JSON
//! kind, an out-of-range Int, null, a resolver error, an object of the right / a wrong / an
//! unknown type, a list with per-item outcomes (including an iterator error), nested lists, and
//! resolved-value kinds that do not fit the type (leaf for a list, list for a leaf, ...).
//!
//! The table is built by running the REFERENCE executor without cancellation
//! (`short_circuit = false`) with [`WorldGen`] as its resolvers, so that every position any
//! conforming execution may resolve has an entry. It is plain data; `apollo::exec` serves it
//! through `ObjectValue` / `AsyncObjectValue`.

use crate::choices::Choices;
use crate::refmodel::ast::{Type, TypeKind};
use crate::refmodel::coerce::Json;
use crate::refmodel::executor::{path_string, Call, Outcome, Resolvers};
use crate::refmodel::schema::{RefSchema, BUILTIN_SCALARS};
use serde_json::json;
use std::collections::{BTreeMap, BTreeSet};

#[derive(Clone, Debug)]
pub struct Entry {
    pub object_type: String,
    pub field: String,
    pub outcome: Outcome,
}

#[derive(Clone, Debug, Default)]
pub struct World {
    /// `path_string(path of the field)` -> entry
    pub table: BTreeMap<String, Entry>,
}

impl World {
    pub fn render(&self) -> String {
        let mut s = String::new();
        for (k, e) in &self.table {
            s.push_str(&format!("{} ({}.{}) = {}\n", k, e.object_type, e.field, render_outcome(&e.outcome)));
        }
        s
    }
}

pub fn render_outcome(o: &Outcome) -> String {
    match o {
        Outcome::Error => "ERROR".into(),
        Outcome::Leaf(j) => j.to_string(),
        Outcome::Object(t) => format!("<{}>", t),
        Outcome::List(l) => format!("LIST[{}]", l.iter().map(render_outcome).collect::<Vec<_>>().join(", ")),
    }
}

/// Serves a finished table (second reference run, unit tests).
pub struct TableResolvers<'a> {
    pub world: &'a World,
    pub missing: Vec<String>,
}

impl<'a> Resolvers for TableResolvers<'a> {
    fn resolve(&mut self, call: &Call) -> Outcome {
        let k = path_string(call.path);
        match self.world.table.get(&k) {
            Some(e) => e.outcome.clone(),
            None => {
                self.missing.push(k);
                Outcome::Leaf(Json::Null)
            }
        }
    }
}

pub struct WorldGen<'a, 'c> {
    pub c: &'a mut Choices<'c>,
    pub schema: &'a RefSchema,
    pub world: World,
    pub labels: BTreeSet<&'static str>,
    /// probability (of 256) of a fault at a node
    pub fault_p: u32,
    /// maximum list length
    pub max_len: usize,
    /// once this many positions are resolved (or objects handed out), lists are empty and
    /// composite positions null
    pub max_positions: usize,
    /// objects handed out so far (capped by `max_positions` as well: one field may return many)
    pub objects: usize,
}

impl<'a, 'c> WorldGen<'a, 'c> {
    pub fn new(c: &'a mut Choices<'c>, schema: &'a RefSchema) -> Self {
        // profile: 0 = no faults, 1 = rare, 2 = some, 3 = many
        let fault_p = match c.weighted(&[15, 35, 35, 15]) {
            0 => 0,
            1 => 8,
            2 => 28,
            _ => 70,
        };
        WorldGen { c, schema, world: World::default(), labels: BTreeSet::new(), fault_p, max_len: 3, max_positions: 80, objects: 0 }
    }

    fn fault(&mut self) -> bool {
        self.fault_p > 0 && self.c.bool(self.fault_p)
    }

    fn correct_leaf(&mut self, name: &str) -> Json {
        let c = &mut *self.c;
        match name {
            "Int" => json!(c.pick(&[0i64, 1, -7, 42, 2147483647, -2147483648])),
            "Float" => json!(c.pick(&[1.5f64, 0.0, -2.25, 1.0, 1e100, -0.0])),
            "String" => json!(c.pick(&["", "s", "hello", "é", "1", "true"])),
            "Boolean" => json!(c.coin()),
            "ID" => {
                if c.coin() {
                    json!(c.pick(&["id1", "7", ""]))
                } else {
                    json!(c.pick(&[0i64, 12, -3, 9007199254740993]))
                }
            }
            _ => match self.schema.get(name) {
                Some(t) if t.kind == TypeKind::Enum => json!(t.values[c.choose(t.values.len())].name.clone()),
                // custom scalar: any JSON value (null is drawn elsewhere)
                _ => match c.choose(6) {
                    0 => json!("custom"),
                    1 => json!(5),
                    2 => json!(false),
                    3 => json!(2.5),
                    4 => json!([1, null, "x"]),
                    _ => json!({"k": [1], "n": null}),
                },
            },
        }
    }

    /// A non-null JSON leaf that result coercion of `name` rejects (None for custom scalars).
    fn wrong_leaf(&mut self, name: &str) -> Option<Json> {
        let c = &mut *self.c;
        Some(match name {
            "Int" => match c.choose(9) {
                0 => json!("1"),
                1 => json!(true),
                2 => json!(1.5),
                3 => json!(1.0),
                4 => json!(2147483648i64),
                5 => json!(-2147483649i64),
                6 => json!(u64::MAX),
                7 => json!([1]),
                _ => json!({"a": 1}),
            },
            "Float" => match c.choose(6) {
                0 => json!(1),
                1 => json!("1.5"),
                2 => json!(false),
                3 => json!(-3),
                4 => json!([1.5]),
                _ => json!({}),
            },
            "String" => match c.choose(5) {
                0 => json!(1),
                1 => json!(true),
                2 => json!(1.5),
                3 => json!(["s"]),
                _ => json!({"s": "s"}),
            },
            "Boolean" => match c.choose(5) {
                0 => json!(0),
                1 => json!(1),
                2 => json!("true"),
                3 => json!([true]),
                _ => json!(1.0),
            },
            "ID" => match c.choose(4) {
                0 => json!(1.5),
                1 => json!(true),
                2 => json!(["id"]),
                _ => json!({"id": 1}),
            },
            _ => match self.schema.get(name) {
                Some(t) if t.kind == TypeKind::Enum => {
                    let v = t.values[c.choose(t.values.len())].name.clone();
                    match c.choose(6) {
                        0 => json!("NOT_A_VALUE"),
                        1 => json!(if v.to_lowercase() != v { v.to_lowercase() } else { v.to_uppercase() + "_" }),
                        2 => json!(0),
                        3 => json!(true),
                        4 => json!([v]),
                        _ => json!(""),
                    }
                }
                _ => return None,
            },
        })
    }

    fn some_object_name(&mut self) -> String {
        let objs: Vec<&str> = self.schema.types.iter().filter(|t| t.kind == TypeKind::Object && !t.name.starts_with("__")).map(|t| t.name.as_str()).collect();
        objs[self.c.choose(objs.len())].to_string()
    }

    /// An outcome that is a field error for a position of (nullable view of) type `t`.
    fn faulty(&mut self, t: &Type, non_null: bool) -> Outcome {
        let w_null = if non_null { 25 } else { 0 };
        match self.c.weighted(&[30, w_null, 30, 15]) {
            0 => {
                self.labels.insert("w:error");
                Outcome::Error
            }
            1 => {
                self.labels.insert("w:null-at-non-null");
                Outcome::Leaf(Json::Null)
            }
            2 => match t {
                Type::Named(n) if self.schema.is_leaf(n) => match self.wrong_leaf(n) {
                    Some(j) => {
                        self.labels.insert("w:wrong-leaf");
                        Outcome::Leaf(j)
                    }
                    None => {
                        self.labels.insert("w:error");
                        Outcome::Error
                    }
                },
                Type::Named(n) => {
                    // object of a wrong / unknown / non-object type
                    let possible = self.schema.possible_types(n);
                    match self.c.weighted(&[40, 30, 30]) {
                        0 => {
                            let cand: Vec<String> = self
                                .schema
                                .types
                                .iter()
                                .filter(|t| t.kind == TypeKind::Object && !t.name.starts_with("__") && !possible.contains(&t.name))
                                .map(|t| t.name.clone())
                                .collect();
                            if cand.is_empty() {
                                self.labels.insert("w:unknown-object");
                                Outcome::Object("Ghost".into())
                            } else {
                                self.labels.insert("w:wrong-object");
                                Outcome::Object(cand[self.c.choose(cand.len())].clone())
                            }
                        }
                        1 => {
                            self.labels.insert("w:unknown-object");
                            Outcome::Object(self.c.pick(&["Ghost", "query", ""]).to_string())
                        }
                        _ => {
                            // a defined name that is not an object type
                            self.labels.insert("w:non-object-type-name");
                            let cand: Vec<String> = self.schema.types.iter().filter(|t| t.kind != TypeKind::Object && !t.name.starts_with("__")).map(|t| t.name.clone()).collect();
                            let own = if self.schema.is_abstract(n) { n.clone() } else { "Int".to_string() };
                            if self.c.coin() || cand.is_empty() {
                                Outcome::Object(own)
                            } else {
                                Outcome::Object(cand[self.c.choose(cand.len())].clone())
                            }
                        }
                    }
                }
                _ => self.kind_mismatch(t),
            },
            _ => self.kind_mismatch(t),
        }
    }

    /// A resolved-value kind that does not fit the type's kind.
    fn kind_mismatch(&mut self, t: &Type) -> Outcome {
        self.labels.insert("w:kind-mismatch");
        match t {
            Type::List(_) => match self.c.choose(4) {
                0 => Outcome::Leaf(json!(1)),
                1 => Outcome::Leaf(json!("x")),
                2 => Outcome::Leaf(json!([1, 2])),
                _ => Outcome::Object(self.some_object_name()),
            },
            Type::Named(n) if self.schema.is_leaf(n) => {
                if self.c.coin() {
                    Outcome::Object(self.some_object_name())
                } else {
                    let k = self.c.small(2);
                    Outcome::List((0..k).map(|_| Outcome::Leaf(json!(1))).collect())
                }
            }
            Type::Named(n) => match self.c.choose(4) {
                0 => Outcome::Leaf(json!("x")),
                1 => Outcome::Leaf(json!({"__typename": n})),
                2 => Outcome::Leaf(json!(0)),
                _ => {
                    let possible = self.schema.possible_types(n);
                    let inner = if possible.is_empty() { Outcome::Leaf(Json::Null) } else { Outcome::Object(possible[0].clone()) };
                    Outcome::List(vec![inner])
                }
            },
            Type::NonNull(t) => self.kind_mismatch(t),
        }
    }

    pub fn outcome(&mut self, ty: &Type, depth: usize) -> Outcome {
        let non_null = ty.is_non_null();
        let t = ty.nullable();
        // size cap: beyond `max_positions` resolved positions nothing opens new positions
        if (self.world.table.len() >= self.max_positions || self.objects >= self.max_positions) && !matches!(t, Type::Named(n) if self.schema.is_leaf(n)) {
            self.labels.insert("w:capped");
            return match t {
                Type::List(_) => Outcome::List(vec![]),
                _ => Outcome::Leaf(Json::Null),
            };
        }
        if self.fault() {
            return self.faulty(t, non_null);
        }
        let p_null = if matches!(t, Type::Named(n) if self.schema.is_composite(n)) { 14 } else { 28 };
        if !non_null && self.c.bool(p_null) {
            self.labels.insert("w:null");
            return Outcome::Leaf(Json::Null);
        }
        match t {
            Type::List(item) => {
                // now and then a LONG list of leaves at the top level (hundreds of items: chunked or
                // periodic behaviour of list completion only shows there)
                let leaf_items = !item.is_list() && self.schema.is_leaf(item.inner_name());
                let n = if depth == 0 && leaf_items && self.c.bool(8) {
                    self.labels.insert("w:long-list");
                    200 + self.c.choose(500)
                } else if depth == 0 && !leaf_items && !item.is_list() && self.c.bool(3) {
                    // rarely a long list of objects (the position cap is lifted for it)
                    self.labels.insert("w:long-object-list");
                    self.max_positions += 4000;
                    250 + self.c.choose(60)
                } else if depth >= 3 {
                    self.c.small(1)
                } else {
                    self.c.small(self.max_len)
                };
                self.labels.insert(if depth > 0 { "w:nested-list" } else { "w:list" });
                let mut items = vec![];
                for _ in 0..n {
                    if self.fault_p > 0 && self.c.bool(self.fault_p / 3) {
                        self.labels.insert("w:iterator-error");
                        items.push(Outcome::Error);
                    } else {
                        items.push(self.outcome(item, depth + 1));
                    }
                }
                Outcome::List(items)
            }
            Type::Named(n) => {
                if self.schema.is_leaf(n) {
                    if !BUILTIN_SCALARS.contains(&n.as_str()) && self.schema.kind(n) == Some(TypeKind::Scalar) {
                        self.labels.insert("w:custom-scalar");
                    }
                    Outcome::Leaf(self.correct_leaf(n))
                } else {
                    let possible = self.schema.possible_types(n);
                    if possible.is_empty() {
                        // an abstract type nobody implements: only null is correct
                        self.labels.insert("w:abstract-without-possible-type");
                        Outcome::Leaf(Json::Null)
                    } else {
                        if possible.len() > 1 {
                            self.labels.insert("w:abstract-choice");
                        }
                        self.objects += 1;
                        Outcome::Object(possible[self.c.choose(possible.len())].clone())
                    }
                }
            }
            Type::NonNull(_) => unreachable!("nullable() strips one level and NonNull never nests"),
        }
    }
}

impl<'a, 'c> Resolvers for WorldGen<'a, 'c> {
    fn resolve(&mut self, call: &Call) -> Outcome {
        let o = self.outcome(&call.field.ty, 0);
        self.world.table.insert(path_string(call.path), Entry { object_type: call.object_type.to_string(), field: call.field.name.clone(), outcome: o.clone() });
        o
    }
}
