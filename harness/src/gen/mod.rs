//! Generators. Every random decision is read from a `Choices` byte stream.
pub mod text;
pub mod strlit;
pub mod syntax;
pub mod schema;
pub mod json;
pub mod schema_mut;
pub mod exec_ops;
pub mod worlds;
