//! Generators. Every random decision is read from a `Choices` byte stream.
pub mod text;
pub mod strlit;
pub mod syntax;
pub mod schema;
pub mod schema_ext;
