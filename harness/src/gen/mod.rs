//! Generators. Every random decision is read from a `Choices` byte stream.
pub mod text;
pub mod strlit;
pub mod syntax;
pub mod schema;
pub mod json;
pub mod schema_mut;
pub mod operation;
pub mod opmutate;
pub mod opfixture;
pub mod adversary;
pub mod schema_ext;
pub mod exec_ops;
pub mod worlds;
pub mod builtin_redef;
