//! Valid-by-construction (schema, operation, variables) triples for EXECUTION (C26, C27, C33).
//!
//! Schemas come from `gen::schema` and are enriched with extra fields whose types cover every
//! nullability pattern of lists and nested lists; optionally every interface without an
//! implementing object gets one. Operations cover nested objects, lists, interfaces / unions with
//! inline and named fragments and type conditions, aliases, duplicate response keys merged across
//! fragments, `@skip` / `@include` with literals and variables, `__typename`, queries and mutations.
//!
//! Validity by construction:
//!   * FieldsInSetCanMerge: a response key is bound, for the whole document, to one
//!     (field name, printed arguments, printed field type); a second use of the key with another
//!     binding gets a fresh alias. Equal bindings may merge anywhere.
//!   * fragment spreads are only generated where the possible types of the condition and of the
//!     parent intersect; fragments are defined when first spread (so none is unused) and may only
//!     spread fragments that are already complete (so there is no cycle).
//!   * every variable is created for the position it is used at (IsVariableUsageAllowed holds,
//!     all variables are used); argument literals come from `gen::schema::value_for` and are kept
//!     only if the reference literal coercion accepts them.

use crate::choices::Choices;
use crate::gen::json::JsonGen;
use crate::gen::schema as gschema;
use crate::refmodel::ast::*;
use crate::refmodel::coerce::{Coercer, Json};
use crate::refmodel::printer;
use crate::refmodel::schema::RefSchema;
use std::collections::BTreeMap;

#[derive(Clone, Debug)]
pub struct Opts {
    /// generate `@skip` / `@include`
    pub conditions: bool,
    /// generate mutations (when the schema has a mutation root), with this probability of 256
    pub mutations: bool,
    pub mutation_p: u32,
    /// `__schema` / `__type` on the query root (executed with introspection disabled)
    pub introspection_meta: bool,
    /// probability (of 256) that interfaces without implementing object get one
    pub fill_abstract_p: u32,
    pub max_depth: usize,
    /// upper bound on the number of selections in the document
    pub budget: usize,
}

impl Default for Opts {
    fn default() -> Self {
        Opts { conditions: true, mutations: true, mutation_p: 150, introspection_meta: true, fill_abstract_p: 180, max_depth: 4, budget: 28 }
    }
}

impl Opts {
    /// Larger operations for the thorough tier.
    pub fn thorough(mut self) -> Opts {
        self.max_depth = 5;
        self.budget = 45;
        self
    }
}

pub struct Case {
    pub schema_doc: Document,
    pub schema: RefSchema,
    pub sdl: String,
    pub op_doc: Document,
    pub op_text: String,
    pub var_defs: Vec<VarDef>,
    pub variables: serde_json::Map<String, Json>,
    pub features: Vec<&'static str>,
}

impl Case {
    pub fn operation(&self) -> &OperationDef {
        self.op_doc.defs.iter().find_map(|d| if let Definition::Operation(o) = d { Some(o) } else { None }).expect("operation")
    }
    pub fn render(&self) -> String {
        format!("{}{}{}{}{}", self.op_text, SEP, Json::Object(self.variables.clone()), SEP, self.sdl)
    }
}

pub const SEP: &str = "\n#---\n";

// ------------------------------------------------------------------------------------------------
// Schema

const WRAPS: [&str; 14] = ["[T]", "[T!]", "[T]!", "[T!]!", "[[T]]", "[[T!]]", "[[T]!]", "[[T]]!", "[[T!]!]", "[[T!]]!", "[[T]!]!", "[[T!]!]!", "[[[T]]]", "[[[T!]!]!]!"];

fn wrap_pattern(pat: &str, named: &str) -> Type {
    // parse the tiny pattern language: brackets, `T`, `!`
    fn go(chars: &[u8], pos: &mut usize, named: &str) -> Type {
        let mut t = if chars[*pos] == b'[' {
            *pos += 1;
            let inner = go(chars, pos, named);
            *pos += 1; // ']'
            inner.list()
        } else {
            *pos += 1; // 'T'
            Type::named(named)
        };
        if *pos < chars.len() && chars[*pos] == b'!' {
            *pos += 1;
            t = t.non_null();
        }
        t
    }
    let mut p = 0;
    go(pat.as_bytes(), &mut p, named)
}

/// A schema for execution: `gen::schema` (no descriptions / custom directives) plus list-rich
/// extra fields on object types, plus (with probability `fill_abstract_p`) an implementing object
/// for every interface that has none.
pub fn schema(c: &mut Choices, o: &Opts) -> (Document, RefSchema) {
    let opts = gschema::Opts { descriptions: false, directives: false, deprecated: false, defaults: true, explicit_schema: true, max_types: 3 };
    let mut doc = gschema::schema(c, &opts);
    let pre = RefSchema::from_document(&doc);
    let outputs: Vec<String> = pre.types.iter().filter(|t| pre.is_output_named(&t.name) && !t.name.starts_with("__")).map(|t| t.name.clone()).collect();
    let composites: Vec<String> = outputs.iter().filter(|n| pre.is_composite(n)).cloned().collect();
    let roots: Vec<String> = [&pre.query, &pre.mutation].iter().filter_map(|r| (*r).clone()).collect();
    // list-rich extra fields
    let mut n_extra = 0;
    for d in doc.defs.iter_mut() {
        let Definition::Type(t) = d else { continue };
        if t.kind != TypeKind::Object || t.is_ext {
            continue;
        }
        // roots always get at least one composite-typed field, so that operations can go deep
        let is_root = roots.contains(&t.name);
        if !is_root && !c.bool(140) {
            continue;
        }
        let k = 1 + c.small(2);
        for j in 0..k {
            let named = if ((is_root && j == 0) || c.bool(140)) && !composites.is_empty() { composites[c.choose(composites.len())].clone() } else { outputs[c.choose(outputs.len())].clone() };
            let pat = if c.bool(40) { ["T", "T!"][c.choose(2)] } else { WRAPS[c.choose(WRAPS.len())] };
            t.fields.push(FieldDef { description: None, name: format!("l{}", n_extra), args: vec![], ty: wrap_pattern(pat, &named), directives: vec![] });
            n_extra += 1;
        }
    }
    // an implementing object for interfaces without one
    if c.bool(o.fill_abstract_p) {
        let mut add = vec![];
        for t in &pre.types {
            if t.kind == TypeKind::Interface && pre.possible_types(&t.name).is_empty() {
                let mut obj = TypeDef::new(TypeKind::Object, &format!("Impl{}", t.name));
                obj.implements = t.implements.clone();
                obj.implements.push(t.name.clone());
                obj.fields = t.fields.clone();
                add.push(Definition::Type(obj));
            }
        }
        doc.defs.extend(add);
    }
    let s = RefSchema::from_document(&doc);
    (doc, s)
}

// ------------------------------------------------------------------------------------------------
// Operation

struct G<'a> {
    s: &'a RefSchema,
    o: &'a Opts,
    vars: Vec<VarDef>,
    frags: Vec<FragmentDef>,
    n_frags: usize,
    /// response key -> binding
    keys: BTreeMap<String, String>,
    n_alias: usize,
    budget: usize,
    features: Vec<&'static str>,
}

fn intersects(a: &[String], b: &[String]) -> bool {
    a.iter().any(|x| b.contains(x))
}

impl<'a> G<'a> {
    fn feature(&mut self, f: &'static str) {
        if !self.features.contains(&f) {
            self.features.push(f);
        }
    }

    /// Composite types a fragment inside `parent` may have as type condition.
    fn applicable_conditions(&self, parent: &str) -> Vec<String> {
        let pp = self.s.possible_types(parent);
        self.s
            .types
            .iter()
            .filter(|t| !t.name.starts_with("__") && self.s.is_composite(&t.name) && intersects(&self.s.possible_types(&t.name), &pp))
            .map(|t| t.name.clone())
            .collect()
    }

    fn new_var(&mut self, ty: Type, default: Option<Value>) -> String {
        let name = format!("v{}", self.vars.len());
        self.vars.push(VarDef { name: name.clone(), ty, default, directives: vec![] });
        name
    }

    fn valid_literal(&self, c: &mut Choices, ty: &Type) -> Option<Value> {
        let v = gschema::value_for(c, ty, &self.s.types, 2);
        Coercer::new(self.s).coerce_literal(ty, &v, None, "$").ok().map(|_| v)
    }

    /// A variable usable at a position of type `loc` (whose definition has a default iff `loc_default`).
    fn variable_for(&mut self, c: &mut Choices, loc: &Type, loc_default: bool) -> String {
        // reuse a variable of exactly the location type
        if c.bool(50) {
            if let Some(name) = self.vars.iter().find(|v| v.ty == *loc).map(|v| v.name.clone()) {
                self.feature("var:reused");
                return name;
            }
        }
        match (loc, c.weighted(&[50, 20, 30])) {
            // T for T! thanks to a non-null default of the variable
            (Type::NonNull(inner), 1) => {
                if let Some(d) = self.valid_literal(c, loc) {
                    if d != Value::Null {
                        self.feature("var:nullable-with-default-at-non-null");
                        return self.new_var((**inner).clone(), Some(d));
                    }
                }
                self.new_var(loc.clone(), None)
            }
            // T for T! thanks to the location's default
            (Type::NonNull(inner), 2) if loc_default => {
                self.feature("var:nullable-at-non-null-with-location-default");
                self.new_var((**inner).clone(), None)
            }
            // T! for T
            (l, 1) if !l.is_non_null() => {
                self.feature("var:stricter");
                self.new_var(l.clone().non_null(), None)
            }
            _ => {
                let default = if c.bool(70) { self.valid_literal(c, loc) } else { None };
                if default.is_some() {
                    self.feature("var:default");
                }
                self.new_var(loc.clone(), default)
            }
        }
    }

    fn arguments(&mut self, c: &mut Choices, defs: &[InputValueDef]) -> Vec<(String, Value)> {
        let mut out = vec![];
        for a in defs {
            let required = a.ty.is_non_null() && a.default.is_none();
            if !required && !c.bool(150) {
                continue;
            }
            let lit = if c.bool(150) { self.valid_literal(c, &a.ty) } else { None };
            // an explicit `null` literal for a non-null argument is invalid; value_for never does
            // that at the top level, the check is for safety
            let lit = lit.filter(|v| !(a.ty.is_non_null() && *v == Value::Null));
            match lit {
                Some(v) => out.push((a.name.clone(), v)),
                None => {
                    let v = self.variable_for(c, &a.ty, a.default.is_some());
                    self.feature("arg:variable");
                    out.push((a.name.clone(), Value::Var(v)));
                }
            }
        }
        if !out.is_empty() {
            self.feature("arg");
        }
        out
    }

    fn conditions(&mut self, c: &mut Choices) -> Vec<Directive> {
        if !self.o.conditions || !c.bool(70) {
            return vec![];
        }
        let mut out = vec![];
        let which = c.weighted(&[40, 40, 20]);
        for (i, name) in ["skip", "include"].iter().enumerate() {
            if which == i || which == 2 {
                let v = if c.bool(110) {
                    // `Boolean!` (a null or absent value is never generated for it)
                    let ty = Type::named("Boolean").non_null();
                    let existing: Vec<String> = self.vars.iter().filter(|v| v.ty == ty).map(|v| v.name.clone()).collect();
                    let name = if !existing.is_empty() && c.bool(150) {
                        existing[c.choose(existing.len())].clone()
                    } else {
                        let default = if c.bool(90) { Some(Value::Bool(c.coin())) } else { None };
                        self.new_var(ty, default)
                    };
                    self.feature("condition:variable");
                    Value::Var(name)
                } else {
                    self.feature("condition:literal");
                    Value::Bool(c.coin())
                };
                out.push(Directive { name: name.to_string(), args: vec![("if".into(), v)] });
            }
        }
        if c.coin() {
            out.reverse();
        }
        out
    }

    /// Bind a response key for (field name, args, type); returns the alias to use (if any).
    fn bind_key(&mut self, c: &mut Choices, name: &str, args: &[(String, Value)], ty: &Type) -> Option<String> {
        let mut t = printer::Toks(vec![]);
        t.args(args);
        let binding = format!("{}|{}|{}", name, printer::join_plain(&t.0), ty.print());
        let wanted: Option<String> = if c.bool(60) {
            const POOL: [&str; 8] = ["k0", "k1", "k2", "a", "b", "id", "name", "__typename"];
            let a = POOL[c.choose(POOL.len())];
            // `__typename` as an alias is a name starting with `__`: legal as an alias? Names
            // starting with `__` are reserved for introspection; not generated.
            if a.starts_with("__") {
                None
            } else {
                Some(a.to_string())
            }
        } else {
            None
        };
        let key = wanted.clone().unwrap_or_else(|| name.to_string());
        match self.keys.get(&key) {
            None => {
                self.keys.insert(key, binding);
                if wanted.is_some() {
                    self.feature("alias");
                }
                wanted
            }
            Some(b) if *b == binding => {
                self.feature("key:merged-binding");
                wanted
            }
            Some(_) => {
                let fresh = format!("z{}", self.n_alias);
                self.n_alias += 1;
                self.keys.insert(fresh.clone(), binding);
                self.feature("alias");
                self.feature("alias:forced");
                Some(fresh)
            }
        }
    }

    fn field(&mut self, c: &mut Choices, parent: &str, def: &FieldDef, depth: usize) -> Selection {
        let args = self.arguments(c, &def.args);
        let alias = self.bind_key(c, &def.name, &args, &def.ty);
        let directives = self.conditions(c);
        let inner = def.ty.inner_name().to_string();
        let selection_set = if self.s.is_composite(&inner) {
            if def.ty.depth() > 0 {
                self.feature(if def.ty.depth() > 1 { "select:nested-list-of-composite" } else { "select:list-of-composite" });
            }
            if self.s.is_abstract(&inner) {
                self.feature("select:abstract");
            }
            self.selection_set(c, &inner, depth + 1)
        } else {
            if def.ty.depth() > 1 {
                self.feature("select:nested-list-of-leaf");
            } else if def.ty.depth() == 1 {
                self.feature("select:list-of-leaf");
            }
            vec![]
        };
        let _ = parent;
        Selection::Field(Field { alias, name: def.name.clone(), args, directives, selection_set })
    }

    fn typename(&mut self, c: &mut Choices) -> Selection {
        let ty = Type::named("String").non_null();
        let alias = self.bind_key(c, "__typename", &[], &ty);
        self.feature("__typename");
        Selection::Field(Field { alias, name: "__typename".into(), args: vec![], directives: self.conditions(c), selection_set: vec![] })
    }

    fn selection_set(&mut self, c: &mut Choices, parent: &str, depth: usize) -> Vec<Selection> {
        let s = self.s;
        let fields: Vec<FieldDef> = s.get(parent).map(|t| t.fields.clone()).unwrap_or_default();
        // at the depth bound only leaf fields and __typename
        let usable: Vec<&FieldDef> = fields.iter().filter(|f| depth < self.o.max_depth || !s.is_composite(f.ty.inner_name())).collect();
        let n = if depth <= 1 { 2 + c.small(4) } else { 1 + c.small(4) };
        let mut out: Vec<Selection> = vec![];
        for _ in 0..n {
            if self.budget == 0 {
                break;
            }
            self.budget -= 1;
            let w_field = if usable.is_empty() { 0 } else { 60 };
            let w_frag = if depth < self.o.max_depth + 1 { 14 } else { 0 };
            let w_dup = if out.is_empty() { 0 } else { 8 };
            match c.weighted(&[w_field, 8, w_frag, w_frag, w_dup]) {
                0 if w_field > 0 => {
                    // prefer fields that open a sub-selection, so that operations get deep
                    let deep: Vec<&&FieldDef> = usable.iter().filter(|f| s.is_composite(f.ty.inner_name())).collect();
                    let def = if !deep.is_empty() && c.bool(130) { (**deep[c.choose(deep.len())]).clone() } else { usable[c.choose(usable.len())].clone() };
                    out.push(self.field(c, parent, &def, depth));
                }
                2 => {
                    // inline fragment
                    let conds = self.applicable_conditions(parent);
                    let cond = if conds.is_empty() || c.bool(60) { None } else { Some(conds[c.choose(conds.len())].clone()) };
                    let on = cond.clone().unwrap_or_else(|| parent.to_string());
                    if let Some(t) = &cond {
                        self.feature(if t == parent { "inline:same-type" } else { "inline:other-type" });
                    } else {
                        self.feature("inline:no-condition");
                    }
                    let directives = self.conditions(c);
                    let selection_set = self.selection_set(c, &on, depth + 1);
                    out.push(Selection::Inline(InlineFragment { type_condition: cond, directives, selection_set }));
                }
                3 => {
                    let conds = self.applicable_conditions(parent);
                    if conds.is_empty() {
                        out.push(self.typename(c));
                        continue;
                    }
                    let reusable: Vec<String> = self.frags.iter().filter(|f| conds.contains(&f.type_condition)).map(|f| f.name.clone()).collect();
                    let name = if !reusable.is_empty() && c.bool(120) {
                        self.feature("spread:reused-fragment");
                        reusable[c.choose(reusable.len())].clone()
                    } else {
                        let on = conds[c.choose(conds.len())].clone();
                        let name = format!("F{}", self.n_frags);
                        self.n_frags += 1;
                        let selection_set = self.selection_set(c, &on, depth + 1);
                        self.frags.push(FragmentDef { name: name.clone(), type_condition: on, directives: vec![], selection_set });
                        name
                    };
                    self.feature("spread");
                    let directives = self.conditions(c);
                    out.push(Selection::Spread(FragmentSpread { name, directives }));
                }
                4 if w_dup > 0 => {
                    // the same selection again (merged at execution); conditions may differ
                    let i = c.choose(out.len());
                    let mut dup = out[i].clone();
                    if let Selection::Field(f) = &mut dup {
                        f.directives = self.conditions(c);
                        if !f.selection_set.is_empty() && c.coin() {
                            // a different sub-selection for the same key: merged sub-selections
                            let def = s.field(parent, &f.name);
                            if let Some(def) = def {
                                f.selection_set = self.selection_set(c, def.ty.inner_name(), depth + 1);
                                self.feature("dup:different-subselection");
                            }
                        }
                    }
                    self.feature("dup");
                    out.push(dup);
                }
                _ => out.push(self.typename(c)),
            }
        }
        if out.is_empty() {
            out.push(self.typename(c));
        }
        out
    }

    fn meta(&mut self, c: &mut Choices) -> Selection {
        let n = self.n_alias;
        self.n_alias += 1;
        let leafs = ["name", "description", "kind"];
        if c.coin() {
            self.feature("meta:__type");
            let target = self.s.user_types.first().cloned().unwrap_or_else(|| "Query".into());
            let sub = Selection::Field(Field { alias: None, name: leafs[c.choose(3)].into(), args: vec![], directives: vec![], selection_set: vec![] });
            Selection::Field(Field { alias: Some(format!("m{}", n)), name: "__type".into(), args: vec![("name".into(), Value::str(&target))], directives: vec![], selection_set: vec![sub] })
        } else {
            self.feature("meta:__schema");
            let sub = Selection::Field(Field { alias: None, name: "description".into(), args: vec![], directives: vec![], selection_set: vec![] });
            Selection::Field(Field { alias: Some(format!("m{}", n)), name: "__schema".into(), args: vec![], directives: vec![], selection_set: vec![sub] })
        }
    }
}

/// A valid operation (with its fragments) against `s`.
pub fn operation(c: &mut Choices, s: &RefSchema, o: &Opts) -> (Document, Vec<&'static str>) {
    let mut g = G { s, o, vars: vec![], frags: vec![], n_frags: 0, keys: BTreeMap::new(), n_alias: 0, budget: o.budget, features: vec![] };
    let op = if o.mutations && s.mutation.is_some() && c.bool(o.mutation_p) { OpType::Mutation } else { OpType::Query };
    let root = s.root(op).unwrap_or("Query").to_string();
    let mut selection_set = g.selection_set(c, &root, 1);
    if op == OpType::Query && o.introspection_meta && c.bool(10) {
        let m = g.meta(c);
        let i = c.choose(selection_set.len() + 1);
        selection_set.insert(i, m);
    }
    g.feature(if op == OpType::Mutation { "op:mutation" } else { "op:query" });
    let shorthand = op == OpType::Query && g.vars.is_empty() && c.bool(60);
    let name = if shorthand || c.bool(60) { None } else { Some("Q".to_string()) };
    let opdef = OperationDef { op, shorthand, name, vars: g.vars.clone(), directives: vec![], selection_set };
    let mut defs: Vec<Definition> = g.frags.iter().cloned().map(Definition::Fragment).collect();
    let at = if c.coin() { 0 } else { defs.len() };
    defs.insert(at, Definition::Operation(opdef));
    (Document { defs }, g.features)
}

/// Schema + operation + variables (fault-free: the reference coercion accepts them, barring the
/// documented unspecified corners, which the caller skips).
pub fn case(bytes: &[u8], o: &Opts) -> Case {
    // two streams so that neither starves the other: even bytes drive the schema, odd bytes the
    // operation and variables
    let sb: Vec<u8> = bytes.iter().step_by(2).cloned().collect();
    let cb: Vec<u8> = bytes.iter().skip(1).step_by(2).cloned().collect();
    let mut cs = Choices::new(&sb);
    let mut c = Choices::new(&cb);
    let (schema_doc, schema) = schema(&mut cs, o);
    let sdl = printer::print_document(&schema_doc);
    let (op_doc, features) = operation(&mut c, &schema, o);
    let op_text = printer::print_document(&op_doc);
    let var_defs = op_doc.defs.iter().find_map(|d| if let Definition::Operation(o) = d { Some(o.vars.clone()) } else { None }).unwrap_or_default();
    let mut jg = JsonGen::new(&schema, 0);
    let mut variables = if var_defs.is_empty() { serde_json::Map::new() } else { jg.variables(&mut c, &var_defs) };
    // an explicit null for a Non-Null variable (that has a default) is a request error: leave the
    // variable out instead, so that its default applies
    for d in &var_defs {
        if d.ty.is_non_null() && variables.get(&d.name).map(|v| v.is_null()).unwrap_or(false) {
            variables.remove(&d.name);
        }
    }
    Case { schema_doc, schema, sdl, op_doc, op_text, var_defs, variables, features }
}

/// Split a case's choice bytes: the first two thirds drive schema and operation (`case`), the last
/// third is for the property (resolver world, schedules, response-builder configuration).
pub fn split_world_bytes(bytes: &[u8]) -> (Vec<u8>, Vec<u8>) {
    let cut = bytes.len() - bytes.len() / 3;
    (bytes[..cut].to_vec(), bytes[cut..].to_vec())
}
