//! Richer extension splitter for C12 / C13: takes a valid-by-construction schema document from
//! `gen::schema::schema` and rewrites it into a document that still BUILDS (and usually still
//! validates) but exercises every way components can reach a type:
//!
//! * 0–3 extensions per type; every component (directive, implemented interface, field, enum value,
//!   union member, input field) is assigned to the definition or to any of the extensions
//!   (so an extension may carry both directives and components, or only one of them);
//! * extensions are inserted at arbitrary positions (before or after the definition, several
//!   extensions of one type in a row);
//! * explicit schema definitions are split into `extend schema` parts (directives and root
//!   operations); implicit schema definitions get `extend schema` with directives and, when the
//!   conventional root type is absent, a root operation contributed by the extension;
//! * one built-in directive may be redefined once; a catch-all repeatable directive `@tag` is
//!   (usually) defined so that directive applications can be put anywhere;
//! * a built-in scalar or an introspection type is occasionally extended.

use super::schema;
use crate::choices::Choices;
use crate::refmodel::ast::*;

#[derive(Clone, Debug, Default)]
pub struct ExtStats {
    pub type_exts: usize,
    pub schema_exts: usize,
    pub max_exts_one_type: usize,
    /// extensions that carry at least one directive AND at least one other component
    pub dir_and_components: usize,
    /// pairs of directly adjacent extensions of the same type
    pub adjacent_same_type: usize,
    /// extensions placed before their definition
    pub ext_before_def: usize,
    pub builtin_redefined: Option<&'static str>,
    pub tag_defined: bool,
    pub builtin_scalar_ext: bool,
    pub introspection_ext: bool,
    pub roots_in_ext: usize,
    pub explicit_schema: bool,
    /// an explicit schema definition that omits a root whose conventionally named type exists
    pub root_omitted: bool,
    pub kinds_extended: Vec<TypeKind>,
}

pub const TAG: &str = "tag";

fn tag_def() -> DirectiveDef {
    DirectiveDef {
        description: None,
        name: TAG.into(),
        args: vec![InputValueDef { description: None, name: "n".into(), ty: Type::named("Int"), default: None, directives: vec![] }],
        repeatable: true,
        locations: TYPE_SYSTEM_LOCATIONS.iter().map(|s| s.to_string()).collect(),
    }
}

fn tag(c: &mut Choices) -> Directive {
    let args = if c.coin() { vec![("n".to_string(), Value::Int(c.choose(10).to_string()))] } else { vec![] };
    Directive { name: TAG.into(), args }
}

fn iv(name: &str, ty: Type, default: Option<Value>) -> InputValueDef {
    InputValueDef { description: None, name: name.into(), ty, default, directives: vec![] }
}

fn locs(l: &[&str]) -> Vec<String> {
    l.iter().map(|s| s.to_string()).collect()
}

/// Redefinitions of built-in directives (allowed once per directive by the schema builder).
fn builtin_redefinition(c: &mut Choices) -> (DirectiveDef, &'static str) {
    match c.choose(6) {
        0 => (
            DirectiveDef {
                description: None,
                name: "deprecated".into(),
                args: vec![iv("reason", Type::named("String"), Some(Value::str("No longer supported")))],
                repeatable: false,
                locations: locs(&["FIELD_DEFINITION", "ARGUMENT_DEFINITION", "INPUT_FIELD_DEFINITION", "ENUM_VALUE"]),
            },
            "deprecated",
        ),
        1 => (
            DirectiveDef {
                description: Some(StrLit::plain("redefined")),
                name: "deprecated".into(),
                args: vec![iv("reason", Type::named("String"), None)],
                repeatable: false,
                locations: locs(&["ENUM_VALUE", "FIELD_DEFINITION", "INPUT_FIELD_DEFINITION", "ARGUMENT_DEFINITION"]),
            },
            "deprecated",
        ),
        2 => (
            // the example of the task statement: narrower than the built-in one, so uses elsewhere
            // make the schema invalid (it still builds)
            DirectiveDef { description: None, name: "deprecated".into(), args: vec![iv("reason", Type::named("String"), None)], repeatable: false, locations: locs(&["FIELD_DEFINITION"]) },
            "deprecated-narrow",
        ),
        3 => (
            DirectiveDef { description: None, name: "specifiedBy".into(), args: vec![iv("url", Type::named("String").non_null(), None)], repeatable: false, locations: locs(&["SCALAR"]) },
            "specifiedBy",
        ),
        4 => (
            DirectiveDef {
                description: Some(StrLit::plain("my skip")),
                name: "skip".into(),
                args: vec![iv("if", Type::named("Boolean").non_null(), None)],
                repeatable: false,
                locations: locs(&["FIELD", "FRAGMENT_SPREAD", "INLINE_FRAGMENT"]),
            },
            "skip",
        ),
        _ => (
            DirectiveDef {
                description: None,
                name: "include".into(),
                args: vec![iv("if", Type::named("Boolean").non_null(), None)],
                repeatable: true,
                locations: locs(&["INLINE_FRAGMENT", "FIELD", "FRAGMENT_SPREAD", "FIELD_DEFINITION"]),
            },
            "include",
        ),
    }
}

fn ext_is_empty(e: &TypeDef) -> bool {
    e.directives.is_empty() && e.implements.is_empty() && e.fields.is_empty() && e.members.is_empty() && e.values.is_empty() && e.input_fields.is_empty()
}

fn component_count(e: &TypeDef) -> usize {
    e.implements.len() + e.fields.len() + e.members.len() + e.values.len() + e.input_fields.len()
}

/// Distribute `items` over `n + 1` parts (0 = the definition), keeping relative order per part.
fn distribute<T>(c: &mut Choices, items: Vec<T>, n: usize) -> Vec<Vec<T>> {
    let mut parts: Vec<Vec<T>> = (0..=n).map(|_| vec![]).collect();
    for it in items {
        let p = c.choose(n + 1);
        parts[p].push(it);
    }
    parts
}

struct Fresh(usize);
impl Fresh {
    fn field(&mut self) -> FieldDef {
        self.0 += 1;
        FieldDef { description: None, name: format!("x{}", self.0), args: vec![], ty: Type::named("Int"), directives: vec![] }
    }
    fn input(&mut self) -> InputValueDef {
        self.0 += 1;
        iv(&format!("x{}", self.0), Type::named("Int"), None)
    }
    fn value(&mut self) -> EnumValueDef {
        self.0 += 1;
        EnumValueDef { description: None, name: format!("X{}", self.0), directives: vec![] }
    }
}

/// Split one type definition into the definition and 0–3 extensions.
fn split_type(c: &mut Choices, t: &mut TypeDef, fresh: &mut Fresh) -> Vec<TypeDef> {
    let n = c.weighted(&[30, 30, 22, 18]);
    if n == 0 {
        return vec![];
    }
    let mut exts: Vec<TypeDef> = (0..n)
        .map(|_| {
            let mut e = TypeDef::new(t.kind, &t.name);
            e.is_ext = true;
            e
        })
        .collect();
    macro_rules! spread {
        ($field: ident) => {{
            let items = std::mem::take(&mut t.$field);
            let mut parts = distribute(c, items, n);
            for (i, p) in parts.drain(..).enumerate() {
                if i == 0 {
                    t.$field = p;
                } else {
                    exts[i - 1].$field = p;
                }
            }
        }};
    }
    spread!(directives);
    spread!(implements);
    spread!(fields);
    spread!(members);
    spread!(values);
    spread!(input_fields);
    for e in exts.iter_mut() {
        // extra directive applications: extensions that carry both directives and components
        if c.bool(100) {
            let d = tag(c);
            if c.coin() {
                e.directives.push(d);
            } else {
                e.directives.insert(0, d);
            }
        }
        if ext_is_empty(e) {
            match t.kind {
                TypeKind::Object => e.fields.push(fresh.field()),
                TypeKind::InputObject => e.input_fields.push(fresh.input()),
                TypeKind::Enum => e.values.push(fresh.value()),
                // a new interface field would have to be implemented by every implementer; mostly
                // keep the schema valid and contribute a directive instead
                TypeKind::Interface if c.bool(40) => e.fields.push(fresh.field()),
                _ => e.directives.push(tag(c)),
            }
        }
    }
    if c.bool(50) {
        t.directives.push(tag(c));
    }
    exts
}

/// Rewrite `doc` in place. Returns statistics for the class histogram.
pub fn enrich(c: &mut Choices, doc: &mut Document) -> ExtStats {
    let mut st = ExtStats::default();
    let mut fresh = Fresh(0);
    let mut new_defs: Vec<Definition> = vec![];
    let mut exts: Vec<Definition> = vec![];

    st.tag_defined = !c.bool(30);
    if st.tag_defined {
        new_defs.push(Definition::Directive(tag_def()));
    }
    if c.bool(70) {
        let (d, which) = builtin_redefinition(c);
        st.builtin_redefined = Some(which);
        new_defs.push(Definition::Directive(d));
    }

    // directive applications on enum values, input fields and arguments as well
    for d in doc.defs.iter_mut() {
        if let Definition::Type(t) = d {
            for v in t.values.iter_mut() {
                if c.bool(24) {
                    v.directives.push(tag(c));
                }
            }
            for f in t.input_fields.iter_mut() {
                if c.bool(24) {
                    f.directives.push(tag(c));
                }
            }
            for f in t.fields.iter_mut() {
                for a in f.args.iter_mut() {
                    if c.bool(16) {
                        a.directives.push(tag(c));
                    }
                }
                if c.bool(16) {
                    // several applications of the repeatable directive: their relative order is observable
                    f.directives.push(tag(c));
                    if c.bool(64) {
                        f.directives.insert(0, tag(c));
                    }
                }
            }
        }
        if let Definition::Directive(dd) = d {
            for a in dd.args.iter_mut() {
                if c.bool(24) {
                    a.directives.push(tag(c));
                }
            }
        }
    }

    // type extensions
    for d in doc.defs.iter_mut() {
        if let Definition::Type(t) = d {
            if t.is_ext {
                continue;
            }
            let es = split_type(c, t, &mut fresh);
            if !es.is_empty() {
                st.max_exts_one_type = st.max_exts_one_type.max(es.len());
                if !st.kinds_extended.contains(&t.kind) {
                    st.kinds_extended.push(t.kind);
                }
            }
            for e in es {
                if !e.directives.is_empty() && component_count(&e) > 0 {
                    st.dir_and_components += 1;
                }
                st.type_exts += 1;
                exts.push(Definition::Type(e));
            }
        }
    }

    // schema definition and its extensions
    let has_type = |doc: &Document, n: &str| doc.defs.iter().any(|d| matches!(d, Definition::Type(t) if t.name == n));
    let schema_idx = doc.defs.iter().position(|d| matches!(d, Definition::Schema(s) if !s.is_ext));
    st.explicit_schema = schema_idx.is_some();
    if let Some(i) = schema_idx {
        let n = c.weighted(&[45, 35, 20]);
        if let Definition::Schema(sd) = &mut doc.defs[i] {
            if c.bool(90) {
                sd.directives.push(tag(c));
            }
            if sd.roots.len() > 1 && c.bool(40) {
                // the root type stays defined but is no longer a root operation type
                sd.roots.pop();
                st.root_omitted = true;
            }
            if n > 0 {
                let mut parts: Vec<SchemaDef> = (0..n).map(|_| SchemaDef { is_ext: true, description: None, directives: vec![], roots: vec![] }).collect();
                // the definition keeps its first root operation (a `schema` definition without any
                // root operation is not grammatical)
                let rest: Vec<(OpType, String)> = sd.roots.split_off(1.min(sd.roots.len()));
                for r in rest {
                    let p = c.choose(n + 1);
                    if p == 0 {
                        sd.roots.push(r);
                    } else {
                        parts[p - 1].roots.push(r);
                        st.roots_in_ext += 1;
                    }
                }
                let ds = std::mem::take(&mut sd.directives);
                for d in ds {
                    let p = c.choose(n + 1);
                    if p == 0 {
                        sd.directives.push(d);
                    } else {
                        parts[p - 1].directives.push(d);
                    }
                }
                for mut p in parts {
                    if c.bool(110) || (p.roots.is_empty() && p.directives.is_empty()) {
                        p.directives.push(tag(c));
                    }
                    st.schema_exts += 1;
                    exts.push(Definition::Schema(p));
                }
            }
        }
    } else if c.bool(110) {
        // implicit schema definition, extended (apollo-rs issue 682)
        let n = 1 + c.choose(2);
        let mut parts: Vec<SchemaDef> = (0..n).map(|_| SchemaDef { is_ext: true, description: None, directives: vec![], roots: vec![] }).collect();
        for (op, alt) in [(OpType::Mutation, "AltMutation"), (OpType::Subscription, "AltSubscription")] {
            if !has_type(doc, op.default_root()) && c.bool(120) {
                let mut t = TypeDef::new(TypeKind::Object, alt);
                t.fields.push(fresh.field());
                new_defs.push(Definition::Type(t));
                let p = c.choose(n);
                parts[p].roots.push((op, alt.to_string()));
                st.roots_in_ext += 1;
            }
        }
        for mut p in parts {
            if c.bool(140) || (p.roots.is_empty() && p.directives.is_empty()) {
                p.directives.push(tag(c));
            }
            st.schema_exts += 1;
            exts.push(Definition::Schema(p));
        }
    }

    // extensions of built-in types
    if c.bool(40) {
        let mut e = TypeDef::new(TypeKind::Scalar, c.pick(&["String", "Int", "ID", "Boolean", "Float"]));
        e.is_ext = true;
        e.directives.push(tag(c));
        st.builtin_scalar_ext = true;
        st.type_exts += 1;
        exts.push(Definition::Type(e));
    }
    if c.bool(16) {
        let e = match c.choose(3) {
            0 => {
                let mut e = TypeDef::new(TypeKind::Object, "__Schema");
                e.directives.push(tag(c));
                e
            }
            1 => {
                let mut e = TypeDef::new(TypeKind::Object, "__Type");
                e.fields.push(fresh.field());
                e
            }
            _ => {
                let mut e = TypeDef::new(TypeKind::Enum, "__TypeKind");
                e.values.push(fresh.value());
                e
            }
        };
        let mut e = e;
        e.is_ext = true;
        st.introspection_ext = true;
        st.type_exts += 1;
        exts.push(Definition::Type(e));
    }

    // placement
    for d in new_defs {
        let i = c.choose(doc.defs.len() + 1);
        doc.defs.insert(i, d);
    }
    for e in exts {
        // sometimes directly after the previous extension of the same type/schema
        let same = |d: &Definition| match (d, &e) {
            (Definition::Type(a), Definition::Type(b)) => a.is_ext && a.name == b.name,
            (Definition::Schema(a), Definition::Schema(_)) => a.is_ext,
            _ => false,
        };
        let prev = doc.defs.iter().rposition(|d| same(d));
        let i = match prev {
            Some(p) if c.bool(90) => p + 1,
            _ => c.choose(doc.defs.len() + 1),
        };
        doc.defs.insert(i, e);
    }

    // statistics on placement
    for (i, d) in doc.defs.iter().enumerate() {
        match d {
            Definition::Type(t) if t.is_ext => {
                if let Some(Definition::Type(p)) = i.checked_sub(1).map(|j| &doc.defs[j]) {
                    if p.is_ext && p.name == t.name {
                        st.adjacent_same_type += 1;
                    }
                }
                if doc.defs[i..].iter().any(|x| matches!(x, Definition::Type(u) if !u.is_ext && u.name == t.name)) {
                    st.ext_before_def += 1;
                }
            }
            Definition::Schema(s) if s.is_ext => {
                if doc.defs[i..].iter().any(|x| matches!(x, Definition::Schema(u) if !u.is_ext)) {
                    st.ext_before_def += 1;
                }
            }
            _ => {}
        }
    }
    st
}

/// A schema document that builds cleanly, with rich extension structure.
pub fn rich_schema(c: &mut Choices, max_types: usize) -> (Document, ExtStats) {
    let opts = schema::Opts { max_types, ..schema::Opts::default() };
    let mut doc = schema::schema(c, &opts);
    let st = enrich(c, &mut doc);
    (doc, st)
}

#[cfg(test)]
mod tests {
    use super::*;
    use crate::refmodel::{parser::parse_document, printer};
    #[test]
    fn rich_schemas_print_and_parse() {
        let mut seed = 11u64;
        let mut exts = 0;
        for i in 0..2000 {
            let bytes: Vec<u8> = (0..(i % 900))
                .map(|_| {
                    seed = seed.wrapping_mul(6364136223846793005).wrapping_add(1442695040888963407);
                    (seed >> 33) as u8
                })
                .collect();
            let mut c = Choices::new(&bytes);
            let (d, st) = rich_schema(&mut c, 3);
            exts += st.type_exts;
            let text = printer::print_document(&d);
            let back = parse_document(&text).unwrap_or_else(|e| panic!("{text}\n{e:?}"));
            assert_eq!(back, d);
        }
        assert!(exts > 1000);
    }
}
