//! Semantic schema generator: type-system documents that are VALID BY CONSTRUCTION
//! (October 2021 type-system rules), as reference ASTs. Rule-targeted mutation is done elsewhere.

use super::strlit;
use crate::choices::Choices;
use crate::refmodel::ast::*;

#[derive(Clone, Debug)]
pub struct Opts {
    /// allow descriptions (block and quoted)
    pub descriptions: bool,
    /// allow custom directive definitions and applications
    pub directives: bool,
    /// allow @deprecated
    pub deprecated: bool,
    /// allow default values on arguments / input fields
    pub defaults: bool,
    /// use an explicit `schema { ... }` definition sometimes, with non-default root names
    pub explicit_schema: bool,
    pub max_types: usize,
}

impl Default for Opts {
    fn default() -> Self {
        Opts { descriptions: true, directives: true, deprecated: true, defaults: true, explicit_schema: true, max_types: 3 }
    }
}

pub struct Names {
    pub objects: Vec<String>,
    pub interfaces: Vec<String>,
    pub unions: Vec<String>,
    pub enums: Vec<String>,
    pub inputs: Vec<String>,
    pub scalars: Vec<String>,
}

const FIELD_NAMES: &[&str] = &["a", "b", "c", "d", "e", "f", "g", "h", "id", "name", "x", "y", "z", "list", "node", "type", "query", "on"];
const ARG_NAMES: &[&str] = &["p", "q", "r", "s", "first", "if", "input"];
const ENUM_VALUES: &[&str] = &["RED", "GREEN", "BLUE", "on", "type", "A_1", "_x", "Query"];

fn desc(c: &mut Choices, o: &Opts, p: u32) -> Option<StrLit> {
    if o.descriptions && c.bool(p) {
        Some(strlit::description(c))
    } else {
        None
    }
}

fn wrap_output(c: &mut Choices, named: &str) -> Type {
    let base = Type::named(named);
    match c.weighted(&[40, 20, 12, 10, 8, 5, 5]) {
        0 => base,
        1 => base.non_null(),
        2 => base.list(),
        3 => base.non_null().list(),
        4 => base.non_null().list().non_null(),
        5 => base.list().list(),
        _ => base.list().non_null(),
    }
}

fn pick_s(c: &mut Choices, v: &[String]) -> String {
    v[c.choose(v.len())].clone()
}

fn distinct_names(c: &mut Choices, pool: &[&str], n: usize) -> Vec<String> {
    // pick n distinct names from pool, order decided by choices
    let mut avail: Vec<&str> = pool.to_vec();
    let mut out = vec![];
    for _ in 0..n.min(pool.len()) {
        let i = c.choose(avail.len());
        out.push(avail.remove(i).to_string());
    }
    out
}

/// A literal valid for input type `ty` (used for defaults and directive arguments).
pub fn value_for(c: &mut Choices, ty: &Type, doc_types: &[TypeDef], depth: usize) -> Value {
    match ty {
        Type::NonNull(t) => {
            let v = value_for(c, t, doc_types, depth);
            if v == Value::Null {
                // cannot happen for built-in leaves; for safety produce the simplest non-null
                simplest_non_null(t, doc_types)
            } else {
                v
            }
        }
        Type::List(t) => {
            if c.bool(40) {
                return Value::Null;
            }
            if c.bool(40) && !matches!(**t, Type::List(_)) {
                // single value coerces to a list of one (only for non-nested item types, to keep
                // the reference semantics unambiguous)
                let v = value_for(c, t, doc_types, depth);
                if v != Value::Null {
                    return v;
                }
            }
            let n = c.small(3);
            Value::List((0..n).map(|_| value_for(c, t, doc_types, depth)).collect())
        }
        Type::Named(n) => {
            if c.bool(30) {
                return Value::Null;
            }
            named_value(c, n, doc_types, depth)
        }
    }
}

fn simplest_non_null(ty: &Type, doc_types: &[TypeDef]) -> Value {
    match ty {
        Type::NonNull(t) => simplest_non_null(t, doc_types),
        Type::List(_) => Value::List(vec![]),
        Type::Named(n) => {
            let empty: [u8; 0] = [];
            let mut c = Choices::new(&empty);
            named_value(&mut c, n, doc_types, 0)
        }
    }
}

fn named_value(c: &mut Choices, n: &str, doc_types: &[TypeDef], depth: usize) -> Value {
    match n {
        "Int" => Value::Int(c.pick(&["0", "1", "-7", "42", "2147483647", "-2147483648"]).to_string()),
        "Float" => {
            if c.bool(60) {
                Value::Int(c.pick(&["0", "3", "-1"]).to_string())
            } else {
                Value::Float(c.pick(&["1.5", "0.0", "-2.25", "1e3", "6.02E23"]).to_string())
            }
        }
        "String" => Value::str(c.pick(&["", "s", "hello world", "é", "a\"b", "x\\y"])),
        "Boolean" => Value::Bool(c.coin()),
        "ID" => {
            if c.coin() {
                Value::str(c.pick(&["id1", "7", ""]))
            } else {
                Value::Int(c.pick(&["0", "12"]).to_string())
            }
        }
        _ => match doc_types.iter().find(|t| t.name == n && !t.is_ext) {
            Some(t) if t.kind == TypeKind::Enum => Value::Enum(t.values[c.choose(t.values.len())].name.clone()),
            Some(t) if t.kind == TypeKind::InputObject => {
                if depth == 0 {
                    // only required fields, each with its simplest value
                    let mut fields = vec![];
                    for f in &t.input_fields {
                        if f.ty.is_non_null() && f.default.is_none() {
                            fields.push((f.name.clone(), simplest_non_null(&f.ty, doc_types)));
                        }
                    }
                    return Value::Object(fields);
                }
                let mut fields = vec![];
                for f in &t.input_fields {
                    let required = f.ty.is_non_null() && f.default.is_none();
                    if required || c.bool(150) {
                        fields.push((f.name.clone(), value_for(c, &f.ty, doc_types, depth - 1)));
                    }
                }
                Value::Object(fields)
            }
            // custom scalar: any literal
            _ => match c.choose(4) {
                0 => Value::str("custom"),
                1 => Value::Int("5".into()),
                2 => Value::Bool(true),
                _ => Value::Object(vec![("k".into(), Value::List(vec![Value::Int("1".into())]))]),
            },
        },
    }
}

fn deprecated(c: &mut Choices, o: &Opts) -> Vec<Directive> {
    if o.deprecated && c.bool(40) {
        let args = if c.coin() { vec![("reason".to_string(), Value::str(c.pick(&["old", "use b", ""])))] } else { vec![] };
        vec![Directive { name: "deprecated".into(), args }]
    } else {
        vec![]
    }
}

/// Applications of custom directives valid at `location`.
fn apply(c: &mut Choices, o: &Opts, defs: &[DirectiveDef], location: &str, types: &[TypeDef]) -> Vec<Directive> {
    if !o.directives || defs.is_empty() || !c.bool(50) {
        return vec![];
    }
    let mut out: Vec<Directive> = vec![];
    let n = 1 + c.small(2);
    for _ in 0..n {
        let cands: Vec<&DirectiveDef> = defs.iter().filter(|d| d.locations.iter().any(|l| l == location)).collect();
        if cands.is_empty() {
            break;
        }
        let d = cands[c.choose(cands.len())];
        if !d.repeatable && out.iter().any(|x| x.name == d.name) {
            continue;
        }
        let mut args = vec![];
        for a in &d.args {
            let required = a.ty.is_non_null() && a.default.is_none();
            if required || c.bool(140) {
                args.push((a.name.clone(), value_for(c, &a.ty, types, 1)));
            }
        }
        out.push(Directive { name: d.name.clone(), args });
    }
    out
}

fn arguments(c: &mut Choices, o: &Opts, input_named: &[String], types: &[TypeDef], ddefs: &[DirectiveDef]) -> Vec<InputValueDef> {
    let n = if c.bool(90) { 1 + c.small(2) } else { 0 };
    let names = distinct_names(c, ARG_NAMES, n);
    names
        .into_iter()
        .map(|name| {
            let ty = { let n = pick_s(c, &input_named); wrap_input(c, &n) };
            let default = if o.defaults && c.bool(70) { Some(value_for(c, &ty, types, 1)) } else { None };
            let mut directives = if !ty.is_non_null() || default.is_some() { deprecated(c, o) } else { vec![] };
            directives.extend(apply(c, o, ddefs, "ARGUMENT_DEFINITION", types));
            InputValueDef { description: desc(c, o, 30), name, ty, default, directives }
        })
        .collect()
}

fn wrap_input(c: &mut Choices, named: &str) -> Type {
    let base = Type::named(named);
    match c.weighted(&[45, 20, 12, 10, 8, 5]) {
        0 => base,
        1 => base.non_null(),
        2 => base.list(),
        3 => base.non_null().list(),
        4 => base.non_null().list().non_null(),
        _ => base.list().list(),
    }
}

/// Covariant narrowing of an interface field type for an implementing type.
fn narrow(c: &mut Choices, ty: &Type, implementers: &dyn Fn(&str) -> Vec<String>) -> Type {
    match ty {
        Type::NonNull(t) => narrow(c, t, implementers).non_null(),
        Type::List(t) => {
            let inner = Type::List(Box::new(narrow(c, t, implementers)));
            if c.bool(60) {
                inner.non_null()
            } else {
                inner
            }
        }
        Type::Named(n) => {
            let subs = implementers(n);
            let named = if !subs.is_empty() && c.bool(90) { Type::Named(subs[c.choose(subs.len())].clone()) } else { Type::Named(n.clone()) };
            if c.bool(60) {
                named.non_null()
            } else {
                named
            }
        }
    }
}

/// Generate a valid schema document. Types are emitted in an order decided by choices.
pub fn schema(c: &mut Choices, o: &Opts) -> Document {
    let m = o.max_types;
    let n_iface = c.small(m);
    let n_obj = 1 + c.small(m);
    let n_union = c.small(2.min(m));
    let n_enum = c.small(2.min(m));
    let n_input = c.small(m);
    let n_scalar = c.small(2.min(m));
    let n_dir = if o.directives { c.small(3) } else { 0 };

    let explicit = o.explicit_schema && c.bool(90);
    let (qname, mname, sname) = if explicit && c.coin() { ("RootQ", "RootM", "RootS") } else { ("Query", "Mutation", "Subscription") };
    let has_mut = c.bool(90);
    let has_sub = c.bool(70);

    let names = Names {
        objects: (0..n_obj).map(|i| format!("Obj{}", i)).collect(),
        interfaces: (0..n_iface).map(|i| format!("Iface{}", i)).collect(),
        unions: (0..n_union).map(|i| format!("Uni{}", i)).collect(),
        enums: (0..n_enum).map(|i| format!("Enum{}", i)).collect(),
        inputs: (0..n_input).map(|i| format!("In{}", i)).collect(),
        scalars: (0..n_scalar).map(|i| format!("Scalar{}", i)).collect(),
    };

    let mut types: Vec<TypeDef> = vec![];

    // leaf types first (their definitions are needed to build valid default values)
    for n in &names.scalars {
        let mut t = TypeDef::new(TypeKind::Scalar, n);
        t.description = desc(c, o, 40);
        if c.bool(80) {
            t.directives.push(Directive { name: "specifiedBy".into(), args: vec![("url".into(), Value::str("https://example.com/spec"))] });
        }
        types.push(t);
    }
    for n in &names.enums {
        let mut t = TypeDef::new(TypeKind::Enum, n);
        t.description = desc(c, o, 40);
        let k = 1 + c.small(3);
        for v in distinct_names(c, ENUM_VALUES, k) {
            t.values.push(EnumValueDef { description: desc(c, o, 30), name: v, directives: deprecated(c, o) });
        }
        types.push(t);
    }
    let mut input_named: Vec<String> = BUILTIN_INPUT.iter().map(|s| s.to_string()).collect();
    input_named.extend(names.scalars.iter().cloned());
    input_named.extend(names.enums.iter().cloned());

    // directive definitions (arguments over leaf input types only, so no cycles through directives)
    let mut ddefs: Vec<DirectiveDef> = vec![];
    for i in 0..n_dir {
        let nl = 1 + c.small(4);
        let mut locations: Vec<String> = vec![];
        for _ in 0..nl {
            let l = if c.bool(150) { c.pick(&TYPE_SYSTEM_LOCATIONS) } else { c.pick(&EXECUTABLE_LOCATIONS) };
            if !locations.iter().any(|x| x == l) {
                locations.push(l.to_string());
            }
        }
        let na = c.small(2);
        let args = distinct_names(c, ARG_NAMES, na)
            .into_iter()
            .map(|name| {
                let ty = { let n = pick_s(c, &input_named); wrap_input(c, &n) };
                let default = if o.defaults && c.bool(80) { Some(value_for(c, &ty, &types, 1)) } else { None };
                InputValueDef { description: desc(c, o, 20), name, ty, default, directives: vec![] }
            })
            .collect();
        ddefs.push(DirectiveDef { description: desc(c, o, 40), name: format!("dir{}", i), args, repeatable: c.bool(80), locations });
    }
    // leaf types may now carry directive applications
    for t in types.iter_mut() {
        let loc = if t.kind == TypeKind::Scalar { "SCALAR" } else { "ENUM" };
        let snapshot: Vec<TypeDef> = vec![];
        // A directive applied to a leaf type must not (transitively) use that type in its own
        // arguments (directive definitions may not reference themselves): only directives whose
        // arguments are all built-in scalars are eligible here, and they are applied without
        // arguments that need user types.
        let eligible: Vec<DirectiveDef> = ddefs.iter().filter(|d| d.args.iter().all(|a| BUILTIN_INPUT.contains(&a.ty.inner_name()))).cloned().collect();
        let extra = apply(c, o, &eligible, loc, &snapshot);
        t.directives.extend(extra);
    }

    // input objects: In_i may reference In_j (j < i) with any wrapper, and any In (incl. itself,
    // later ones) only nullable or inside a list => no non-null cycle.
    for (i, n) in names.inputs.iter().enumerate() {
        let mut t = TypeDef::new(TypeKind::InputObject, n);
        t.description = desc(c, o, 40);
        let k = 1 + c.small(3);
        for fname in distinct_names(c, FIELD_NAMES, k) {
            let choice = c.weighted(&[60, 25, 15]);
            let ty = match choice {
                1 if i > 0 => { let n = pick_s(c, &names.inputs[..i]); wrap_input(c, &n) },
                2 => {
                    let target = &names.inputs[c.choose(names.inputs.len())];
                    if c.coin() {
                        Type::named(target)
                    } else {
                        Type::named(target).non_null().list()
                    }
                }
                _ => { let n = pick_s(c, &input_named); wrap_input(c, &n) },
            };
            // defaults only for leaf-typed fields (input-object literals need all definitions)
            let leafy = input_named.iter().any(|x| x == ty.inner_name());
            let default = if o.defaults && leafy && c.bool(70) { Some(value_for(c, &ty, &types, 1)) } else { None };
            let directives = if !ty.is_non_null() || default.is_some() { deprecated(c, o) } else { vec![] };
            t.input_fields.push(InputValueDef { description: desc(c, o, 30), name: fname, ty, default, directives });
        }
        types.push(t);
    }
    input_named.extend(names.inputs.iter().cloned());

    // interfaces: Iface_i may implement Iface_j for j < i (closed under transitivity)
    let mut iface_impl: Vec<Vec<usize>> = vec![];
    for i in 0..n_iface {
        let mut set: Vec<usize> = vec![];
        for j in 0..i {
            if c.bool(90) {
                for &k in &iface_impl[j] {
                    if !set.contains(&k) {
                        set.push(k);
                    }
                }
                if !set.contains(&j) {
                    set.push(j);
                }
            }
        }
        set.sort();
        iface_impl.push(set);
    }
    // objects: which interfaces (closed)
    let mut obj_impl: Vec<Vec<usize>> = vec![];
    for _ in 0..n_obj {
        let mut set: Vec<usize> = vec![];
        for j in 0..n_iface {
            if c.bool(110) {
                for &k in &iface_impl[j] {
                    if !set.contains(&k) {
                        set.push(k);
                    }
                }
                if !set.contains(&j) {
                    set.push(j);
                }
            }
        }
        set.sort();
        obj_impl.push(set);
    }
    // unions
    let mut union_members: Vec<Vec<String>> = vec![];
    for _ in 0..n_union {
        let k = 1 + c.small(2);
        let mut pool: Vec<&str> = names.objects.iter().map(|s| s.as_str()).collect();
        pool.push(qname);
        union_members.push(distinct_names(c, &pool, k));
    }

    let mut output_named: Vec<String> = BUILTIN_INPUT.iter().map(|s| s.to_string()).collect();
    output_named.extend(names.scalars.iter().cloned());
    output_named.extend(names.enums.iter().cloned());
    output_named.extend(names.objects.iter().cloned());
    output_named.extend(names.interfaces.iter().cloned());
    output_named.extend(names.unions.iter().cloned());
    output_named.push(qname.to_string());

    // who may stand in for a named type in a covariant position
    let subs_of = |n: &str| -> Vec<String> {
        let mut out = vec![];
        if let Some(i) = names.interfaces.iter().position(|x| x == n) {
            for (k, set) in iface_impl.iter().enumerate() {
                if set.contains(&i) {
                    out.push(names.interfaces[k].clone());
                }
            }
            for (k, set) in obj_impl.iter().enumerate() {
                if set.contains(&i) {
                    out.push(names.objects[k].clone());
                }
            }
        }
        if let Some(u) = names.unions.iter().position(|x| x == n) {
            out.extend(union_members[u].iter().cloned());
        }
        out
    };

    let snapshot = types.clone();
    let mut gen_fields = |c: &mut Choices, k: usize, exclude: &[String]| -> Vec<FieldDef> {
        let pool: Vec<&str> = FIELD_NAMES.iter().cloned().filter(|n| !exclude.iter().any(|e| e == n)).collect();
        distinct_names(c, &pool, k)
            .into_iter()
            .map(|name| {
                let ty = { let n = pick_s(c, &output_named); wrap_output(c, &n) };
                let mut directives = deprecated(c, o);
                directives.extend(apply(c, o, &ddefs, "FIELD_DEFINITION", &snapshot));
                FieldDef { description: desc(c, o, 30), name, args: arguments(c, o, &input_named, &snapshot, &ddefs), ty, directives }
            })
            .collect()
    };

    // interface definitions, in index order so inherited fields are known
    let mut iface_fields: Vec<Vec<FieldDef>> = vec![];
    for i in 0..n_iface {
        let mut fields: Vec<FieldDef> = vec![];
        for &j in &iface_impl[i] {
            for f in &iface_fields[j] {
                if !fields.iter().any(|x| x.name == f.name) {
                    // interfaces redeclare inherited fields unchanged (diamonds stay consistent);
                    // only objects narrow types or add optional arguments
                    fields.push(inherit(c, f, &subs_of, false));
                }
            }
        }
        let own = 1 + c.small(2);
        // own field names are unique across all interfaces, so an object may implement any set
        let mut exclude: Vec<String> = fields.iter().map(|f| f.name.clone()).collect();
        for fs in &iface_fields {
            exclude.extend(fs.iter().map(|f| f.name.clone()));
        }
        fields.extend(gen_fields(c, own, &exclude));
        iface_fields.push(fields);
    }
    for i in 0..n_iface {
        let mut t = TypeDef::new(TypeKind::Interface, &names.interfaces[i]);
        t.description = desc(c, o, 40);
        t.implements = iface_impl[i].iter().map(|&j| names.interfaces[j].clone()).collect();
        t.fields = iface_fields[i].clone();
        t.directives = apply(c, o, &ddefs, "INTERFACE", &snapshot);
        types.push(t);
    }
    for i in 0..n_obj {
        let mut t = TypeDef::new(TypeKind::Object, &names.objects[i]);
        t.description = desc(c, o, 40);
        t.implements = obj_impl[i].iter().map(|&j| names.interfaces[j].clone()).collect();
        let mut fields: Vec<FieldDef> = vec![];
        for &j in &obj_impl[i] {
            for f in &iface_fields[j] {
                if !fields.iter().any(|x| x.name == f.name) {
                    fields.push(inherit(c, f, &subs_of, true));
                }
            }
        }
        let own = if fields.is_empty() { 1 + c.small(3) } else { c.small(3) };
        let exclude: Vec<String> = fields.iter().map(|f| f.name.clone()).collect();
        fields.extend(gen_fields(c, own, &exclude));
        t.fields = fields;
        t.directives = apply(c, o, &ddefs, "OBJECT", &snapshot);
        types.push(t);
    }
    for (u, n) in names.unions.iter().enumerate() {
        let mut t = TypeDef::new(TypeKind::Union, n);
        t.description = desc(c, o, 40);
        t.members = union_members[u].clone();
        t.directives = apply(c, o, &ddefs, "UNION", &snapshot);
        types.push(t);
    }
    // roots
    let mut roots: Vec<(OpType, String)> = vec![];
    {
        let mut t = TypeDef::new(TypeKind::Object, qname);
        t.description = desc(c, o, 30);
        let k = 1 + c.small(4);
        t.fields = gen_fields(c, k, &[]);
        types.push(t);
        roots.push((OpType::Query, qname.to_string()));
    }
    if has_mut {
        let mut t = TypeDef::new(TypeKind::Object, mname);
        let k = 1 + c.small(2);
        t.fields = gen_fields(c, k, &[]);
        types.push(t);
        roots.push((OpType::Mutation, mname.to_string()));
    }
    if has_sub {
        let mut t = TypeDef::new(TypeKind::Object, sname);
        let k = 1 + c.small(2);
        t.fields = gen_fields(c, k, &[]);
        types.push(t);
        roots.push((OpType::Subscription, sname.to_string()));
    }

    // assemble in a shuffled order (order of definitions is irrelevant to validity)
    let mut defs: Vec<Definition> = vec![];
    let mut pool: Vec<Definition> = types.into_iter().map(Definition::Type).collect();
    pool.extend(ddefs.into_iter().map(Definition::Directive));
    if explicit {
        let sdirs = vec![];
        pool.push(Definition::Schema(SchemaDef { is_ext: false, description: desc(c, o, 40), directives: sdirs, roots }));
    }
    while !pool.is_empty() {
        let i = if c.bool(128) { c.choose(pool.len()) } else { 0 };
        defs.push(pool.remove(i));
    }
    Document { defs }
}

const BUILTIN_INPUT: [&str; 5] = ["Int", "Float", "String", "Boolean", "ID"];

/// Redeclare an interface field on an implementer: same name, same arguments (types equal),
/// optionally extra nullable arguments, covariant return type.
fn inherit(c: &mut Choices, f: &FieldDef, subs_of: &dyn Fn(&str) -> Vec<String>, may_change: bool) -> FieldDef {
    let mut g = f.clone();
    g.description = None;
    g.directives = vec![];
    for a in g.args.iter_mut() {
        a.description = None;
        a.directives = vec![];
        // defaults may differ
    }
    if may_change && c.bool(50) && !g.args.iter().any(|a| a.name == "extra") {
        g.args.push(InputValueDef { description: None, name: "extra".into(), ty: Type::named("Int"), default: None, directives: vec![] });
    }
    if may_change && c.bool(120) {
        g.ty = narrow(c, &f.ty, subs_of);
    }
    g
}

/// Move a suffix of the components of some types into `extend` definitions placed after the
/// definition (validity-preserving; order of components is preserved).
pub fn split_extensions(c: &mut Choices, doc: &mut Document) -> usize {
    let mut extra: Vec<Definition> = vec![];
    let mut n = 0;
    for d in doc.defs.iter_mut() {
        if let Definition::Type(t) = d {
            if t.is_ext || !c.bool(70) {
                continue;
            }
            let mut e = TypeDef::new(t.kind, &t.name);
            e.is_ext = true;
            match t.kind {
                TypeKind::Object | TypeKind::Interface if t.fields.len() > 1 => {
                    let k = 1 + c.choose(t.fields.len() - 1);
                    e.fields = t.fields.split_off(k);
                }
                TypeKind::Enum if t.values.len() > 1 => {
                    let k = 1 + c.choose(t.values.len() - 1);
                    e.values = t.values.split_off(k);
                }
                TypeKind::InputObject if t.input_fields.len() > 1 => {
                    let k = 1 + c.choose(t.input_fields.len() - 1);
                    e.input_fields = t.input_fields.split_off(k);
                }
                TypeKind::Union if t.members.len() > 1 => {
                    let k = 1 + c.choose(t.members.len() - 1);
                    e.members = t.members.split_off(k);
                }
                _ => {
                    if t.directives.is_empty() {
                        continue;
                    }
                    let k = c.choose(t.directives.len());
                    e.directives = t.directives.split_off(k);
                    if e.directives.is_empty() {
                        continue;
                    }
                }
            }
            n += 1;
            extra.push(Definition::Type(e));
        }
    }
    for e in extra {
        let i = c.choose(doc.defs.len() + 1);
        // extensions may be placed anywhere (validity does not depend on placement)
        doc.defs.insert(i, e);
    }
    n
}

#[cfg(test)]
mod tests {
    use super::*;
    use crate::refmodel::{parser::parse_document, printer};
    #[test]
    fn generated_schemas_print_and_parse() {
        let mut seed = 7u64;
        for i in 0..3000 {
            let bytes: Vec<u8> = (0..(i % 800))
                .map(|_| {
                    seed = seed.wrapping_mul(6364136223846793005).wrapping_add(1442695040888963407);
                    (seed >> 33) as u8
                })
                .collect();
            let mut c = Choices::new(&bytes);
            let mut d = schema(&mut c, &Opts::default());
            if i % 2 == 0 {
                split_extensions(&mut c, &mut d);
            }
            let text = printer::print_document(&d);
            let back = parse_document(&text).unwrap_or_else(|e| panic!("{text}\n{e:?}"));
            assert_eq!(back, d);
        }
    }
}
