//! JSON values (`serde_json::Value`) decoded from `Choices`, TARGETED at a GraphQL input type of a
//! `RefSchema`: mostly well-typed values, with a bounded number of targeted faults (wrong kinds,
//! out-of-range numbers, unknown / missing input fields, nulls at non-null positions, ...) and
//! the benign variations the coercion rules must handle (a single value where a list is
//! expected, omitted optional fields, explicit nulls, integer-typed numbers for `Float`, ...).
//!
//! Total and monotone: an exhausted stream gives the simplest well-typed value (`0`, `""`,
//! `false`, `[]`, an object with only its required fields).

use crate::choices::Choices;
use crate::refmodel::ast::{Type, TypeDef, TypeKind, VarDef};
use crate::refmodel::schema::RefSchema;
use serde_json::{json, Map, Number, Value};

pub const I32_MAX: i64 = 2147483647;
pub const I32_MIN: i64 = -2147483648;
pub const TWO_53: i64 = 1 << 53;

pub struct JsonGen<'a> {
    pub schema: &'a RefSchema,
    /// what was generated (for class histograms)
    pub labels: Vec<&'static str>,
    /// remaining number of faults that may still be injected
    pub faults_left: u32,
    /// probability (of 256) of injecting a fault at a node while `faults_left > 0`
    pub fault_p: u32,
}

fn float(f: f64) -> Value {
    Number::from_f64(f).map(Value::Number).unwrap_or(Value::Null)
}

/// Any JSON value (custom scalars, extra variables).
pub fn any_json(c: &mut Choices, depth: usize) -> Value {
    let n = if depth == 0 { 6 } else { 8 };
    match c.choose(n) {
        0 => json!(1),
        1 => json!("custom"),
        2 => json!(true),
        3 => json!(1.5),
        4 => json!(1.0),
        5 => json!(u64::MAX),
        6 => {
            let k = c.small(3);
            Value::Array((0..k).map(|_| any_json(c, depth - 1)).collect())
        }
        _ => {
            let k = c.small(3);
            let mut m = Map::new();
            for i in 0..k {
                let key = c.pick(&["k", "a", "", "__typename", "x y", "é"]);
                let key = if m.contains_key(key) { format!("{}{}", key, i) } else { key.to_string() };
                // null inside a custom scalar's object is just data
                let v = if c.bool(30) { Value::Null } else { any_json(c, depth - 1) };
                m.insert(key, v);
            }
            Value::Object(m)
        }
    }
}

impl<'a> JsonGen<'a> {
    /// `mode`: 0 = no faults (only benign variations), 1 = at most one fault, 2 = up to three.
    pub fn new(schema: &'a RefSchema, mode: usize) -> JsonGen<'a> {
        let (faults_left, fault_p) = match mode {
            0 => (0, 0),
            1 => (1, 50),
            _ => (3, 40),
        };
        JsonGen { schema, labels: vec![], faults_left, fault_p }
    }

    pub fn pick_mode(c: &mut Choices) -> usize {
        c.weighted(&[45, 35, 20])
    }

    fn label(&mut self, l: &'static str) {
        if !self.labels.contains(&l) {
            self.labels.push(l);
        }
    }

    fn fault(&mut self, c: &mut Choices) -> bool {
        if self.faults_left > 0 && c.bool(self.fault_p) {
            self.faults_left -= 1;
            true
        } else {
            false
        }
    }

    /// A value aimed at type `ty`. `depth` bounds input-object nesting.
    pub fn value(&mut self, c: &mut Choices, ty: &Type, depth: usize) -> Value {
        self.value_in(c, ty, depth, false)
    }

    fn value_in(&mut self, c: &mut Choices, ty: &Type, depth: usize, in_array: bool) -> Value {
        match ty {
            Type::NonNull(t) => {
                if self.fault(c) {
                    self.label("fault:null-for-non-null");
                    return Value::Null;
                }
                self.non_null(c, t, depth, in_array)
            }
            t => {
                if c.bool(35) {
                    self.label("explicit-null");
                    return Value::Null;
                }
                self.non_null(c, t, depth, in_array)
            }
        }
    }

    fn non_null(&mut self, c: &mut Choices, ty: &Type, depth: usize, in_array: bool) -> Value {
        match ty {
            Type::NonNull(t) => self.non_null(c, t, depth, in_array),
            Type::List(item) => {
                // an item of an actual array whose type is itself a list: a bare value there is
                // the case the October 2021 table and prose disagree on; keep it rare
                let single_w = if in_array { 6 } else { 30 };
                if c.weighted(&[100 - single_w, single_w]) == 1 {
                    self.label(if in_array { "single-for-nested-list-item" } else { "single-for-list" });
                    // a bare value is only "single" if it is not an array: go to the innermost type
                    let mut t = item.nullable();
                    while let Type::List(i) = t {
                        t = i.nullable();
                    }
                    return self.non_null(c, t, depth, false);
                }
                let n = if depth == 0 { 0 } else { c.small(3) };
                if item.is_list() {
                    self.label("nested-list");
                }
                Value::Array((0..n).map(|_| self.value_in(c, item, depth, true)).collect())
            }
            Type::Named(name) => self.named(c, name, depth),
        }
    }

    fn named(&mut self, c: &mut Choices, name: &str, depth: usize) -> Value {
        let schema = self.schema;
        let Some(def) = schema.get(name) else {
            return Value::Null;
        };
        match def.kind {
            TypeKind::Enum => self.enum_value(c, def),
            TypeKind::InputObject => self.input_object(c, def, depth),
            TypeKind::Scalar => match name {
                "Int" => self.int(c),
                "Float" => self.float(c),
                "String" => self.string(c),
                "Boolean" => self.boolean(c),
                "ID" => self.id(c),
                _ => {
                    self.label("custom-scalar");
                    any_json(c, 2)
                }
            },
            _ => Value::Null,
        }
    }

    /// A JSON value of a kind that no built-in scalar / enum / input object accepts when given as
    /// `not`: arrays and objects where scalars are expected, etc.
    fn wrong_kind(&mut self, c: &mut Choices, not: &[&str]) -> Value {
        let cands: Vec<(&str, Value)> = vec![
            ("string", json!("abc")),
            ("number", json!(7)),
            ("boolean", json!(true)),
            ("array", json!([])),
            ("array", json!([[1]])),
            ("object", json!({})),
            ("object", json!({"a": 1})),
        ];
        let cands: Vec<Value> = cands.into_iter().filter(|(k, _)| !not.contains(k)).map(|(_, v)| v).collect();
        cands[c.choose(cands.len())].clone()
    }

    fn int(&mut self, c: &mut Choices) -> Value {
        if self.fault(c) {
            return match c.choose(16) {
                0 => {
                    self.label("fault:int-2^31");
                    json!(I32_MAX + 1)
                }
                1 => {
                    self.label("fault:int--2^31-1");
                    json!(I32_MIN - 1)
                }
                2 => {
                    self.label("fault:int-2^53");
                    json!(TWO_53)
                }
                3 => {
                    self.label("fault:int-i64-edge");
                    json!(c.pick(&[i64::MAX, i64::MIN]))
                }
                4 => {
                    self.label("fault:int-u64");
                    json!(c.pick(&[u64::MAX, i64::MAX as u64 + 1]))
                }
                5 => {
                    self.label("fault:int-fractional");
                    float(c.pick(&[1.5, -0.5, 1e-3]))
                }
                6 => {
                    self.label("fault:int-numeric-string");
                    json!(c.pick(&["1", "0", "-7", "2147483647", "1.0"]))
                }
                7 | 8 => {
                    // unspecified: float-typed integral number within range
                    self.label("int-from-integral-float");
                    float(c.pick(&[1.0, 0.0, -0.0, 2147483647.0, -2147483648.0]))
                }
                9 => {
                    self.label("fault:int-integral-float-out-of-range");
                    float(c.pick(&[2147483648.0, -2147483649.0, 1e100]))
                }
                10 => {
                    self.label("fault:list-for-scalar");
                    json!([1])
                }
                _ => {
                    self.label("fault:int-wrong-kind");
                    self.wrong_kind(c, &["number"])
                }
            };
        }
        match c.choose(8) {
            0 => json!(0),
            1 => json!(1),
            2 => json!(-7),
            3 => {
                self.label("int-i32-max");
                json!(I32_MAX)
            }
            4 => {
                self.label("int-i32-min");
                json!(I32_MIN)
            }
            5 => json!(42),
            _ => json!(c.u32() as i32),
        }
    }

    fn float(&mut self, c: &mut Choices) -> Value {
        if self.fault(c) {
            return match c.choose(9) {
                0 => {
                    self.label("fault:float-int-2^53");
                    json!(c.pick(&[TWO_53, -TWO_53]))
                }
                1 => {
                    self.label("fault:float-int-2^53+1");
                    json!(c.pick(&[TWO_53 + 1, -TWO_53 - 1]))
                }
                2 => {
                    self.label("fault:float-int-i64-edge");
                    json!(c.pick(&[i64::MAX, i64::MIN]))
                }
                3 => {
                    self.label("fault:float-int-u64");
                    json!(c.pick(&[u64::MAX, i64::MAX as u64 + 1]))
                }
                4 | 5 => {
                    self.label("fault:float-numeric-string");
                    json!(c.pick(&["1.5", "1", "1e3", "NaN", "Infinity"]))
                }
                6 => {
                    self.label("fault:list-for-scalar");
                    json!([1.5])
                }
                _ => {
                    self.label("fault:float-wrong-kind");
                    self.wrong_kind(c, &["number"])
                }
            };
        }
        match c.choose(12) {
            0 => float(0.0),
            1 => float(1.5),
            2 => float(-2.25),
            3 => {
                self.label("float-integral-float");
                float(1.0)
            }
            4 => {
                self.label("float-extreme");
                float(c.pick(&[1e308, -1e308, 5e-324, f64::MAX, f64::MIN_POSITIVE]))
            }
            5 => {
                // float-typed numbers are accepted whatever their magnitude
                self.label("float-float-beyond-2^53");
                float(c.pick(&[9007199254740992.0, 9007199254740994.0, 1e19, -1e19, 1.8446744073709552e19]))
            }
            6 => {
                self.label("float-from-int");
                json!(c.pick(&[0i64, 3, -1, I32_MAX + 1]))
            }
            7 => {
                // around the documented bound ("up to the value 2^53 - 1"); the bound itself is rare
                // because apollo rejects it (known finding) and the case is then lost for the rest
                let v = c.pick(&[TWO_53 - 2, -(TWO_53 - 2), TWO_53 - 3, -(TWO_53 - 2), TWO_53 - 2, TWO_53 - 1, -(TWO_53 - 1)]);
                self.label(if v.abs() == TWO_53 - 1 { "float-int-2^53-1" } else { "float-int-2^53-2" });
                json!(v)
            }
            8 => {
                self.label("float-from-int");
                json!(c.pick(&[I32_MAX, I32_MIN, I32_MIN - 1, 1 << 40, -(1 << 52)]))
            }
            9 => {
                self.label("float-from-int");
                json!(c.u32() as i64)
            }
            _ => {
                let f = f64::from_bits(c.u64());
                float(if f.is_finite() { f } else { 2.5 })
            }
        }
    }

    fn string(&mut self, c: &mut Choices) -> Value {
        if self.fault(c) {
            return match c.choose(4) {
                0 => {
                    self.label("fault:list-for-scalar");
                    json!(["s"])
                }
                1 => {
                    self.label("fault:string-from-number");
                    if c.coin() { json!(1.5) } else { json!(1) }
                }
                _ => {
                    self.label("fault:string-wrong-kind");
                    self.wrong_kind(c, &["string"])
                }
            };
        }
        json!(c.pick(&["", "s", "1", "1.5", "true", "null", "é\n\"", "RED"]))
    }

    fn boolean(&mut self, c: &mut Choices) -> Value {
        if self.fault(c) {
            return match c.choose(4) {
                0 => {
                    self.label("fault:boolean-from-number");
                    json!(c.pick(&[0, 1]))
                }
                1 => {
                    self.label("fault:boolean-from-string");
                    json!(c.pick(&["true", "false", ""]))
                }
                2 => {
                    self.label("fault:list-for-scalar");
                    json!([true])
                }
                _ => {
                    self.label("fault:boolean-wrong-kind");
                    self.wrong_kind(c, &["boolean"])
                }
            };
        }
        json!(c.coin())
    }

    fn id(&mut self, c: &mut Choices) -> Value {
        if self.fault(c) {
            return match c.choose(6) {
                0 | 1 => {
                    self.label("fault:id-float");
                    float(c.pick(&[4.0, 1.5, 0.0]))
                }
                2 => {
                    // unspecified
                    self.label("id-above-i64");
                    json!(c.pick(&[u64::MAX, i64::MAX as u64 + 1]))
                }
                3 => {
                    self.label("fault:list-for-scalar");
                    json!(["id"])
                }
                _ => {
                    self.label("fault:id-wrong-kind");
                    self.wrong_kind(c, &["string", "number"])
                }
            };
        }
        match c.choose(8) {
            0 => json!("id1"),
            1 => json!(""),
            2 => json!("7"),
            3 => json!(0),
            4 => json!(12),
            5 => json!(-4),
            6 => {
                self.label("id-i64-edge");
                json!(c.pick(&[i64::MAX, i64::MIN]))
            }
            _ => json!("4.0"),
        }
    }

    fn enum_value(&mut self, c: &mut Choices, def: &TypeDef) -> Value {
        let valid = if def.values.is_empty() { "RED".to_string() } else { def.values[c.choose(def.values.len())].name.clone() };
        if self.fault(c) {
            let other_case = if valid.chars().any(|ch| ch.is_ascii_uppercase()) { valid.to_ascii_lowercase() } else { valid.to_ascii_uppercase() };
            let unknown = |s: &str| !def.values.iter().any(|v| v.name == s);
            return match c.choose(6) {
                0 if other_case != valid && unknown(&other_case) => {
                    self.label("fault:enum-wrong-case");
                    json!(other_case)
                }
                1 => {
                    self.label("fault:enum-from-number");
                    json!(0)
                }
                2 => {
                    self.label("fault:enum-from-boolean");
                    json!(true)
                }
                3 => {
                    self.label("fault:list-for-scalar");
                    json!([[valid]])
                }
                4 => {
                    self.label("fault:enum-object");
                    json!({ "name": valid })
                }
                _ => {
                    self.label("fault:enum-unknown-name");
                    let n = c.pick(&["NOPE", "", " RED", "null"]);
                    json!(if unknown(n) { n } else { "NO_SUCH_VALUE" })
                }
            };
        }
        self.label("enum");
        json!(valid)
    }

    fn input_object(&mut self, c: &mut Choices, def: &TypeDef, depth: usize) -> Value {
        self.label("input-object");
        if self.fault(c) && c.bool(100) {
            self.label("fault:input-object-wrong-kind");
            return self.wrong_kind(c, &["object", "array"]);
        }
        let mut m = Map::new();
        for f in &def.input_fields {
            let required = f.ty.is_non_null() && f.default.is_none();
            if required {
                if self.fault(c) {
                    self.label("fault:missing-required-field");
                    continue;
                }
            } else if depth == 0 || !c.bool(150) {
                self.label(if f.default.is_some() { "omitted-field-with-default" } else { "omitted-optional-field" });
                continue;
            }
            let v = self.value_in(c, &f.ty, depth.saturating_sub(1), false);
            m.insert(f.name.clone(), v);
        }
        if self.fault(c) {
            self.label("fault:unknown-field");
            let first = def.input_fields.first().map(|f| f.name.clone()).unwrap_or_default();
            let cased = if first.chars().any(|ch| ch.is_ascii_uppercase()) { first.to_ascii_lowercase() } else { first.to_ascii_uppercase() };
            let cands = ["zzz".to_string(), "__typename".to_string(), cased, format!("{}_", first), String::new()];
            let k = cands[c.choose(cands.len())].clone();
            let k = if def.input_fields.iter().any(|f| f.name == k) { "zzz".to_string() } else { k };
            let v = if c.coin() { Value::Null } else { any_json(c, 1) };
            if c.coin() {
                // unknown key first
                let mut m2 = Map::new();
                m2.insert(k, v);
                m2.extend(m);
                m = m2;
            } else {
                m.insert(k, v);
            }
        }
        Value::Object(m)
    }

    /// A variables map for the given variable definitions: each variable provided, absent or
    /// explicitly null; sometimes with undeclared extra entries.
    pub fn variables(&mut self, c: &mut Choices, defs: &[VarDef]) -> Map<String, Value> {
        let mut m = Map::new();
        for d in defs {
            let required = d.ty.is_non_null() && d.default.is_none();
            // absent / null are natural faults for required variables: draw them from the budget
            let w = if required { [100, 0, 0] } else { [60, 25, 15] };
            match c.weighted(&w) {
                0 => {
                    if required && self.fault(c) {
                        if c.coin() {
                            self.label("fault:required-variable-absent");
                        } else {
                            self.label("fault:required-variable-null");
                            m.insert(d.name.clone(), Value::Null);
                        }
                        continue;
                    }
                    let v = self.value(c, &d.ty, 3);
                    m.insert(d.name.clone(), v);
                }
                1 => {
                    self.label(if d.default.is_some() { "variable-absent-with-default" } else { "variable-absent" });
                }
                _ => {
                    self.label("variable-explicit-null");
                    m.insert(d.name.clone(), Value::Null);
                }
            }
        }
        if c.bool(50) {
            self.label("extra-variable");
            let first = defs.first().map(|d| d.name.clone()).unwrap_or_default();
            let cands = ["extra".to_string(), first.to_ascii_uppercase(), format!("{}_", first), format!("${}", first), String::new()];
            let k = cands[c.choose(cands.len())].clone();
            if !defs.iter().any(|d| d.name == k) {
                let v = if c.coin() { Value::Null } else { any_json(c, 1) };
                if c.coin() {
                    let mut m2 = Map::new();
                    m2.insert(k, v);
                    m2.extend(m);
                    m = m2;
                } else {
                    m.insert(k, v);
                }
            }
        }
        m
    }
}

#[cfg(test)]
mod tests {
    use super::*;
    use crate::refmodel::coerce::{coerce_variable_values, Fail};
    use crate::refmodel::parser::parse_document;

    /// Fault-free mode only produces maps the reference accepts (or leaves unspecified), and the
    /// empty stream decodes to the simplest accepted map.
    #[test]
    fn mode_zero_is_accepted() {
        let d = parse_document(
            "type Query { a: Int } scalar Any enum Color { RED green } \
             input In { x: Int = 1 y: Int! xs: [Int] = 3 e: Color = RED nested: In2 l: [In2!] } input In2 { req: Boolean! opt: [[In2!]] s: String = \"d\" f: Float id: ID any: Any }",
        )
        .unwrap();
        let s = RefSchema::from_document(&d);
        let op = parse_document("query Q($a: In!, $b: [[In2]!], $c: Float = 1, $d: [Color!]!, $e: ID) { a }").unwrap();
        let crate::refmodel::ast::Definition::Operation(op) = &op.defs[0] else { panic!() };
        let mut seed = 11u64;
        let (mut ok, mut unspec) = (0, 0);
        for i in 0..4000 {
            let bytes: Vec<u8> = (0..(i % 300))
                .map(|_| {
                    seed = seed.wrapping_mul(6364136223846793005).wrapping_add(1442695040888963407);
                    (seed >> 33) as u8
                })
                .collect();
            let mut c = Choices::new(&bytes);
            let mut g = JsonGen::new(&s, 0);
            let m = g.variables(&mut c, &op.vars);
            match coerce_variable_values(&s, &op.vars, &m) {
                Ok(_) => ok += 1,
                Err(Fail::Unspecified(_)) => unspec += 1,
                // the 2^53-1 edge is accepted by the reference, so nothing else may fail
                Err(Fail::Err(r)) => panic!("mode 0 produced a rejected map: {:?} for {}", r, Value::Object(m)),
            }
        }
        assert!(ok > 3000, "ok={ok} unspec={unspec}");
    }
}
