//! A fixed group of type-system definitions appended to a generated schema (names prefixed
//! `X`/`x`, disjoint from everything `gen::schema` produces) so that executable documents
//! generated against it regularly contain the constructs the rarer validation rules need:
//! arguments of every input type (lists, nested lists, input objects with required / defaulted /
//! recursive fields, enums, custom scalars), a required argument, an interface with two
//! implementers whose same-named fields differ in nullability (of the named type, of a list
//! wrapper, of an inner list wrapper) / list wrapping (field merging shapes) and two fields (`xn`, `xm`)
//! defined identically in the interface and both implementers (look-alike selection sets below
//! different parent types), non-null list arguments with and without defaults whose item types differ
//! in nullability at depth 1 and 2 (variable usages let in by a default), a union, and custom directives for every executable location (one repeatable).
//! The fixture is valid by itself; every root operation type gets the entry fields.

use crate::refmodel::ast::*;
use crate::refmodel::parser::parse_document;
use crate::refmodel::schema::RefSchema;

const EXEC_LOCS: &str = "QUERY | MUTATION | SUBSCRIPTION | FIELD | FRAGMENT_DEFINITION | FRAGMENT_SPREAD | INLINE_FRAGMENT | VARIABLE_DEFINITION";

fn fixture_text() -> String {
    format!(
        r#"
interface XNode {{ xid: ID! xself: XNode xn: Int xm: Int }}
type XA implements XNode {{ xid: ID! xself: XA xn: Int xm: Int xs: String! xl: [Int!] xln: [Int]! xll: [[Int]!] xu: XU
  xargs(i: Int, f: Float, s: String, b: Boolean, id: ID, e: XEnum, c: XScalar, o: XIn, l: [Int!], ll: [[Int]], req: Int!, nn: [XIn!]! = []): Int
  xlist(l: [Int!], o: XIn): [XA!]
  xstrict(list: [Int!]!, opt: [Int]! = [], deep: [[Int!]]!, ostrict: [Int!]! = [1], nl: [Int]!, odeep: [[Int]!]! = []): Int }}
type XB implements XNode {{ xid: ID! xself: XB xn: Int xm: Int xs: String xl: [Int] xln: [Int] xll: [[Int]] xargs(i: Int, req: Int!): Int xe: XEnum }}
union XU = XA | XB
enum XEnum {{ XA1 XB1 }}
scalar XScalar
input XIn {{ x: Int! y: String z: [XIn!] w: Int! = 1 e: XEnum l: [Int!] n: XIn sl: [Int]! = [] }}
directive @xonce(v: Int, b: Boolean! = true, sl: [Int!]! = []) on {EXEC_LOCS}
directive @xmany(o: XIn, l: [Int!]) repeatable on {EXEC_LOCS}
"#
    )
}

fn root_fields_text() -> &'static str {
    "type XRootFields { xnode: XNode xa: XA xu: XU xargs(i: Int, o: XIn, l: [Int!], ll: [[Int]], e: XEnum, c: XScalar, req: Int!): Int xlist(l: [Int!], o: XIn): [XA!] xstrict(list: [Int!]!, opt: [Int]! = [], deep: [[Int!]]!): Int xwide(w0: Int, w1: Int, w2: Int, w3: Int, w4: Int, w5: Int, w6: Int, w7: Int, w8: Int, w9: Int, w10: Int, w11: Int, w12: Int, w13: Int, w14: Int, w15: Int, w16: Int, w17: Int, w18: Int, w19: Int, w20: Int, w21: Int, w22: Int, w23: Int): Int }"
}

pub fn fixture() -> &'static Document {
    static D: std::sync::OnceLock<Document> = std::sync::OnceLock::new();
    D.get_or_init(|| parse_document(&fixture_text()).expect("fixture parses"))
}

fn root_fields() -> &'static Vec<FieldDef> {
    static D: std::sync::OnceLock<Vec<FieldDef>> = std::sync::OnceLock::new();
    D.get_or_init(|| match &parse_document(root_fields_text()).expect("fixture parses").defs[0] {
        Definition::Type(t) => t.fields.clone(),
        _ => unreachable!(),
    })
}

/// Append the fixture to `doc` (a valid schema from `gen::schema`) and add its entry fields to
/// every root operation type. Validity is preserved: all names are new.
pub fn add_fixture(doc: &mut Document) {
    if doc.defs.iter().any(|d| matches!(d, Definition::Type(t) if t.name == "XNode")) {
        return;
    }
    let rs = RefSchema::from_document(doc);
    let roots: Vec<String> = [rs.query.clone(), rs.mutation.clone(), rs.subscription.clone()].into_iter().flatten().collect();
    for d in doc.defs.iter_mut() {
        if let Definition::Type(t) = d {
            if !t.is_ext && t.kind == TypeKind::Object && roots.contains(&t.name) {
                t.fields.extend(root_fields().iter().cloned());
            }
        }
    }
    doc.defs.extend(fixture().defs.iter().cloned());
}

#[cfg(test)]
mod tests {
    use super::*;
    use crate::refmodel::typesys;
    #[test]
    fn fixture_is_a_valid_schema() {
        let mut d = parse_document("type Query { a: Int } type Mutation { m: Int } type Subscription { s: Int }").unwrap();
        add_fixture(&mut d);
        assert!(typesys::validate(&d).is_valid(), "{:?}", typesys::validate(&d));
        let rs = RefSchema::from_document(&d);
        assert!(rs.field("Subscription", "xargs").is_some());
        assert!(rs.directive("xmany").unwrap().repeatable);
    }
}
