//! Rule-targeted mutators for executable documents (see `gen::operation`): each breaks (at
//! least, and usually exactly) one rule or sub-case of spec section 5; `n-*` mutations keep a
//! valid document valid. The verdict of a mutated document is NEVER derived from the mutator:
//! C17 re-parses the printed text and asks the reference validator.
use super::operation::{const_value, overlapping_types, shape, simple_field};
use crate::choices::Choices;
use crate::refmodel::ast::*;
use crate::refmodel::schema::RefSchema;

#[derive(Clone, Debug)]
pub struct Path {
    pub def: usize,
    /// selection indices from the definition's selection set downwards
    pub idx: Vec<usize>,
}

#[derive(Clone, Debug)]
pub struct SetSite {
    /// path of the selection that owns this set (`idx` empty: the definition itself)
    pub path: Path,
    pub parent: Option<String>,
    /// root level of a subscription (directly or through inline fragments / a fragment on the
    /// subscription root type)
    pub sub_root: bool,
    pub in_fragment: bool,
}

#[derive(Clone, Debug)]
pub struct FieldSite {
    pub path: Path,
    pub parent: String,
    pub def: FieldDef,
    pub sub_root: bool,
}

#[derive(Default)]
pub struct Sites {
    pub sets: Vec<SetSite>,
    pub fields: Vec<FieldSite>,
    /// inline fragments (path, parent)
    pub inlines: Vec<(Path, Option<String>)>,
    /// spreads (path, parent)
    pub spreads: Vec<(Path, Option<String>)>,
}

fn def_set(d: &Definition) -> Option<&Vec<Selection>> {
    match d {
        Definition::Operation(o) => Some(&o.selection_set),
        Definition::Fragment(f) => Some(&f.selection_set),
        _ => None,
    }
}

fn def_set_mut(d: &mut Definition) -> Option<&mut Vec<Selection>> {
    match d {
        Definition::Operation(o) => Some(&mut o.selection_set),
        Definition::Fragment(f) => Some(&mut f.selection_set),
        _ => None,
    }
}

pub fn set_mut<'d>(doc: &'d mut Document, p: &Path) -> &'d mut Vec<Selection> {
    let mut cur = def_set_mut(&mut doc.defs[p.def]).expect("executable definition");
    for &i in &p.idx {
        cur = match &mut cur[i] {
            Selection::Field(f) => &mut f.selection_set,
            Selection::Inline(f) => &mut f.selection_set,
            Selection::Spread(_) => panic!("path through a spread"),
        };
    }
    cur
}

pub fn sel_mut<'d>(doc: &'d mut Document, p: &Path) -> &'d mut Selection {
    let (last, init) = p.idx.split_last().expect("selection path");
    let parent = Path { def: p.def, idx: init.to_vec() };
    &mut set_mut(doc, &parent)[*last]
}

pub fn field_mut<'d>(doc: &'d mut Document, p: &Path) -> &'d mut Field {
    match sel_mut(doc, p) {
        Selection::Field(f) => f,
        _ => panic!("not a field"),
    }
}

pub fn sites(doc: &Document, s: &RefSchema) -> Sites {
    fn walk(s: &RefSchema, out: &mut Sites, path: &Path, parent: Option<String>, sels: &[Selection], sub_root: bool, in_fragment: bool) {
        out.sets.push(SetSite { path: path.clone(), parent: parent.clone(), sub_root, in_fragment });
        for (i, sel) in sels.iter().enumerate() {
            let mut p = path.clone();
            p.idx.push(i);
            match sel {
                Selection::Field(f) => {
                    let def = parent.as_ref().and_then(|pt| s.field(pt, &f.name));
                    let inner = def.as_ref().map(|d| d.ty.inner_name().to_string()).filter(|n| s.is_composite(n));
                    if let (Some(pt), Some(d)) = (&parent, def) {
                        out.fields.push(FieldSite { path: p.clone(), parent: pt.clone(), def: d, sub_root });
                    }
                    if !f.selection_set.is_empty() {
                        walk(s, out, &p, inner, &f.selection_set, false, in_fragment);
                    }
                }
                Selection::Inline(inl) => {
                    out.inlines.push((p.clone(), parent.clone()));
                    let inner = match &inl.type_condition {
                        None => parent.clone(),
                        Some(t) if s.is_composite(t) => Some(t.clone()),
                        Some(_) => None,
                    };
                    walk(s, out, &p, inner, &inl.selection_set, sub_root, in_fragment);
                }
                Selection::Spread(_) => out.spreads.push((p.clone(), parent.clone())),
            }
        }
    }
    let mut out = Sites::default();
    for (di, d) in doc.defs.iter().enumerate() {
        let path = Path { def: di, idx: vec![] };
        match d {
            Definition::Operation(o) => {
                let root = s.root(o.op).map(|r| r.to_string());
                walk(s, &mut out, &path, root, &o.selection_set, o.op == OpType::Subscription, false);
            }
            Definition::Fragment(f) => {
                let parent = if s.is_composite(&f.type_condition) { Some(f.type_condition.clone()) } else { None };
                let sub_root = s.subscription.as_deref() == Some(f.type_condition.as_str());
                walk(s, &mut out, &path, parent, &f.selection_set, sub_root, true);
            }
            _ => {}
        }
    }
    out
}

#[derive(Clone, Copy, Debug, PartialEq, Eq)]
pub enum VPos {
    Top,
    ListItem,
    InputField,
    VarDefault,
}

/// Where a typed value position lives.
#[derive(Clone, Copy, Debug)]
pub struct VCtx {
    pub def: usize,
    pub in_operation: bool,
    /// constant context (variable default, directive on a variable definition)
    pub constant: bool,
}

type VF<'f> = &'f mut dyn FnMut(&mut Value, &Type, bool, VPos, VCtx) -> bool;

fn walk_value(s: &RefSchema, v: &mut Value, ty: &Type, has_default: bool, pos: VPos, cx: VCtx, f: VF) {
    if let (Type::List(item), false) = (ty.nullable(), matches!(v, Value::List(_) | Value::Null | Value::Var(_))) {
        // single value coerced to a list: the value sits at the item position
        return walk_value(s, v, item, false, VPos::ListItem, cx, f);
    }
    if f(v, ty, has_default, pos, cx) {
        return;
    }
    match (v, ty.nullable()) {
        (Value::List(items), Type::List(item)) => {
            for it in items.iter_mut() {
                walk_value(s, it, item, false, VPos::ListItem, cx, f);
            }
        }
        (Value::Object(fields), Type::Named(n)) => {
            if let Some(td) = s.get(n).filter(|t| t.kind == TypeKind::InputObject).cloned() {
                for (k, fv) in fields.iter_mut() {
                    if let Some(d) = td.input_fields.iter().find(|d| d.name == *k) {
                        walk_value(s, fv, &d.ty, d.default.is_some(), VPos::InputField, cx, f);
                    }
                }
            }
        }
        _ => {}
    }
}

fn walk_args(s: &RefSchema, args: &mut [(String, Value)], defs: &[InputValueDef], cx: VCtx, f: VF) {
    for (n, v) in args.iter_mut() {
        if let Some(d) = defs.iter().find(|d| d.name == *n) {
            walk_value(s, v, &d.ty, d.default.is_some(), VPos::Top, cx, f);
        }
    }
}

fn walk_directives(s: &RefSchema, ds: &mut [Directive], cx: VCtx, f: VF) {
    for d in ds.iter_mut() {
        if let Some(def) = s.directive(&d.name).cloned() {
            walk_args(s, &mut d.args, &def.args, cx, f);
        }
    }
}

fn walk_selections(s: &RefSchema, parent: Option<&str>, sels: &mut [Selection], cx: VCtx, f: VF) {
    for sel in sels.iter_mut() {
        match sel {
            Selection::Field(fl) => {
                walk_directives(s, &mut fl.directives, cx, f);
                let def = parent.and_then(|p| s.field(p, &fl.name));
                if let Some(def) = def {
                    walk_args(s, &mut fl.args, &def.args, cx, f);
                    let inner = def.ty.inner_name().to_string();
                    let p = if s.is_composite(&inner) { Some(inner.as_str()) } else { None };
                    walk_selections(s, p, &mut fl.selection_set, cx, f);
                } else {
                    walk_selections(s, None, &mut fl.selection_set, cx, f);
                }
            }
            Selection::Inline(i) => {
                walk_directives(s, &mut i.directives, cx, f);
                let tc = i.type_condition.clone();
                let p = match &tc {
                    None => parent,
                    Some(t) if s.is_composite(t) => Some(t.as_str()),
                    Some(_) => None,
                };
                walk_selections(s, p, &mut i.selection_set, cx, f);
            }
            Selection::Spread(sp) => walk_directives(s, &mut sp.directives, cx, f),
        }
    }
}

/// Visit every typed value position of the document (arguments of fields and directives whose
/// definition is known, nested list items and input-object fields, variable defaults), in
/// document order. `f` returns true when it replaced the value (the walk does not descend then).
pub fn walk_values(doc: &mut Document, s: &RefSchema, f: VF) {
    for (di, d) in doc.defs.iter_mut().enumerate() {
        match d {
            Definition::Operation(o) => {
                let cx = VCtx { def: di, in_operation: true, constant: false };
                let ccx = VCtx { def: di, in_operation: true, constant: true };
                walk_directives(s, &mut o.directives, cx, f);
                for v in o.vars.iter_mut() {
                    walk_directives(s, &mut v.directives, ccx, f);
                    if let (Some(dv), true) = (v.default.as_mut(), s.is_input_named(v.ty.inner_name())) {
                        let ty = v.ty.clone();
                        walk_value(s, dv, &ty, false, VPos::VarDefault, ccx, f);
                    }
                }
                let root = s.root(o.op).map(|r| r.to_string());
                walk_selections(s, root.as_deref(), &mut o.selection_set, cx, f);
            }
            Definition::Fragment(fr) => {
                let cx = VCtx { def: di, in_operation: false, constant: false };
                walk_directives(s, &mut fr.directives, cx, f);
                let tc = fr.type_condition.clone();
                let p = if s.is_composite(&tc) { Some(tc.as_str()) } else { None };
                walk_selections(s, p, &mut fr.selection_set, cx, f);
            }
            _ => {}
        }
    }
}

/// Apply `edit` to the k-th value position satisfying `pred` (k chosen by `c`).
fn edit_value(
    c: &mut Choices,
    doc: &mut Document,
    s: &RefSchema,
    pred: &dyn Fn(&Value, &Type, bool, VPos, VCtx) -> bool,
    edit: &mut dyn FnMut(&mut Choices, &mut Value, &Type, VCtx),
) -> Option<VCtx> {
    let mut n = 0usize;
    walk_values(doc, s, &mut |v, t, hd, pos, cx| {
        if pred(v, t, hd, pos, cx) {
            n += 1;
        }
        false
    });
    if n == 0 {
        return None;
    }
    let k = c.choose(n);
    let mut seen = 0usize;
    let mut done: Option<VCtx> = None;
    walk_values(doc, s, &mut |v, t, hd, pos, cx| {
        if done.is_some() || !pred(v, t, hd, pos, cx) {
            return false;
        }
        seen += 1;
        if seen - 1 == k {
            edit(c, v, t, cx);
            done = Some(cx);
            return true;
        }
        false
    });
    done
}

fn typename() -> Selection {
    Selection::Field(Field { alias: None, name: "__typename".into(), args: vec![], directives: vec![], selection_set: vec![] })
}

fn ops_mut(doc: &mut Document) -> Vec<&mut OperationDef> {
    doc.defs.iter_mut().filter_map(|d| if let Definition::Operation(o) = d { Some(o) } else { None }).collect()
}

fn frag_indices(doc: &Document) -> Vec<usize> {
    doc.defs.iter().enumerate().filter(|(_, d)| matches!(d, Definition::Fragment(_))).map(|(i, _)| i).collect()
}

fn op_indices(doc: &Document) -> Vec<usize> {
    doc.defs.iter().enumerate().filter(|(_, d)| matches!(d, Definition::Operation(_))).map(|(i, _)| i).collect()
}

fn is_builtin_leaf(n: &str) -> bool {
    matches!(n, "Int" | "Float" | "String" | "Boolean" | "ID")
}

pub struct M<'x, 'd> {
    pub c: &'x mut Choices<'d>,
    pub doc: &'x mut Document,
    pub s: &'x RefSchema,
    pub sites: Sites,
}

#[path = "opmutate_rules.rs"]
mod rules;
#[path = "opmutate_ctx.rs"]
mod ctx;
#[path = "opmutate_copy.rs"]
mod copy;
pub use rules::{mutate, mutate_neutral, mutate_with, MUTATORS};
