//! Mutators that keep an original and add a look-alike COPY elsewhere in the document (child
//! module of `opmutate`), and list-typed variable usages.
//!
//! * `merge-copy-conflict`: two selection sets with content-equal fields (same alias, name,
//!   arguments, sub-selections and an identical field definition) below different parent types:
//!   `... on A { k: f } ... on B { k: g }` (valid: A and B are different object types) and a copy
//!   in which one type condition is replaced by a type that is not exclusive with the other one
//!   (the same object type, or an interface) and defines the field identically. The copy goes
//!   below the same or another field, into another selection set or into another operation; the
//!   broken one comes first or last. `n-merge-copy` places two unbroken copies (or a copy whose
//!   condition is replaced by a third object type: still exclusive).
//! * `var-list-position`: a new variable of list type used at a list-typed position; the
//!   nullability of every wrapper of the variable type is chosen independently of the location
//!   type, with or without a default on the variable (the location may have one): every
//!   clause of IsVariableUsageAllowed / AreTypesCompatible for lists, allowed and not.
//!
//! As everywhere, the verdict is the reference validator's, never derived from the mutator.
use super::rules::{pick, sel_at};
use super::*;
use std::collections::BTreeMap;

#[derive(Clone, Debug)]
struct Lookalike {
    a: String,
    fa: FieldDef,
    b: String,
    fb: FieldDef,
    /// replacements of `b` that define `fb` identically and are NOT exclusive with `a`
    broken: Vec<String>,
    /// replacements of `b` that define `fb` identically and are exclusive with `a`
    exclusive: Vec<String>,
}

fn plain_leaf(s: &RefSchema, d: &FieldDef) -> bool {
    s.is_leaf(d.ty.inner_name()) && d.args.iter().all(|a| !(a.ty.is_non_null() && a.default.is_none()))
}

/// Look-alike pairs below the abstract type `u`.
fn lookalikes(s: &RefSchema, u: &str) -> Vec<Lookalike> {
    let objs = s.possible_types(u);
    let overlapping = overlapping_types(s, u);
    let mut out = vec![];
    for a in &objs {
        for b in &objs {
            if a == b {
                continue;
            }
            let fa_all = s.get(a).map(|t| t.fields.clone()).unwrap_or_default();
            let fb_all = s.get(b).map(|t| t.fields.clone()).unwrap_or_default();
            for fb in fb_all.iter().filter(|d| plain_leaf(s, d)) {
                // types (other than b) that may be spread below u and define fb identically
                let mut broken = vec![];
                let mut exclusive = vec![];
                for t in &overlapping {
                    if t == b || s.field(t, &fb.name).as_ref() != Some(fb) {
                        continue;
                    }
                    match s.kind(t) {
                        Some(TypeKind::Object) if t != a => exclusive.push(t.clone()),
                        Some(TypeKind::Object) | Some(TypeKind::Interface) => broken.push(t.clone()),
                        _ => {}
                    }
                }
                if broken.is_empty() {
                    continue;
                }
                for fa in fa_all.iter().filter(|d| plain_leaf(s, d)) {
                    if fa.name != fb.name && shape(s, &fa.ty) == shape(s, &fb.ty) {
                        out.push(Lookalike { a: a.clone(), fa: fa.clone(), b: b.clone(), fb: fb.clone(), broken: broken.clone(), exclusive: exclusive.clone() });
                    }
                }
            }
        }
    }
    out
}

fn on(t: &str, f: &Field) -> Selection {
    Selection::Inline(InlineFragment { type_condition: Some(t.into()), directives: vec![], selection_set: vec![Selection::Field(f.clone())] })
}

fn merge_copy(m: &mut M, break_one: bool) -> bool {
    // (set, field of its parent type to select, inner abstract type)
    let mut places: Vec<(SetSite, FieldDef, String)> = vec![];
    for st in &m.sites.sets {
        let Some(p) = &st.parent else { continue };
        if st.sub_root {
            continue;
        }
        for g in m.s.get(p).map(|t| t.fields.clone()).unwrap_or_default() {
            let inner = g.ty.inner_name().to_string();
            if m.s.is_composite(&inner) && m.s.possible_types(&inner).len() >= 2 {
                places.push((st.clone(), g, inner));
            }
        }
    }
    let mut by_type: BTreeMap<String, Vec<Lookalike>> = BTreeMap::new();
    for (_, _, u) in &places {
        if !by_type.contains_key(u) {
            let l = lookalikes(m.s, u);
            by_type.insert(u.clone(), l);
        }
    }
    let types: Vec<String> = by_type.iter().filter(|(_, v)| !v.is_empty()).map(|(k, _)| k.clone()).collect();
    let Some(u) = pick(m.c, &types).cloned() else { return false };
    let Some(la) = pick(m.c, &by_type[&u]).cloned() else { return false };
    let here: Vec<(SetSite, FieldDef, String)> = places.into_iter().filter(|p| p.2 == u).collect();
    let Some((st1, g1, _)) = pick(m.c, &here).cloned() else { return false };
    // the second place: the same set and field (exhausted choices), or any other
    let (st2, g2) = if m.c.coin() {
        let (s2, g2, _) = pick(m.c, &here).cloned().unwrap();
        (s2, g2)
    } else {
        (st1.clone(), g1.clone())
    };
    let x = simple_field(m.c, m.s, &la.fa, Some("zk".into()));
    let y = simple_field(m.c, m.s, &la.fb, Some("zk".into()));
    let valid = vec![on(&la.a, &x), on(&la.b, &y)];
    let other = if break_one {
        let t = pick(m.c, &la.broken).cloned().unwrap();
        vec![on(&la.a, &x), on(&t, &y)]
    } else if let (Some(t), true) = (pick(m.c, &la.exclusive).cloned(), m.c.coin()) {
        vec![on(&la.a, &x), on(&t, &y)]
    } else {
        valid.clone()
    };
    // which comes first in the document: the valid original (exhausted choices) or the other
    let (mut first, mut second) = (valid, other);
    if m.c.bool(100) {
        std::mem::swap(&mut first, &mut second);
    }
    if m.c.bool(60) {
        first.reverse();
        second.reverse();
    }
    let n = m.doc.defs.len();
    // aliases not used by an earlier application
    let k = m.sites.fields.iter().filter(|f| matches!(sel_at(m.doc, &f.path), Selection::Field(x) if x.alias.as_deref().map_or(false, |a| a.starts_with("zc")))).count();
    let mut f1 = simple_field(m.c, m.s, &g1, Some(format!("zc{}", k)));
    f1.selection_set = first;
    let mut f2 = if g2.name == g1.name {
        f1.clone()
    } else {
        simple_field(m.c, m.s, &g2, None)
    };
    f2.alias = Some(format!("zd{}", k));
    f2.selection_set = second;
    let own_operation = st2.path.idx.is_empty() && matches!(m.doc.defs[st2.path.def], Definition::Operation(_)) && m.c.bool(90);
    set_mut(m.doc, &st1.path).push(Selection::Field(f1));
    if own_operation {
        let op = match &m.doc.defs[st2.path.def] {
            Definition::Operation(o) => o.op,
            _ => unreachable!(),
        };
        for (i, o) in ops_mut(m.doc).into_iter().enumerate() {
            if o.name.is_none() {
                o.name = Some(format!("Zo{}x{}", n, i));
                o.shorthand = false;
            }
        }
        let def = Definition::Operation(OperationDef { op, shorthand: false, name: Some(format!("Zc{}", n)), vars: vec![], directives: vec![], selection_set: vec![Selection::Field(f2)] });
        m.doc.defs.push(def);
    } else {
        set_mut(m.doc, &st2.path).push(Selection::Field(f2));
    }
    true
}

pub(super) fn merge_copy_conflict(m: &mut M) -> bool {
    merge_copy(m, true)
}

pub(super) fn n_merge_copy(m: &mut M) -> bool {
    merge_copy(m, false)
}

// ---------------------------------------------------------------------------- list variables

fn has_var(v: &Value) -> bool {
    match v {
        Value::Var(_) => true,
        Value::List(l) => l.iter().any(has_var),
        Value::Object(o) => o.iter().any(|(_, x)| has_var(x)),
        _ => false,
    }
}

/// The wrappers of `loc` with the nullability of each chosen anew. Exhausted choices: the
/// outer wrapper nullable, the inner ones flipped.
fn vary_nullability(c: &mut Choices, loc: &Type, outer: bool) -> Type {
    let (nn, inner) = match loc {
        Type::NonNull(i) => (true, &**i),
        t => (false, t),
    };
    let var_nn = if outer {
        // outer wrapper: mostly nullable (the default-value waiver is what is tested)
        c.bool(70)
    } else if c.bool(110) {
        nn
    } else {
        !nn
    };
    let t = match inner {
        Type::List(item) => Type::List(Box::new(vary_nullability(c, item, false))),
        t => t.clone(),
    };
    if var_nn {
        t.non_null()
    } else {
        t
    }
}

pub(super) fn var_list_position(m: &mut M) -> bool {
    let s = m.s;
    let total_vars: usize = m.doc.defs.iter().map(|d| if let Definition::Operation(o) = d { o.vars.len() } else { 0 }).sum();
    let name = format!("lv{}", total_vars);
    let mut loc: Option<Type> = None;
    let mut done = None;
    // non-null list positions first (three times in four), then any list position
    let rounds: &[bool] = if m.c.bool(64) { &[false] } else { &[true, false] };
    for &only_non_null in rounds {
        done = edit_value(
            m.c,
            m.doc,
            s,
            &|v, t, _, pos, cx| cx.in_operation && !cx.constant && pos != VPos::VarDefault && t.nullable().is_list() && (t.is_non_null() || !only_non_null) && !has_var(v),
            &mut |_, v, t, _| {
                loc = Some(t.clone());
                *v = Value::Var(name.clone());
            },
        );
        if done.is_some() {
            break;
        }
    }
    let (Some(cx), Some(loc)) = (done, loc) else { return false };
    let ty = vary_nullability(m.c, &loc, true);
    let default = if m.c.bool(100) { None } else { Some(const_value(m.c, s, &ty)) };
    let o = rules_op_at(m.doc, cx.def);
    o.shorthand = false;
    o.vars.push(VarDef { name, ty, default, directives: vec![] });
    true
}

fn rules_op_at(doc: &mut Document, i: usize) -> &mut OperationDef {
    match &mut doc.defs[i] {
        Definition::Operation(o) => o,
        _ => panic!("not an operation"),
    }
}
