//! Executable documents that are VALID BY CONSTRUCTION against a schema from `gen::schema`
//! (October 2021 section 5), as reference ASTs, plus rule-targeted mutators (see `mutate`).
//!
//! How validity is guaranteed:
//!  * fields are only selected from the parent type's definition (meta-fields included);
//!    composite fields always get a sub-selection, leaf fields never;
//!  * field merging: a document-wide registry binds every response key to one
//!    (field name, argument list, response shape). Two fields with the same key anywhere in the
//!    document therefore have the same name, textually identical arguments and the same shape,
//!    which is sufficient for FieldsInSetCanMerge on every selection set. The only exception are
//!    "exclusive" keys: one fresh key used for two different fields below `... on A` / `... on B`
//!    with A != B object types and equal response shape;
//!  * fragments are completed before they are registered, so a body can only spread fragments
//!    completed earlier (no cycles); every fragment is spread where it is created; type
//!    conditions are chosen among the types whose possible types overlap the parent's;
//!  * variables come from a document-wide pool; each operation declares exactly the pool
//!    variables it uses (transitively through fragments); a variable is only placed where
//!    IsVariableUsageAllowed holds for its pool definition;
//!  * a subscription has exactly one root field selection (syntactically), never a meta-field,
//!    and no @skip/@include among its root selections.
//!
//! Never generated: @defer/@stream, variables inside custom-scalar literals, numeric literals
//! outside f64, arguments that are equal only semantically (field order, number formatting).

use crate::choices::Choices;
use crate::refmodel::ast::*;
use crate::refmodel::schema::{is_variable_usage_allowed, RefSchema};
use std::collections::{BTreeMap, BTreeSet};

#[derive(Clone, Debug)]
pub struct OpOpts {
    pub variables: bool,
    /// custom (schema-defined) directives
    pub directives: bool,
    /// @skip / @include
    pub skip_include: bool,
    /// named fragments
    pub fragments: bool,
    pub inline_fragments: bool,
    /// fields of interface/union type, type conditions other than the parent type
    pub abstract_types: bool,
    /// `__schema` / `__type`
    pub introspection: bool,
    pub typename: bool,
    pub mutations: bool,
    pub subscriptions: bool,
    pub multiple_operations: bool,
    /// relative weight of subscription operations (queries have 70, mutations 15)
    pub subscription_weight: u32,
    /// same response key used several times (fields that must merge)
    pub overlapping: bool,
    /// `null` literals, single values for list types
    pub null_and_coercion: bool,
    /// `null` inside a LIST literal given to a custom scalar (e.g. `s: [1, null]` for `s: Json!`).
    /// Valid by the spec; apollo-compiler rejects it when the scalar position is non-null
    /// (known finding C17), so it is off by default.
    pub null_in_custom_scalar_list: bool,
    /// maximum field nesting generated directly (fragment reuse can at most double it)
    pub max_depth: usize,
    /// approximate number of selections in the whole document
    pub budget: usize,
    /// relative weight of a named-fragment spread among the selections of a set (a field has 60)
    pub spread_weight: u32,
    /// probability (of 256) that a spread re-uses a fragment defined earlier when one fits
    pub reuse_bias: u32,
}

impl Default for OpOpts {
    fn default() -> Self {
        OpOpts {
            variables: true,
            directives: true,
            skip_include: true,
            fragments: true,
            inline_fragments: true,
            abstract_types: true,
            introspection: true,
            typename: true,
            mutations: true,
            subscriptions: true,
            multiple_operations: true,
            subscription_weight: 15,
            overlapping: true,
            null_and_coercion: true,
            null_in_custom_scalar_list: false,
            max_depth: 3,
            budget: 40,
            spread_weight: 14,
            reuse_bias: 110,
        }
    }
}

impl OpOpts {
    /// plain queries: no variables, directives, fragments, abstract types
    pub fn plain() -> Self {
        OpOpts {
            variables: false,
            directives: false,
            skip_include: false,
            fragments: false,
            inline_fragments: false,
            abstract_types: false,
            introspection: false,
            typename: true,
            mutations: false,
            subscriptions: false,
            multiple_operations: false,
            subscription_weight: 15,
            overlapping: false,
            null_and_coercion: true,
            null_in_custom_scalar_list: false,
            max_depth: 3,
            budget: 30,
            spread_weight: 14,
            reuse_bias: 110,
        }
    }
}

#[derive(Clone, Debug)]
struct KeyInfo {
    name: String,
    args: Vec<(String, Value)>,
    /// (name, type, has default) of the definitions of the provided arguments
    argdefs: Vec<(String, Type, bool)>,
    shape: String,
    exclusive: bool,
}

#[derive(Clone, Debug)]
struct FragInfo {
    def: FragmentDef,
    sub_root: bool,
}

struct G<'a, 'c, 'd> {
    c: &'c mut Choices<'d>,
    s: &'a RefSchema,
    o: &'a OpOpts,
    keys: BTreeMap<String, KeyInfo>,
    pool: Vec<VarDef>,
    frags: Vec<FragInfo>,
    budget: usize,
    next_alias: usize,
}

/// Response shape signature: list / non-null wrappers around the leaf type name, or `*` for
/// any composite type.
pub fn shape(s: &RefSchema, ty: &Type) -> String {
    match ty {
        Type::NonNull(t) => format!("{}!", shape(s, t)),
        Type::List(t) => format!("[{}]", shape(s, t)),
        Type::Named(n) => {
            if s.is_leaf(n) {
                n.clone()
            } else {
                "*".to_string()
            }
        }
    }
}

/// Composite types whose possible types overlap those of `parent` (or that are `parent`).
pub fn overlapping_types(s: &RefSchema, parent: &str) -> Vec<String> {
    let pp = s.possible_types(parent);
    let mut out = vec![];
    for t in &s.types {
        if !matches!(t.kind, TypeKind::Object | TypeKind::Interface | TypeKind::Union) {
            continue;
        }
        if t.name == parent || s.possible_types(&t.name).iter().any(|x| pp.contains(x)) {
            out.push(t.name.clone());
        }
    }
    out
}

fn is_required(d: &InputValueDef) -> bool {
    d.ty.is_non_null() && d.default.is_none()
}

const STRINGS: &[&str] = &["\"\"", "\"s\"", "\"hello world\"", "\"é\"", "\"a\\\"b\"", "\"x\\\\y\"", "\"\\u00e9\\n\"", "\"\"\"block\"\"\"", "\"\"\"\n  two\n    lines\n  \"\"\""];

fn str_lit(raw: &str) -> Value {
    let block = raw.starts_with("\"\"\"");
    Value::Str(StrLit { value: crate::refmodel::strings::token_value(raw).unwrap_or_default(), raw: raw.to_string(), block })
}

impl<'a, 'c, 'd> G<'a, 'c, 'd> {
    // ------------------------------------------------------------------ values

    fn simplest(&mut self, ty: &Type) -> Value {
        match ty {
            Type::NonNull(t) => match &**t {
                Type::List(_) => Value::List(vec![]),
                Type::Named(n) => self.named_value(n, false, 0),
                Type::NonNull(_) => Value::Null,
            },
            _ => {
                if self.o.null_and_coercion {
                    Value::Null
                } else {
                    match ty {
                        Type::List(_) => Value::List(vec![]),
                        Type::Named(n) => self.named_value(n, false, 0),
                        Type::NonNull(_) => unreachable!(),
                    }
                }
            }
        }
    }

    /// A value valid at a position of type `ty` (whose argument / input field has a default iff
    /// `has_default`). `vars`: variables may be used.
    fn value(&mut self, ty: &Type, has_default: bool, vars: bool, depth: usize) -> Value {
        if vars && self.o.variables && self.c.bool(56) {
            if let Some(v) = self.variable_for(ty, has_default) {
                return v;
            }
        }
        if depth == 0 {
            return self.simplest(ty);
        }
        match ty {
            Type::NonNull(t) => self.non_null_value(t, vars, depth),
            t => {
                if self.o.null_and_coercion && self.c.bool(30) {
                    Value::Null
                } else {
                    self.non_null_value(t, vars, depth)
                }
            }
        }
    }

    fn non_null_value(&mut self, t: &Type, vars: bool, depth: usize) -> Value {
        match t {
            Type::NonNull(inner) => self.non_null_value(inner, vars, depth),
            Type::List(item) => {
                if self.o.null_and_coercion && self.c.bool(50) {
                    // a single non-null, non-variable, NON-LIST value is coerced to a list of one
                    // (recursively for nested lists); a list literal would be read as the outer list
                    let mut t: &Type = item;
                    loop {
                        match t {
                            Type::NonNull(i) | Type::List(i) => t = i,
                            Type::Named(_) => break,
                        }
                    }
                    let named = t.inner_name().to_string();
                    let v = self.named_value(&named, vars, depth);
                    if !matches!(v, Value::List(_) | Value::Null) {
                        return v;
                    }
                }
                let n = self.c.small(3);
                Value::List(
                    (0..n)
                        .map(|_| {
                            let mut v = self.value(item, false, vars, depth);
                            // inside a list literal an item of list type is written as a list (a
                            // bare value there is read differently by the October 2021 table and
                            // by its prose / graphql-js)
                            if !matches!(v, Value::List(_) | Value::Null | Value::Var(_)) {
                                for _ in 0..item.depth() {
                                    v = Value::List(vec![v]);
                                }
                            }
                            v
                        })
                        .collect(),
                )
            }
            Type::Named(n) => self.named_value(n, vars, depth),
        }
    }

    fn named_value(&mut self, n: &str, vars: bool, depth: usize) -> Value {
        match n {
            "Int" => Value::Int(self.c.pick(&["0", "1", "-7", "42", "2147483647", "-2147483648"]).to_string()),
            "Float" => {
                if self.c.bool(80) {
                    Value::Int(self.c.pick(&["0", "3", "-1", "123456789012"]).to_string())
                } else {
                    Value::Float(self.c.pick(&["1.5", "0.0", "-2.25", "1e3", "6.02E23", "1.0e-7"]).to_string())
                }
            }
            "String" => str_lit(self.c.pick(STRINGS)),
            "Boolean" => Value::Bool(self.c.coin()),
            "ID" => {
                if self.c.coin() {
                    str_lit(self.c.pick(&["\"id1\"", "\"7\"", "\"\""]))
                } else {
                    Value::Int(self.c.pick(&["0", "12", "99999999999999999999"]).to_string())
                }
            }
            _ => {
                let Some(td) = self.s.get(n).cloned() else { return Value::Null };
                match td.kind {
                    TypeKind::Enum => Value::Enum(td.values[self.c.choose(td.values.len())].name.clone()),
                    TypeKind::InputObject => {
                        let mut fields = vec![];
                        for f in &td.input_fields {
                            if is_required(f) || (depth > 0 && self.c.bool(130)) {
                                let d = depth.saturating_sub(1);
                                fields.push((f.name.clone(), self.value(&f.ty, f.default.is_some(), vars, d)));
                            }
                        }
                        Value::Object(fields)
                    }
                    // custom scalar: any constant literal
                    _ => match self.c.choose(7) {
                        0 => str_lit("\"custom\""),
                        1 => Value::Int("5".into()),
                        2 => Value::Bool(true),
                        3 => Value::Float("2.5".into()),
                        4 => Value::Enum("ANY_NAME".into()),
                        5 => Value::List(vec![Value::Int("1".into()), str_lit("\"x\""), if self.o.null_in_custom_scalar_list { Value::Null } else { Value::Bool(false) }]),
                        _ => Value::Object(vec![("k".into(), Value::List(vec![Value::Int("1".into())])), ("z".into(), Value::Null)]),
                    },
                }
            }
        }
    }

    /// A pool variable usable at this position (existing or new), as `Value::Var`.
    fn variable_for(&mut self, ty: &Type, has_default: bool) -> Option<Value> {
        let cands: Vec<usize> = (0..self.pool.len()).filter(|&i| is_variable_usage_allowed(&self.pool[i].ty, self.pool[i].default.as_ref(), ty, has_default)).collect();
        if !cands.is_empty() && (self.pool.len() >= 6 || self.c.bool(140)) {
            let i = cands[self.c.choose(cands.len())];
            return Some(Value::Var(self.pool[i].name.clone()));
        }
        if self.pool.len() >= 6 {
            return None;
        }
        // new variable: a type allowed at this position
        let mut vty = ty.clone();
        let mut need_nonnull_default = false;
        match self.c.weighted(&[50, 20, 15, 15]) {
            0 => {}
            1 => vty = strictify(&vty),
            2 => vty = vty.non_null(),
            _ => {
                if let Type::NonNull(inner) = ty {
                    vty = (**inner).clone();
                    need_nonnull_default = !has_default || self.c.coin();
                    // a nullable LIST variable let in by a default: the item types still only
                    // have to be compatible (stricter items at every depth are allowed)
                    if vty.is_list() && self.c.coin() {
                        vty = strictify(&vty);
                    }
                }
            }
        }
        let default = if need_nonnull_default {
            Some(self.non_null_value(&vty.clone(), false, 2))
        } else if self.c.bool(90) {
            // a default never weakens an allowed usage (only `null` defaults are neutral)
            Some(self.value(&vty.clone(), false, false, 2))
        } else {
            None
        };
        let directives = self.directives("VARIABLE_DEFINITION", false, false);
        let name = format!("v{}", self.pool.len());
        debug_assert!(is_variable_usage_allowed(&vty, default.as_ref(), ty, has_default));
        self.pool.push(VarDef { name: name.clone(), ty: vty, default, directives });
        Some(Value::Var(name))
    }

    // ------------------------------------------------------------------ directives

    fn directives(&mut self, location: &str, vars: bool, conditional_ok: bool) -> Vec<Directive> {
        if !(self.o.directives || self.o.skip_include) || !self.c.bool(70) {
            return vec![];
        }
        let cands: Vec<DirectiveDef> = self
            .s
            .directives
            .values()
            .filter(|d| d.locations.iter().any(|l| l == location))
            .filter(|d| {
                // `@skip` / `@include` are applied as their definition IN FORCE says (a schema may
                // re-define them, see `gen::builtin_redef`: more or fewer locations, repeatable).
                // apollo's subscription rule is about the names, so `conditional_ok` only matters
                // for the three selection locations.
                let cond = d.name == "skip" || d.name == "include";
                if cond {
                    let on_selection = matches!(location, "FIELD" | "FRAGMENT_SPREAD" | "INLINE_FRAGMENT");
                    self.o.skip_include && (conditional_ok || !on_selection)
                } else {
                    self.o.directives
                }
            })
            .cloned()
            .collect();
        if cands.is_empty() {
            return vec![];
        }
        let n = 1 + self.c.small(2);
        let mut out: Vec<Directive> = vec![];
        for _ in 0..n {
            let d = &cands[self.c.choose(cands.len())];
            if !d.repeatable && out.iter().any(|x| x.name == d.name) {
                continue;
            }
            let args = self.arguments(&d.args, vars);
            out.push(Directive { name: d.name.clone(), args });
        }
        out
    }

    fn arguments(&mut self, defs: &[InputValueDef], vars: bool) -> Vec<(String, Value)> {
        let mut out = vec![];
        for d in defs {
            if is_required(d) || self.c.bool(150) {
                out.push((d.name.clone(), self.value(&d.ty, d.default.is_some(), vars, 2)));
            }
        }
        if out.len() > 1 && self.c.bool(40) {
            out.rotate_left(1);
        }
        out
    }

    // ------------------------------------------------------------------ selections

    fn fresh_key(&mut self, prefix: &str) -> String {
        loop {
            let k = format!("{}{}", prefix, self.next_alias);
            self.next_alias += 1;
            if !self.keys.contains_key(&k) {
                return k;
            }
        }
    }

    fn compatible(&self, info: &KeyInfo, def: &FieldDef) -> bool {
        if info.exclusive || info.name != def.name || info.shape != shape(self.s, &def.ty) {
            return false;
        }
        for (n, t, hd) in &info.argdefs {
            match def.args.iter().find(|a| a.name == *n) {
                Some(a) if a.ty == *t && a.default.is_some() == *hd => {}
                _ => return false,
            }
        }
        def.args.iter().all(|a| !is_required(a) || info.args.iter().any(|(n, _)| *n == a.name))
    }

    fn field_candidates(&self, parent: &str, depth: usize, meta_ok: bool) -> Vec<FieldDef> {
        let leaf_only = depth >= self.o.max_depth || self.budget == 0;
        let mut out: Vec<FieldDef> = vec![];
        if let Some(t) = self.s.get(parent) {
            for f in &t.fields {
                let inner = f.ty.inner_name();
                if self.s.is_composite(inner) && leaf_only {
                    continue;
                }
                if self.s.is_abstract(inner) && !self.o.abstract_types {
                    continue;
                }
                out.push(f.clone());
            }
        }
        if meta_ok {
            if self.o.typename || out.is_empty() {
                out.extend(self.s.field(parent, "__typename"));
            }
            if self.o.introspection && !leaf_only && self.s.query.as_deref() == Some(parent) {
                out.extend(self.s.field(parent, "__schema"));
                out.extend(self.s.field(parent, "__type"));
            }
        }
        out
    }

    /// One field selection on `parent`. `plain_root`: subscription root field (no meta-field,
    /// no @skip/@include).
    fn field(&mut self, parent: &str, depth: usize, nest: usize, sub_root: bool) -> Field {
        let mut cands = self.field_candidates(parent, depth, !sub_root);
        if cands.is_empty() {
            // subscription root whose fields are all composite at the depth limit cannot happen
            // (depth 0 < max_depth); any other parent has __typename
            cands = self.s.get(parent).map(|t| t.fields.clone()).unwrap_or_default();
        }
        let def = cands[self.c.choose(cands.len())].clone();
        self.field_of(&def, depth, nest, sub_root)
    }

    fn field_of(&mut self, def: &FieldDef, depth: usize, nest: usize, sub_root: bool) -> Field {
        self.budget = self.budget.saturating_sub(1);
        let mode = if self.o.overlapping { self.c.weighted(&[60, 20, 20]) } else { self.c.weighted(&[75, 25]) };
        let mut key: Option<String> = None;
        if mode == 2 {
            let ks: Vec<String> = self.keys.iter().filter(|(_, i)| self.compatible(i, def)).map(|(k, _)| k.clone()).collect();
            if !ks.is_empty() {
                key = Some(ks[self.c.choose(ks.len())].clone());
            }
        }
        if key.is_none() && mode != 1 {
            match self.keys.get(&def.name) {
                None => key = Some(def.name.clone()),
                Some(i) if self.compatible(i, def) && self.o.overlapping => key = Some(def.name.clone()),
                Some(_) => {}
            }
        }
        let key = match key {
            Some(k) => k,
            None => self.fresh_key("k"),
        };
        let args = match self.keys.get(&key) {
            Some(i) => i.args.clone(),
            None => {
                let args = self.arguments(&def.args, true);
                let argdefs = args
                    .iter()
                    .map(|(n, _)| {
                        let a = def.args.iter().find(|a| a.name == *n).unwrap();
                        (a.name.clone(), a.ty.clone(), a.default.is_some())
                    })
                    .collect();
                self.keys.insert(key.clone(), KeyInfo { name: def.name.clone(), args: args.clone(), argdefs, shape: shape(self.s, &def.ty), exclusive: false });
                args
            }
        };
        let directives = self.directives("FIELD", true, !sub_root);
        let inner = def.ty.inner_name().to_string();
        let selection_set = if self.s.is_composite(&inner) { self.selection_set(&inner, depth + 1, nest + 1) } else { vec![] };
        // an alias may be spelled like the field name (`a: a`): it is still an alias in the document
        let redundant_alias = key == def.name && self.c.bool(24);
        Field { alias: if key == def.name && !redundant_alias { None } else { Some(key) }, name: def.name.clone(), args, directives, selection_set }
    }

    fn type_condition(&mut self, parent: &str) -> String {
        if !self.o.abstract_types {
            return parent.to_string();
        }
        let c = overlapping_types(self.s, parent);
        if c.is_empty() {
            return parent.to_string();
        }
        // bias towards types other than the parent
        if self.c.bool(60) {
            return parent.to_string();
        }
        c[self.c.choose(c.len())].clone()
    }

    fn selection_set(&mut self, parent: &str, depth: usize, nest: usize) -> Vec<Selection> {
        let n = if self.budget == 0 { 1 } else { 1 + self.c.small(2) };
        let mut out: Vec<Selection> = vec![];
        for _ in 0..n {
            let can_nest = nest < self.o.max_depth + 2 && self.budget > 0;
            let w_inline = if self.o.inline_fragments && can_nest { 14 } else { 0 };
            let w_spread = if self.o.fragments && can_nest { self.o.spread_weight } else { 0 };
            let w_dup = if self.o.overlapping && out.iter().any(|s| matches!(s, Selection::Field(_))) { 8 } else { 0 };
            let w_excl = if self.o.overlapping && self.o.abstract_types && self.o.inline_fragments && can_nest && self.s.possible_types(parent).len() >= 2 { 8 } else { 0 };
            match self.c.weighted(&[60, w_inline, w_spread, w_dup, w_excl]) {
                1 => {
                    let tc = if self.c.bool(70) { None } else { Some(self.type_condition(parent)) };
                    let directives = self.directives("INLINE_FRAGMENT", true, true);
                    let inner = tc.clone().unwrap_or_else(|| parent.to_string());
                    let selection_set = self.selection_set(&inner, depth, nest + 1);
                    out.push(Selection::Inline(InlineFragment { type_condition: tc, directives, selection_set }));
                }
                2 => {
                    let sp = self.spread(parent, depth, nest);
                    out.push(sp);
                }
                3 => {
                    let fs: Vec<Field> = out.iter().filter_map(|s| if let Selection::Field(f) = s { Some(f.clone()) } else { None }).collect();
                    let f0 = &fs[self.c.choose(fs.len())];
                    self.budget = self.budget.saturating_sub(1);
                    let directives = self.directives("FIELD", true, true);
                    let selection_set = match self.s.field(parent, &f0.name) {
                        Some(d) if self.s.is_composite(d.ty.inner_name()) => self.selection_set(d.ty.inner_name(), depth + 1, nest + 1),
                        _ => vec![],
                    };
                    out.push(Selection::Field(Field { alias: f0.alias.clone(), name: f0.name.clone(), args: f0.args.clone(), directives, selection_set }));
                }
                4 => match self.exclusive(parent, depth, nest) {
                    Some(two) => out.extend(two),
                    None => {
                        let f = self.field(parent, depth, nest, false);
                        out.push(Selection::Field(f));
                    }
                },
                _ => {
                    let f = self.field(parent, depth, nest, false);
                    out.push(Selection::Field(f));
                }
            }
        }
        out
    }

    /// `... on A { x: fa } ... on B { x: fb }` with A != B objects, fa != fb of equal shape.
    fn exclusive(&mut self, parent: &str, depth: usize, nest: usize) -> Option<Vec<Selection>> {
        let objs = self.s.possible_types(parent);
        let mut combos: Vec<(String, FieldDef, String, FieldDef)> = vec![];
        for (i, a) in objs.iter().enumerate() {
            for b in &objs[i + 1..] {
                for fa in self.field_candidates(a, depth, false) {
                    for fb in self.field_candidates(b, depth, false) {
                        if fa.name != fb.name && shape(self.s, &fa.ty) == shape(self.s, &fb.ty) {
                            combos.push((a.clone(), fa.clone(), b.clone(), fb));
                        }
                    }
                }
            }
        }
        if combos.is_empty() {
            return None;
        }
        let (a, fa, b, fb) = combos[self.c.choose(combos.len())].clone();
        let key = self.fresh_key("x");
        self.keys.insert(key.clone(), KeyInfo { name: String::new(), args: vec![], argdefs: vec![], shape: shape(self.s, &fa.ty), exclusive: true });
        let mut out = vec![];
        for (t, f) in [(a, fa), (b, fb)] {
            self.budget = self.budget.saturating_sub(1);
            let args = self.arguments(&f.args, true);
            let directives = self.directives("FIELD", true, true);
            let inner = f.ty.inner_name().to_string();
            let selection_set = if self.s.is_composite(&inner) { self.selection_set(&inner, depth + 1, nest + 2) } else { vec![] };
            let field = Field { alias: Some(key.clone()), name: f.name.clone(), args, directives, selection_set };
            out.push(Selection::Inline(InlineFragment { type_condition: Some(t), directives: vec![], selection_set: vec![Selection::Field(field)] }));
        }
        Some(out)
    }

    fn spread(&mut self, parent: &str, depth: usize, nest: usize) -> Selection {
        let overl = overlapping_types(self.s, parent);
        let reuse: Vec<usize> = (0..self.frags.len()).filter(|&i| !self.frags[i].sub_root && overl.contains(&self.frags[i].def.type_condition)).collect();
        let name = if !reuse.is_empty() && self.c.bool(self.o.reuse_bias) {
            self.frags[reuse[self.c.choose(reuse.len())]].def.name.clone()
        } else {
            let tc = self.type_condition(parent);
            let directives = self.directives("FRAGMENT_DEFINITION", true, false);
            let selection_set = self.selection_set(&tc, depth, nest + 1);
            let name = format!("F{}", self.frags.len());
            self.frags.push(FragInfo { def: FragmentDef { name: name.clone(), type_condition: tc, directives, selection_set }, sub_root: false });
            name
        };
        let directives = self.directives("FRAGMENT_SPREAD", true, true);
        Selection::Spread(FragmentSpread { name, directives })
    }

    fn subscription_root(&mut self, root: &str) -> Vec<Selection> {
        let reuse: Vec<usize> = (0..self.frags.len()).filter(|&i| self.frags[i].sub_root).collect();
        if !reuse.is_empty() && self.c.bool(100) {
            let name = self.frags[reuse[self.c.choose(reuse.len())]].def.name.clone();
            let directives = self.directives("FRAGMENT_SPREAD", true, false);
            return vec![Selection::Spread(FragmentSpread { name, directives })];
        }
        let f = Selection::Field(self.field(root, 0, 0, true));
        let w_inline = if self.o.inline_fragments { 12 } else { 0 };
        let w_frag = if self.o.fragments { 16 } else { 0 };
        match self.c.weighted(&[60, w_inline, w_inline, w_frag]) {
            1 => vec![Selection::Inline(InlineFragment { type_condition: None, directives: self.directives("INLINE_FRAGMENT", true, false), selection_set: vec![f] })],
            2 => vec![Selection::Inline(InlineFragment { type_condition: Some(root.to_string()), directives: self.directives("INLINE_FRAGMENT", true, false), selection_set: vec![f] })],
            3 => {
                let name = format!("F{}", self.frags.len());
                let directives = self.directives("FRAGMENT_DEFINITION", true, false);
                self.frags.push(FragInfo { def: FragmentDef { name: name.clone(), type_condition: root.to_string(), directives, selection_set: vec![f] }, sub_root: true });
                vec![Selection::Spread(FragmentSpread { name, directives: self.directives("FRAGMENT_SPREAD", true, false) })]
            }
            _ => vec![f],
        }
    }
}

/// `[Int]` -> `[Int!]` etc.: a stricter type is allowed wherever the original is.
fn strictify(t: &Type) -> Type {
    match t {
        Type::NonNull(i) => strictify(i).non_null(),
        Type::List(i) => Type::List(Box::new(strictify(i).non_null())),
        Type::Named(n) => Type::Named(n.clone()),
    }
}

fn value_vars(v: &Value, out: &mut Vec<String>) {
    match v {
        Value::Var(n) => {
            if !out.contains(n) {
                out.push(n.clone())
            }
        }
        Value::List(l) => l.iter().for_each(|x| value_vars(x, out)),
        Value::Object(o) => o.iter().for_each(|(_, x)| value_vars(x, out)),
        _ => {}
    }
}

fn directive_vars(ds: &[Directive], out: &mut Vec<String>) {
    for d in ds {
        for (_, v) in &d.args {
            value_vars(v, out);
        }
    }
}

fn selection_vars(sels: &[Selection], frags: &BTreeMap<String, &FragmentDef>, seen: &mut BTreeSet<String>, out: &mut Vec<String>) {
    for s in sels {
        match s {
            Selection::Field(f) => {
                for (_, v) in &f.args {
                    value_vars(v, out);
                }
                directive_vars(&f.directives, out);
                selection_vars(&f.selection_set, frags, seen, out);
            }
            Selection::Inline(i) => {
                directive_vars(&i.directives, out);
                selection_vars(&i.selection_set, frags, seen, out);
            }
            Selection::Spread(sp) => {
                directive_vars(&sp.directives, out);
                if seen.insert(sp.name.clone()) {
                    if let Some(fd) = frags.get(&sp.name) {
                        directive_vars(&fd.directives, out);
                        selection_vars(&fd.selection_set, frags, seen, out);
                    }
                }
            }
        }
    }
}

/// Names of the variables used by an operation, transitively through fragments, in order of
/// first use.
pub fn used_variables(op: &OperationDef, doc_frags: &[&FragmentDef]) -> Vec<String> {
    let frags: BTreeMap<String, &FragmentDef> = doc_frags.iter().map(|f| (f.name.clone(), *f)).collect();
    let mut out = vec![];
    directive_vars(&op.directives, &mut out);
    selection_vars(&op.selection_set, &frags, &mut BTreeSet::new(), &mut out);
    out
}

/// An executable document valid against `schema` (which must come from a valid type-system
/// document, e.g. `RefSchema::from_document(&gen::schema::schema(..))`).
pub fn valid_document(c: &mut Choices, schema: &RefSchema, opts: &OpOpts) -> Document {
    let mut g = G { c, s: schema, o: opts, keys: BTreeMap::new(), pool: vec![], frags: vec![], budget: opts.budget, next_alias: 0 };
    let n_ops = if opts.multiple_operations { 1 + g.c.small(2) } else { 1 };
    let mut ops: Vec<OperationDef> = vec![];
    for i in 0..n_ops {
        let w_mut = if opts.mutations && schema.mutation.is_some() { 15 } else { 0 };
        let w_sub = if opts.subscriptions && schema.subscription.is_some() { opts.subscription_weight } else { 0 };
        let op = match g.c.weighted(&[70, w_mut, w_sub]) {
            1 => OpType::Mutation,
            2 => OpType::Subscription,
            _ => OpType::Query,
        };
        let Some(root) = schema.root(op).map(|s| s.to_string()) else { continue };
        let name = if n_ops > 1 || g.c.coin() { Some(format!("Op{}", i)) } else { None };
        let loc = match op {
            OpType::Query => "QUERY",
            OpType::Mutation => "MUTATION",
            OpType::Subscription => "SUBSCRIPTION",
        };
        let directives = g.directives(loc, true, false);
        let selection_set = if op == OpType::Subscription { g.subscription_root(&root) } else { g.selection_set(&root, 0, 0) };
        ops.push(OperationDef { op, shorthand: false, name, vars: vec![], directives, selection_set });
    }
    if ops.is_empty() {
        // a query root always exists in a valid schema
        let root = schema.query.clone().unwrap_or_else(|| "Query".into());
        let selection_set = g.selection_set(&root, 0, 0);
        ops.push(OperationDef { op: OpType::Query, shorthand: false, name: None, vars: vec![], directives: vec![], selection_set });
    }
    let frag_defs: Vec<FragmentDef> = g.frags.iter().map(|f| f.def.clone()).collect();
    let frag_refs: Vec<&FragmentDef> = frag_defs.iter().collect();
    for op in ops.iter_mut() {
        let used = used_variables(op, &frag_refs);
        op.vars = g.pool.iter().filter(|v| used.contains(&v.name)).cloned().collect();
        if op.vars.len() > 1 && g.c.bool(60) {
            op.vars.reverse();
        }
        if op.op == OpType::Query && op.name.is_none() && op.vars.is_empty() && op.directives.is_empty() && g.c.bool(150) {
            op.shorthand = true;
        }
    }
    // definitions in an order decided by choices
    let mut pool: Vec<Definition> = ops.into_iter().map(Definition::Operation).collect();
    pool.extend(frag_defs.into_iter().map(Definition::Fragment));
    let mut defs = vec![];
    while !pool.is_empty() {
        let i = if g.c.bool(100) { g.c.choose(pool.len()) } else { 0 };
        defs.push(pool.remove(i));
    }
    Document { defs }
}

/// A selection set for `parent` usable as a field set (`FieldSet::parse`): no named fragments,
/// no variables.
pub fn field_set(c: &mut Choices, schema: &RefSchema, parent: &str, opts: &OpOpts) -> Vec<Selection> {
    let mut o = opts.clone();
    o.variables = false;
    o.fragments = false;
    o.introspection = false;
    let mut g = G { c, s: schema, o: &o, keys: BTreeMap::new(), pool: vec![], frags: vec![], budget: o.budget.min(12), next_alias: 0 };
    g.selection_set(parent, 0, 0)
}

/// A non-null constant (no variables) valid for `ty`.
pub fn const_value(c: &mut Choices, schema: &RefSchema, ty: &Type) -> Value {
    let o = OpOpts { variables: false, ..OpOpts::default() };
    let mut g = G { c, s: schema, o: &o, keys: BTreeMap::new(), pool: vec![], frags: vec![], budget: 0, next_alias: 0 };
    g.non_null_value(ty, false, 2)
}

/// A minimal valid selection of field `def` (constant arguments, required ones only plus some
/// optional ones; `{ __typename }` below composite fields).
pub fn simple_field(c: &mut Choices, schema: &RefSchema, def: &FieldDef, alias: Option<String>) -> Field {
    let o = OpOpts { variables: false, ..OpOpts::default() };
    let mut g = G { c, s: schema, o: &o, keys: BTreeMap::new(), pool: vec![], frags: vec![], budget: 0, next_alias: 0 };
    let args = g.arguments(&def.args, false);
    let selection_set = if schema.is_composite(def.ty.inner_name()) {
        vec![Selection::Field(Field { alias: None, name: "__typename".into(), args: vec![], directives: vec![], selection_set: vec![] })]
    } else {
        vec![]
    };
    Field { alias, name: def.name.clone(), args, directives: vec![], selection_set }
}

/// Constant arguments valid for the argument definitions `defs` (required ones, some optional
/// ones).
pub fn const_arguments(c: &mut Choices, schema: &RefSchema, defs: &[InputValueDef]) -> Vec<(String, Value)> {
    let o = OpOpts { variables: false, ..OpOpts::default() };
    let mut g = G { c, s: schema, o: &o, keys: BTreeMap::new(), pool: vec![], frags: vec![], budget: 0, next_alias: 0 };
    g.arguments(defs, false)
}
