//! Schemas that RE-DEFINE built-in directives (`@skip`, `@include`, `@deprecated`,
//! `@specifiedBy`). apollo-compiler documents that a schema document may define a built-in
//! directive itself, once (`SchemaBuilder`: "Re-defining a built-in definition is allowed, but
//! only once"); graphql-js `buildSchema` does the same (the specified directive is only added
//! when the document does not define it). The re-definition then IS the directive's definition:
//! its `repeatable` flag and its locations decide "Directives Are Unique Per Location" and
//! "Directives Are In Valid Locations" for executable documents.
//!
//! What is generated keeps every document of `gen::schema` / `gen::opfixture` valid:
//!  * the argument list is the built-in one (same names, types, defaults), so every existing
//!    application stays well-typed and apollo's subscription rule (which looks for the NAMES
//!    `skip` / `include`) keeps its meaning;
//!  * the built-in locations are all kept (type-system documents apply `@deprecated` /
//!    `@specifiedBy` there; executable documents are generated from the definition in force, so
//!    `@skip` / `@include` may also LOSE locations: that variant is generated too);
//!  * `repeatable` and additional locations (executable ones, so that operations can use them)
//!    are chosen freely.
//! At most one definition per name is added (a second one is a collision error).

use crate::choices::Choices;
use crate::refmodel::ast::*;
use crate::refmodel::schema::builtin_document;

pub const REDEFINABLE: [&str; 4] = ["skip", "include", "deprecated", "specifiedBy"];

const EXTRA_EXEC: [&str; 8] = ["QUERY", "MUTATION", "SUBSCRIPTION", "FIELD", "FRAGMENT_DEFINITION", "FRAGMENT_SPREAD", "INLINE_FRAGMENT", "VARIABLE_DEFINITION"];

fn builtin(name: &str) -> DirectiveDef {
    builtin_document()
        .defs
        .iter()
        .find_map(|d| match d {
            Definition::Directive(dd) if dd.name == name => Some(dd.clone()),
            _ => None,
        })
        .expect("built-in directive")
}

/// One re-definition of the built-in directive `name`.
pub fn redefinition(c: &mut Choices, name: &str) -> DirectiveDef {
    let mut d = builtin(name);
    d.description = None;
    d.repeatable = c.bool(150);
    let conditional = name == "skip" || name == "include";
    // 0: the built-in locations, 1: plus some executable locations, 2: every executable
    // location, 3 (@skip/@include only): a non-empty subset of the built-in locations
    let mode = c.weighted(&[30, 45, 15, if conditional { 15 } else { 0 }]);
    match mode {
        1 => {
            let n = 1 + c.small(3);
            for _ in 0..n {
                let l = EXTRA_EXEC[c.choose(EXTRA_EXEC.len())];
                if !d.locations.iter().any(|x| x == l) {
                    d.locations.push(l.to_string());
                }
            }
        }
        2 => {
            for l in EXTRA_EXEC {
                if !d.locations.iter().any(|x| x == l) {
                    d.locations.push(l.to_string());
                }
            }
        }
        3 => {
            let keep = c.choose(d.locations.len());
            let l = d.locations[keep].clone();
            d.locations.retain(|x| *x == l || c.coin());
        }
        _ => {}
    }
    if d.locations.len() > 1 && c.bool(60) {
        d.locations.rotate_left(1);
    }
    d
}

/// Add re-definitions of some built-in directives to a schema document that does not define
/// them yet. Returns the names that were re-defined.
pub fn redefine_builtins(c: &mut Choices, doc: &mut Document) -> Vec<&'static str> {
    let mut out = vec![];
    // at least one; @skip / @include most often (executable documents use them everywhere)
    let weights: [u32; 4] = [110, 110, 60, 40];
    let forced = c.weighted(&weights);
    for (i, name) in REDEFINABLE.iter().enumerate() {
        let take = i == forced || c.bool(weights[i] / 2);
        if !take || doc.defs.iter().any(|d| matches!(d, Definition::Directive(dd) if dd.name == *name)) {
            continue;
        }
        let def = redefinition(c, name);
        let at = if c.coin() { doc.defs.len() } else { c.choose(doc.defs.len() + 1) };
        doc.defs.insert(at, Definition::Directive(def));
        out.push(*name);
    }
    out
}

#[cfg(test)]
mod tests {
    use super::*;
    use crate::refmodel::parser::parse_document;
    use crate::refmodel::schema::RefSchema;
    use crate::refmodel::typesys;

    #[test]
    fn redefinitions_keep_the_schema_valid_and_are_in_force() {
        for seed in 0..200u32 {
            let bytes: Vec<u8> = (0..64).map(|i| (seed.wrapping_mul(2654435761).wrapping_add(i * 40503) >> 7) as u8).collect();
            let mut c = Choices::new(&bytes);
            let mut d = parse_document("type Query { a: Int @deprecated b(x: Int @deprecated(reason: \"r\")): S } scalar S @specifiedBy(url: \"u\")").unwrap();
            let names = redefine_builtins(&mut c, &mut d);
            assert!(!names.is_empty());
            assert!(typesys::validate(&d).is_valid(), "{:?}", typesys::validate(&d));
            let rs = RefSchema::from_document(&d);
            for n in names {
                assert!(rs.user_directives.iter().any(|u| u == n));
                let dd = rs.directive(n).unwrap();
                assert_eq!(dd.args.len(), 1);
                if n == "deprecated" || n == "specifiedBy" {
                    for l in &builtin(n).locations {
                        assert!(dd.locations.contains(l));
                    }
                }
            }
        }
    }
}
