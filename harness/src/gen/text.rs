//! Text-level generators: unicode strings, token soup, lexeme attempts, nesting templates,
//! token/byte mutations.

use crate::choices::Choices;

/// Characters for lexical stress. C0 controls other than TAB/LF/CR are NOT in here (DESIGN 3.1).
pub const LEX_ALPHABET: &[&str] = &[
    "0", "1", "9", "5", ".", "e", "E", "+", "-", "\"", "\\", "u", "a", "f", "F", "n", "x", "_",
    "\n", "\r", " ", "\t", "\u{FEFF}", "#", ",", "!", "$", "&", "(", ")", ":", "=", "@", "[", "]",
    "{", "}", "|", "...", "é", "中", "🚀", "\u{2028}", "/", "b", "t", "r", "D", "8", "\"\"\"", "\\\"\"\"",
    "\\u", "0x", "..", "on", "true", "null", "query", "type",
];

pub const PUNCT: &[&str] = &["!", "$", "&", "(", ")", ":", "=", "@", "[", "]", "{", "}", "|", "..."];
pub const KEYWORDS: &[&str] = &[
    "query", "mutation", "subscription", "fragment", "on", "schema", "extend", "type", "interface",
    "union", "enum", "input", "scalar", "directive", "implements", "repeatable", "true", "false", "null",
    "QUERY", "FIELD", "OBJECT", "a", "b", "T", "Int", "_x1",
];
pub const NUMBERS: &[&str] = &["0", "-0", "1", "42", "-7", "1.5", "0.0", "1e5", "1E-3", "2.5e+10", "1e", "1.", "1.e5", "0x1", "01", "-", "1.5.", "1a", "00", "-01", "1_0", "1e+", "123456789012345678901234567890"];
pub const STRINGS: &[&str] = &[
    "\"\"", "\"a\"", "\"a b\"", "\"\\n\\t\\\"\\\\\\/\\b\\f\\r\"", "\"\\u00e9\"", "\"\\u00E9x\"", "\"é中🚀\"",
    "\"\\q\"", "\"\\u12\"", "\"\\uD800\"", "\"\\u{1F600}\"", "\"unterminated", "\"a\nb\"", "\"\\\"", "\"\\",
    "\"\"\"\"\"\"", "\"\"\"a\"\"\"", "\"\"\"\n  a\n   b\n\"\"\"", "\"\"\"a \\\"\"\" b\"\"\"", "\"\"\"\"", "\"\"\"a\"\"", "\"\"\"a\\\"\"\"", "\"\"\" \\\\\"\"\"",
    "\"\"\"\"\"\"\"", "\"\"\"x\"\"\"\"", "\"\u{FEFF}\"", "\"\t\"",
];

/// Arbitrary Unicode scalar sequence (no C0 controls other than TAB/LF/CR unless `controls`).
pub fn unicode(c: &mut Choices, max_chars: usize, controls: bool) -> String {
    let n = c.range(0, max_chars);
    let mut s = String::new();
    for _ in 0..n {
        let ch = match c.weighted(&[40, 10, 10, 10, 5, 5, 5, 5, 5]) {
            0 => (0x20 + c.choose(0x5f) as u32) as u8 as char, // printable ASCII
            1 => c.pick(&['\n', '\r', '\t', ' ']),
            2 => c.pick(&['"', '\\', '#', ',', '{', '}', '[', ']', '(', ')', ':', '!', '.', '$', '@', '&', '|', '=']),
            3 => char::from_u32(0xA0 + c.choose(0x500) as u32).unwrap_or('é'),
            4 => char::from_u32(0x4E00 + c.choose(0x1000) as u32).unwrap_or('中'),
            5 => char::from_u32(0x1F300 + c.choose(0x300) as u32).unwrap_or('🚀'),
            6 => c.pick(&['\u{FEFF}', '\u{2028}', '\u{2029}', '\u{0085}', '\u{00A0}', '\u{FFFF}', '\u{FFFD}', '\u{10FFFF}', '\u{E000}']),
            7 => {
                if controls {
                    char::from_u32(c.choose(0x20) as u32).unwrap_or(' ')
                } else {
                    c.pick(&['\u{7F}', '\u{80}', '~'])
                }
            }
            _ => c.pick(&['0', '1', '9', 'e', 'E', '-', '+', '_', 'a', 'Z']),
        };
        s.push(ch);
    }
    s
}

/// Strings over the lexical stress alphabet interleaved with lexeme attempts.
pub fn lex_soup(c: &mut Choices, max_items: usize) -> String {
    let n = c.range(0, max_items);
    let mut s = String::new();
    for _ in 0..n {
        match c.weighted(&[50, 12, 12, 8, 8, 5, 5]) {
            0 => s.push_str(c.pick(LEX_ALPHABET)),
            1 => s.push_str(c.pick(NUMBERS)),
            2 => s.push_str(c.pick(STRINGS)),
            3 => s.push_str(&number_attempt(c)),
            4 => s.push_str(&string_attempt(c)),
            5 => s.push_str(c.pick(KEYWORDS)),
            _ => s.push_str(&unicode(c, 3, false)),
        }
    }
    s
}

/// Number built from optional parts, so every prefix/suffix combination occurs.
pub fn number_attempt(c: &mut Choices) -> String {
    let mut s = String::new();
    if c.bool(80) {
        s.push('-');
    }
    match c.choose(4) {
        0 => s.push('0'),
        1 => s.push_str(&c.range(1, 999).to_string()),
        2 => s.push_str("00"),
        _ => {}
    }
    if c.bool(110) {
        s.push('.');
        match c.choose(3) {
            0 => s.push_str(&c.range(0, 99).to_string()),
            1 => s.push_str("050"),
            _ => {}
        }
    }
    if c.bool(110) {
        s.push(c.pick(&['e', 'E']));
        match c.choose(3) {
            0 => {}
            1 => s.push('+'),
            _ => s.push('-'),
        }
        if c.bool(200) {
            s.push_str(&c.range(0, 400).to_string());
        }
    }
    match c.weighted(&[60, 10, 10, 10, 10]) {
        0 => {}
        1 => s.push('.'),
        2 => s.push('a'),
        3 => s.push('_'),
        _ => s.push('1'),
    }
    s
}

/// String literal attempt: quoted or block, with valid and invalid pieces.
pub fn string_attempt(c: &mut Choices) -> String {
    let block = c.bool(90);
    let mut s = String::from(if block { "\"\"\"" } else { "\"" });
    let n = c.small(8);
    for _ in 0..n {
        match c.weighted(&[30, 10, 10, 8, 6, 6, 6, 6, 6, 4]) {
            0 => s.push_str(c.pick(&["a", " ", "x y", "é", "中", "🚀", "#", ",", "{", "\t"])),
            1 => s.push_str(c.pick(&["\\n", "\\\"", "\\\\", "\\/", "\\b", "\\f", "\\r", "\\t"])),
            2 => s.push_str(&format!("\\u{:04x}", c.choose(0x3000))),
            3 => s.push_str(c.pick(&["\\uD800", "\\uDFFF", "\\ud83d\\ude00", "\\u12", "\\u{41}", "\\uZZZZ", "\\u"])),
            4 => s.push_str(c.pick(&["\\q", "\\ ", "\\a", "\\0", "\\é"])),
            5 => s.push_str(c.pick(&["\n", "\r", "\r\n"])),
            6 => s.push_str(c.pick(&["\"", "\"\"", "\\\"\"\"", "\\\"\"", "\\\\\"\"\""])),
            7 => s.push('\\'),
            8 => s.push_str(c.pick(&["\u{FEFF}", "\u{2028}", "\u{7f}"])),
            _ => s.push_str(&unicode(c, 2, false)),
        }
    }
    match c.weighted(&[70, 10, 10, 10]) {
        0 => s.push_str(if block { "\"\"\"" } else { "\"" }),
        1 => {}
        2 => s.push_str(if block { "\"\"" } else { "\"\"" }),
        _ => s.push_str(if block { "\"\"\"\"" } else { "\\\"" }),
    }
    s
}

/// Token soup over the GraphQL alphabet, separated by optional ignored tokens.
pub fn token_soup(c: &mut Choices, max_tokens: usize) -> String {
    let n = c.range(0, max_tokens);
    let mut s = String::new();
    for _ in 0..n {
        match c.weighted(&[30, 30, 8, 8, 4, 4, 3]) {
            0 => s.push_str(c.pick(PUNCT)),
            1 => s.push_str(c.pick(KEYWORDS)),
            2 => s.push_str(c.pick(NUMBERS)),
            3 => s.push_str(c.pick(STRINGS)),
            4 => s.push_str(c.pick(&["#c\n", "# é\r\n", ",", "#"])),
            5 => s.push_str(&unicode(c, 2, false)),
            _ => s.push_str(c.pick(&["$a", "@d", "...F", "a:b", "[T!]!", "{a}", "(a:1)"])),
        }
        match c.weighted(&[50, 35, 10, 5]) {
            0 => s.push(' '),
            1 => {}
            2 => s.push('\n'),
            _ => s.push(','),
        }
    }
    s
}

/// Deep-nesting templates. Returns (text, nominal depth).
pub fn nesting(c: &mut Choices, max_depth: usize) -> (String, usize) {
    let n = c.range(1, max_depth.min(65535));
    let kind = c.choose(12);
    let close = c.choose(3); // 0 = balanced, 1 = unclosed, 2 = partially closed
    let (open, shut, pre, mid, post): (&str, &str, &str, &str, &str) = match kind {
        0 => ("[", "]", "", "", ""),
        1 => ("{", "}", "", "", ""),
        2 => ("{a", "}", "", "", ""),
        3 => ("{a ", "}", "query Q ", "", ""),
        4 => ("[", "]", "{ a(x: ", "1", ") }"),
        5 => ("{f:", "}", "{ a(x: ", "1", ") }"),
        6 => ("[", "]", "type A { f: ", "Int", " }"),
        7 => ("[", "]", "query($v: ", "Int", ") { a }"),
        8 => ("... on T {", "}", "{ ", "a", " }"),
        9 => ("[{f:", "}]", "{ a(x: ", "1", ") }"),
        10 => ("...{", "}", "fragment F on T { ", "a", " }"),
        _ => ("(", ")", "{ a", "x:1", " }"),
    };
    let mut s = String::from(pre);
    for _ in 0..n {
        s.push_str(open);
    }
    s.push_str(mid);
    let closes = match close {
        0 => n,
        1 => 0,
        _ => c.range(0, n),
    };
    for _ in 0..closes {
        s.push_str(shut);
    }
    s.push_str(post);
    (s, n)
}

/// Byte/char-level mutations of a text; result is valid UTF-8 (char based).
pub fn mutate_text(c: &mut Choices, text: &str, max_mut: usize) -> String {
    let mut chars: Vec<char> = text.chars().collect();
    let n = c.range(1, max_mut.max(1));
    for _ in 0..n {
        if chars.is_empty() {
            chars.push('{');
            continue;
        }
        let i = c.choose(chars.len().min(65535));
        match c.choose(6) {
            0 => {
                chars.remove(i);
            }
            1 => {
                let ch = chars[i];
                chars.insert(i, ch);
            }
            2 => {
                let s = c.pick(LEX_ALPHABET);
                for (k, ch) in s.chars().enumerate() {
                    chars.insert(i + k, ch);
                }
            }
            3 => {
                let j = c.choose(chars.len().min(65535));
                chars.swap(i, j);
            }
            4 => {
                chars.truncate(i);
            }
            _ => {
                chars[i] = c.pick(LEX_ALPHABET).chars().next().unwrap();
            }
        }
    }
    chars.into_iter().collect()
}

/// Files from the repository's own test corpora, read once per process at run time.
pub fn corpus_files() -> &'static Vec<String> {
    use std::sync::OnceLock;
    static FILES: OnceLock<Vec<String>> = OnceLock::new();
    FILES.get_or_init(|| {
        let mut out = vec![];
        for dir in [
            "/repo/crates/apollo-parser/test_data/lexer/ok",
            "/repo/crates/apollo-parser/test_data/lexer/err",
            "/repo/crates/apollo-parser/test_data/parser/ok",
            "/repo/crates/apollo-parser/test_data/parser/err",
            "/repo/crates/apollo-compiler/test_data/ok",
            "/repo/crates/apollo-compiler/test_data/diagnostics",
        ] {
            let Ok(rd) = std::fs::read_dir(dir) else { continue };
            let mut paths: Vec<_> = rd.filter_map(|e| e.ok()).map(|e| e.path()).collect();
            paths.sort();
            for p in paths {
                if p.extension().map(|e| e == "graphql").unwrap_or(false) {
                    if let Ok(s) = std::fs::read_to_string(&p) {
                        if s.len() < 20_000 {
                            out.push(s);
                        }
                    }
                }
            }
        }
        out
    })
}
