//! Rule-targeted mutators for type-system documents (C14). Each mutator takes a document that
//! is valid by construction (`gen::schema::schema`, possibly `split_extensions`) and breaks one
//! chosen rule of DESIGN Appendix A (one mutator per rule and sub-case), or applies a "neutral"
//! change that keeps the document valid. The verdict of a mutated document is NEVER derived from
//! the mutator that ran: the check prints the document and asks `refmodel::typesys`.
//!
//! Mutators work on a small fixture (`FIXTURE`, names prefixed `M`/`m`) that is appended to the
//! document when missing, and on the generated definitions themselves.

use crate::choices::Choices;
use crate::refmodel::ast::*;
use crate::refmodel::parser::parse_document;

const ALL_TS: &str = "SCHEMA | SCALAR | OBJECT | FIELD_DEFINITION | ARGUMENT_DEFINITION | INTERFACE | UNION | ENUM | ENUM_VALUE | INPUT_OBJECT | INPUT_FIELD_DEFINITION";

fn fixture_text() -> String {
    format!(
        r#"
interface MBase {{ mb(p: Int, q: [String!]): MBase mv: [Int!]! }}
interface MMid implements MBase {{ mb(p: Int, q: [String!], r: Int! = 1): MBase mv: [Int!]! mm: MUni }}
type MObj implements MMid & MBase {{ mb(p: Int, q: [String!], r: Int! = 1): MObj mv: [Int!]! mm: MObj mo(a: MIn, e: MEnum = MA): MScalar }}
type MOther {{ x: Int }}
union MUni = MObj | MOther
enum MEnum {{ MA MB }}
scalar MScalar
input MIn {{ x: Int! y: String z: [MIn!] w: Int! = 1 e: MEnum }}
directive @mAny(r: Int! = 0) repeatable on {ALL_TS}
directive @mOnce on {ALL_TS}
directive @mReq(r: Int!, o: String) repeatable on {ALL_TS}
directive @mTyped(i: Int, f: Float, s: String, b: Boolean, id: ID, e: MEnum, c: MScalar, o: MIn, l: [Int!], ll: [[Int]], nn: [Int]! = []) repeatable on {ALL_TS}
directive @mExec on FIELD | QUERY
"#
    )
}

pub fn fixture() -> &'static Document {
    static D: std::sync::OnceLock<Document> = std::sync::OnceLock::new();
    D.get_or_init(|| parse_document(&fixture_text()).expect("fixture parses"))
}

/// Append the fixture definitions (valid, self-contained) unless already present.
pub fn ensure_fixture(d: &mut Document) {
    if d.defs.iter().any(|x| matches!(x, Definition::Type(t) if t.name == "MObj")) {
        return;
    }
    d.defs.extend(fixture().defs.iter().cloned());
}

// ------------------------------------------------------------------------------------------------
// navigation helpers

fn dir(name: &str, args: Vec<(&str, Value)>) -> Directive {
    Directive { name: name.to_string(), args: args.into_iter().map(|(k, v)| (k.to_string(), v)).collect() }
}

fn ivd(name: &str, ty: Type) -> InputValueDef {
    InputValueDef { description: None, name: name.to_string(), ty, default: None, directives: vec![] }
}

fn fdef(name: &str, ty: Type) -> FieldDef {
    FieldDef { description: None, name: name.to_string(), args: vec![], ty, directives: vec![] }
}

/// indices of type definitions / extensions satisfying `p`
fn type_idx(d: &Document, p: impl Fn(&TypeDef) -> bool) -> Vec<usize> {
    d.defs.iter().enumerate().filter_map(|(i, x)| match x {
        Definition::Type(t) if p(t) => Some(i),
        _ => None,
    }).collect()
}

fn ty_at(d: &Document, i: usize) -> &TypeDef {
    match &d.defs[i] {
        Definition::Type(t) => t,
        _ => panic!("not a type"),
    }
}

fn ty_at_mut(d: &mut Document, i: usize) -> &mut TypeDef {
    match &mut d.defs[i] {
        Definition::Type(t) => t,
        _ => panic!("not a type"),
    }
}

fn at<T: Clone>(c: &mut Choices, v: &[T]) -> Option<T> {
    if v.is_empty() {
        None
    } else {
        Some(v[c.choose(v.len())].clone())
    }
}

fn pick_idx(c: &mut Choices, v: &[usize]) -> Option<usize> {
    if v.is_empty() {
        None
    } else {
        Some(v[c.choose(v.len())])
    }
}

fn def_kind(d: &Document, name: &str) -> Option<TypeKind> {
    d.defs.iter().find_map(|x| match x {
        Definition::Type(t) if !t.is_ext && t.name == name => Some(t.kind),
        _ => None,
    })
}

fn names_of_kind(d: &Document, kind: TypeKind) -> Vec<String> {
    d.defs.iter().filter_map(|x| match x {
        Definition::Type(t) if !t.is_ext && t.kind == kind => Some(t.name.clone()),
        _ => None,
    }).collect()
}

/// all (definition index, field index) of fields of the type `name` (definition + extensions)
fn fields_of(d: &Document, name: &str) -> Vec<(usize, usize)> {
    let mut out = vec![];
    for (i, x) in d.defs.iter().enumerate() {
        if let Definition::Type(t) = x {
            if t.name == name && matches!(t.kind, TypeKind::Object | TypeKind::Interface) {
                for fi in 0..t.fields.len() {
                    out.push((i, fi));
                }
            }
        }
    }
    out
}

fn find_field(d: &Document, ty: &str, field: &str) -> Option<(usize, usize)> {
    fields_of(d, ty).into_iter().find(|&(i, fi)| ty_at(d, i).fields[fi].name == field)
}

fn implements_of(d: &Document, name: &str) -> Vec<String> {
    let mut out = vec![];
    for x in &d.defs {
        if let Definition::Type(t) = x {
            if t.name == name && matches!(t.kind, TypeKind::Object | TypeKind::Interface) {
                out.extend(t.implements.iter().cloned());
            }
        }
    }
    out
}

/// (implementer name, interface name) pairs declared in the document
fn impl_pairs(d: &Document) -> Vec<(String, String)> {
    let mut out = vec![];
    for x in &d.defs {
        if let Definition::Type(t) = x {
            if matches!(t.kind, TypeKind::Object | TypeKind::Interface) {
                for i in &t.implements {
                    if def_kind(d, i) == Some(TypeKind::Interface) && *i != t.name {
                        out.push((t.name.clone(), i.clone()));
                    }
                }
            }
        }
    }
    out
}

/// (implementer, interface, field name) triples where both sides declare the field
fn impl_fields(d: &Document, need_args: bool) -> Vec<(String, String, String)> {
    let mut out = vec![];
    for (t, i) in impl_pairs(d) {
        for (di, fi) in fields_of(d, &i) {
            let f = &ty_at(d, di).fields[fi];
            if need_args && f.args.is_empty() {
                continue;
            }
            if find_field(d, &t, &f.name).is_some() {
                out.push((t.clone(), i.clone(), f.name.clone()));
            }
        }
    }
    out
}

fn schema_def_idx(d: &Document) -> Option<usize> {
    d.defs.iter().position(|x| matches!(x, Definition::Schema(s) if !s.is_ext))
}

fn schema_at_mut(d: &mut Document, i: usize) -> &mut SchemaDef {
    match &mut d.defs[i] {
        Definition::Schema(s) => s,
        _ => panic!("not a schema definition"),
    }
}

/// Make the schema definition explicit (validity preserving when the implicit one exists).
fn make_explicit(d: &mut Document) -> usize {
    if let Some(i) = schema_def_idx(d) {
        return i;
    }
    let mut roots = vec![];
    for op in OpType::ALL {
        if def_kind(d, op.default_root()) == Some(TypeKind::Object) {
            roots.push((op, op.default_root().to_string()));
        }
    }
    // schema extensions of the implicit schema would now extend the explicit one: fine
    d.defs.push(Definition::Schema(SchemaDef { is_ext: false, description: None, directives: vec![], roots }));
    d.defs.len() - 1
}

fn insert_somewhere(c: &mut Choices, d: &mut Document, def: Definition) {
    let i = c.choose(d.defs.len() + 1);
    d.defs.insert(i, def);
}

// ------------------------------------------------------------------------------------------------
// directive application sites

#[derive(Clone, Copy, Debug)]
enum Site {
    Schema(usize),
    Type(usize),
    Field(usize, usize),
    Arg(usize, usize, usize),
    EnumValue(usize, usize),
    InputField(usize, usize),
    DirArg(usize, usize),
}

fn sites(d: &Document) -> Vec<Site> {
    let mut out = vec![];
    for (i, x) in d.defs.iter().enumerate() {
        match x {
            Definition::Schema(_) => out.push(Site::Schema(i)),
            // types used by the fixture directives' arguments carry no applications, so that the
            // fixture directives never apply themselves transitively
            Definition::Type(t) if matches!(t.name.as_str(), "MIn" | "MEnum" | "MScalar") => {}
            Definition::Type(t) => {
                out.push(Site::Type(i));
                for (fi, f) in t.fields.iter().enumerate() {
                    out.push(Site::Field(i, fi));
                    for ai in 0..f.args.len() {
                        out.push(Site::Arg(i, fi, ai));
                    }
                }
                for vi in 0..t.values.len() {
                    out.push(Site::EnumValue(i, vi));
                }
                for ii in 0..t.input_fields.len() {
                    out.push(Site::InputField(i, ii));
                }
            }
            Definition::Directive(dd) => {
                // only the generated directives and never the fixture's (keeps the fixture
                // directives free of applications, so no self-reference can arise through them)
                if !dd.name.starts_with('m') {
                    for ai in 0..dd.args.len() {
                        out.push(Site::DirArg(i, ai));
                    }
                }
            }
            _ => {}
        }
    }
    out
}

fn site_location(d: &Document, s: Site) -> &'static str {
    match s {
        Site::Schema(_) => "SCHEMA",
        Site::Type(i) => match ty_at(d, i).kind {
            TypeKind::Scalar => "SCALAR",
            TypeKind::Object => "OBJECT",
            TypeKind::Interface => "INTERFACE",
            TypeKind::Union => "UNION",
            TypeKind::Enum => "ENUM",
            TypeKind::InputObject => "INPUT_OBJECT",
        },
        Site::Field(..) => "FIELD_DEFINITION",
        Site::Arg(..) | Site::DirArg(..) => "ARGUMENT_DEFINITION",
        Site::EnumValue(..) => "ENUM_VALUE",
        Site::InputField(..) => "INPUT_FIELD_DEFINITION",
    }
}

fn site_dirs(d: &mut Document, s: Site) -> &mut Vec<Directive> {
    match s {
        Site::Schema(i) => &mut schema_at_mut(d, i).directives,
        Site::Type(i) => &mut ty_at_mut(d, i).directives,
        Site::Field(i, f) => &mut ty_at_mut(d, i).fields[f].directives,
        Site::Arg(i, f, a) => &mut ty_at_mut(d, i).fields[f].args[a].directives,
        Site::EnumValue(i, v) => &mut ty_at_mut(d, i).values[v].directives,
        Site::InputField(i, f) => &mut ty_at_mut(d, i).input_fields[f].directives,
        Site::DirArg(i, a) => match &mut d.defs[i] {
            Definition::Directive(dd) => &mut dd.args[a].directives,
            _ => panic!("not a directive definition"),
        },
    }
}

fn random_site(c: &mut Choices, d: &Document) -> Site {
    let s = sites(d);
    // the fixture guarantees at least one site
    s[c.choose(s.len())]
}

/// Apply `dr` at a random site, at a random position in the site's directive list.
fn apply_somewhere(c: &mut Choices, d: &mut Document, dr: Directive) -> Site {
    let s = random_site(c, d);
    let list = site_dirs(d, s);
    let at = c.choose(list.len() + 1);
    list.insert(at, dr);
    s
}

// ------------------------------------------------------------------------------------------------
// mutators: root operation types

type M = fn(&mut Choices, &mut Document) -> &'static str;

fn m_root_missing_query(c: &mut Choices, d: &mut Document) -> &'static str {
    let i = make_explicit(d);
    let s = schema_at_mut(d, i);
    if s.roots.len() > 1 && c.coin() {
        s.roots.retain(|(op, _)| *op != OpType::Query);
        "root.missingQuery.removed"
    } else {
        // the query entry becomes the only (mutation / subscription) entry
        let target = s.roots.iter().find(|(op, _)| *op == OpType::Query).map(|(_, n)| n.clone()).unwrap_or_else(|| "MObj".into());
        let op = if c.coin() { OpType::Mutation } else { OpType::Subscription };
        s.roots = vec![(op, target)];
        "root.missingQuery.onlyOther"
    }
}

fn m_root_duplicate(c: &mut Choices, d: &mut Document) -> &'static str {
    let i = make_explicit(d);
    let s = schema_at_mut(d, i);
    let q = s.roots.iter().find(|(op, _)| *op == OpType::Query).map(|(_, n)| n.clone()).unwrap_or_else(|| "MObj".into());
    let op = if c.coin() { OpType::Mutation } else { OpType::Subscription };
    match s.roots.iter_mut().find(|(o, _)| *o == op) {
        Some(e) => e.1 = q,
        None => s.roots.push((op, q)),
    }
    "root.sameTypeTwice"
}

fn m_root_non_object(c: &mut Choices, d: &mut Document) -> &'static str {
    let i = make_explicit(d);
    let (target, label) = match c.choose(6) {
        0 => ("MBase", "root.nonObject.interface"),
        1 => ("MUni", "root.nonObject.union"),
        2 => ("MEnum", "root.nonObject.enum"),
        3 => ("MIn", "root.nonObject.input"),
        4 => ("MScalar", "root.nonObject.scalar"),
        _ => ("String", "root.nonObject.builtinScalar"),
    };
    let s = schema_at_mut(d, i);
    let op = OpType::ALL[c.choose(3)];
    match s.roots.iter_mut().find(|(o, _)| *o == op) {
        Some(e) => e.1 = target.to_string(),
        None => s.roots.push((op, target.to_string())),
    }
    label
}

fn m_root_unknown(c: &mut Choices, d: &mut Document) -> &'static str {
    let i = make_explicit(d);
    let s = schema_at_mut(d, i);
    let op = OpType::ALL[c.choose(3)];
    match s.roots.iter_mut().find(|(o, _)| *o == op) {
        Some(e) => e.1 = "MMissing".to_string(),
        None => s.roots.push((op, "MMissing".to_string())),
    }
    "root.unknownType"
}

fn m_root_dup_op_type(c: &mut Choices, d: &mut Document) -> &'static str {
    let i = make_explicit(d);
    let s = schema_at_mut(d, i);
    let k = c.choose(s.roots.len().max(1));
    let entry = s.roots.get(k).cloned().unwrap_or((OpType::Query, "MObj".into()));
    if c.coin() {
        let at = c.choose(s.roots.len() + 1);
        s.roots.insert(at, entry);
        "root.dupOperationType.sameDefinition"
    } else {
        // a distinct object type, so that only the operation type is duplicated
        insert_somewhere(c, d, Definition::Schema(SchemaDef { is_ext: true, description: None, directives: vec![], roots: vec![(entry.0, "MOther".into())] }));
        "root.dupOperationType.viaExtension"
    }
}

fn m_two_schemas(c: &mut Choices, d: &mut Document) -> &'static str {
    let i = make_explicit(d);
    let used: Vec<OpType> = schema_at_mut(d, i).roots.iter().map(|(o, _)| *o).collect();
    let free: Vec<OpType> = OpType::ALL.iter().cloned().filter(|o| !used.contains(o)).collect();
    let op = if free.is_empty() { OpType::Query } else { free[c.choose(free.len())] };
    insert_somewhere(c, d, Definition::Schema(SchemaDef { is_ext: false, description: None, directives: vec![], roots: vec![(op, "MOther".into())] }));
    "schema.twoDefinitions"
}

// ------------------------------------------------------------------------------------------------
// mutators: empty types

fn m_empty(c: &mut Choices, d: &mut Document) -> &'static str {
    let (kind, label) = match c.choose(5) {
        0 => (TypeKind::Object, "empty.object"),
        1 => (TypeKind::Interface, "empty.interface"),
        2 => (TypeKind::Union, "empty.union"),
        3 => (TypeKind::Enum, "empty.enum"),
        _ => (TypeKind::InputObject, "empty.input"),
    };
    let mut t = TypeDef::new(kind, "MEmpty");
    if c.coin() {
        t.directives.push(dir("mAny", vec![]));
    }
    insert_somewhere(c, d, Definition::Type(t));
    if c.coin() {
        // "emptiness" is judged over the definition and its extensions: a directive-only extension
        let mut e = TypeDef::new(kind, "MEmpty");
        e.is_ext = true;
        e.directives.push(dir("mAny", vec![]));
        insert_somewhere(c, d, Definition::Type(e));
    }
    label
}

/// empty an EXISTING type (and its extensions) instead of adding a new one
fn m_empty_existing(c: &mut Choices, d: &mut Document) -> &'static str {
    // unions / enums / inputs of the fixture or the generator; objects and interfaces would also
    // break implementation rules, which other mutators cover
    let cands = type_idx(d, |t| !t.is_ext && matches!(t.kind, TypeKind::Enum | TypeKind::Union) && t.name != "MEnum" && t.name != "MUni");
    let Some(i) = pick_idx(c, &cands) else {
        return m_empty(c, d);
    };
    let name = ty_at(d, i).name.clone();
    let kind = ty_at(d, i).kind;
    // enum values may be used in default values / directive arguments: defaults are not validated,
    // but a directive argument would become ill-typed; restrict to enums unused in applications
    if kind == TypeKind::Enum {
        return m_empty(c, d);
    }
    for x in d.defs.iter_mut() {
        if let Definition::Type(t) = x {
            if t.name == name {
                t.members.clear();
                if t.is_ext && t.directives.is_empty() {
                    t.directives.push(dir("mAny", vec![]));
                }
            }
        }
    }
    "empty.union.existing"
}

// ------------------------------------------------------------------------------------------------
// mutators: wrong kind / unknown type

fn wrap_some(c: &mut Choices, named: &str) -> Type {
    let b = Type::named(named);
    match c.choose(4) {
        0 => b,
        1 => b.non_null(),
        2 => b.list(),
        _ => b.non_null().list().non_null(),
    }
}

/// a random field of a random OBJECT type that does not take part in an interface contract
fn free_object_field(c: &mut Choices, d: &Document) -> Option<(usize, usize)> {
    let mut cands = vec![];
    for (i, x) in d.defs.iter().enumerate() {
        if let Definition::Type(t) = x {
            if t.kind == TypeKind::Object && implements_of(d, &t.name).is_empty() {
                for fi in 0..t.fields.len() {
                    cands.push((i, fi));
                }
            }
        }
    }
    // MOther { x } qualifies unless an earlier mutation changed it
    at(c, &cands)
}

fn m_input_in_output(c: &mut Choices, d: &mut Document) -> &'static str {
    let inputs = names_of_kind(d, TypeKind::InputObject);
    let Some(n) = at(c, &inputs) else {
        return "neutral.noop";
    };
    let ty = wrap_some(c, &n);
    if c.coin() {
        let Some((i, fi)) = free_object_field(c, d) else {
                return "neutral.noop";
            };
        ty_at_mut(d, i).fields[fi].ty = ty;
        "kind.inputObjectAsFieldType.object"
    } else {
        // new field on an interface nobody implements
        let mut t = TypeDef::new(TypeKind::Interface, "MLonely");
        t.fields.push(fdef("a", ty));
        insert_somewhere(c, d, Definition::Type(t));
        "kind.inputObjectAsFieldType.interface"
    }
}

fn m_output_in_input(c: &mut Choices, d: &mut Document) -> &'static str {
    let target = match c.choose(3) {
        0 => "MObj",
        1 => "MBase",
        _ => "MUni",
    };
    let ty = wrap_some(c, target);
    match c.choose(3) {
        0 => {
            let Some((i, fi)) = free_object_field(c, d) else {
                return "neutral.noop";
            };
            ty_at_mut(d, i).fields[fi].args.push(ivd("mbad", ty.nullable().clone()));
            "kind.outputTypeAsArgumentType"
        }
        1 => {
            let cands = type_idx(d, |t| t.kind == TypeKind::InputObject);
            let Some(i) = at(c, &cands) else {
        return "neutral.noop";
    };
            ty_at_mut(d, i).input_fields.push(ivd("mbad", ty.nullable().clone()));
            "kind.outputTypeAsInputFieldType"
        }
        _ => {
            d.defs.push(Definition::Directive(DirectiveDef { description: None, name: "mBadArg".into(), args: vec![ivd("a", ty.nullable().clone())], repeatable: false, locations: vec!["OBJECT".into()] }));
            "kind.outputTypeAsDirectiveArgumentType"
        }
    }
}

fn m_unknown_type(c: &mut Choices, d: &mut Document) -> &'static str {
    let ty = wrap_some(c, "MMissing");
    match c.choose(6) {
        0 => {
            let Some((i, fi)) = free_object_field(c, d) else {
                return "neutral.noop";
            };
            ty_at_mut(d, i).fields[fi].ty = ty;
            "unknownType.field"
        }
        1 => {
            let Some((i, fi)) = free_object_field(c, d) else {
                return "neutral.noop";
            };
            ty_at_mut(d, i).fields[fi].args.push(ivd("mbad", ty.nullable().clone()));
            "unknownType.argument"
        }
        2 => {
            let cands = type_idx(d, |t| t.kind == TypeKind::InputObject);
            let Some(i) = at(c, &cands) else {
        return "neutral.noop";
    };
            ty_at_mut(d, i).input_fields.push(ivd("mbad", ty.nullable().clone()));
            "unknownType.inputField"
        }
        3 => {
            let cands = type_idx(d, |t| t.kind == TypeKind::Union && !t.members.is_empty());
            let Some(i) = at(c, &cands) else {
        return "neutral.noop";
    };
            ty_at_mut(d, i).members.push("MMissing".into());
            "unknownType.unionMember"
        }
        4 => {
            let cands = type_idx(d, |t| matches!(t.kind, TypeKind::Object | TypeKind::Interface));
            let Some(i) = at(c, &cands) else {
        return "neutral.noop";
    };
            ty_at_mut(d, i).implements.push("MMissing".into());
            "unknownType.implements"
        }
        _ => {
            d.defs.push(Definition::Directive(DirectiveDef { description: None, name: "mBadArg".into(), args: vec![ivd("a", ty.nullable().clone())], repeatable: false, locations: vec!["OBJECT".into()] }));
            "unknownType.directiveArgument"
        }
    }
}

fn m_union_non_object(c: &mut Choices, d: &mut Document) -> &'static str {
    let cands = type_idx(d, |t| t.kind == TypeKind::Union && !t.members.is_empty());
    let Some(i) = at(c, &cands) else {
        return "neutral.noop";
    };
    let own = ty_at(d, i).name.clone();
    let (m, label) = match c.choose(7) {
        0 => ("MBase".to_string(), "union.member.interface"),
        1 => ("MScalar".to_string(), "union.member.scalar"),
        2 => ("MEnum".to_string(), "union.member.enum"),
        3 => ("MIn".to_string(), "union.member.input"),
        4 => (own, "union.member.itself"),
        5 => ("Int".to_string(), "union.member.builtinScalar"),
        _ => {
            // another union
            let others: Vec<String> = names_of_kind(d, TypeKind::Union).into_iter().filter(|n| *n != own).collect();
            if others.is_empty() {
                ("MBase".to_string(), "union.member.interface")
            } else {
                (others[c.choose(others.len())].clone(), "union.member.otherUnion")
            }
        }
    };
    let at = c.choose(ty_at(d, i).members.len() + 1);
    ty_at_mut(d, i).members.insert(at, m);
    label
}

// ------------------------------------------------------------------------------------------------
// mutators: duplicates

/// an extension of type `i`'s name carrying `f`
fn ext_of(d: &Document, i: usize) -> TypeDef {
    let t = ty_at(d, i);
    let mut e = TypeDef::new(t.kind, &t.name);
    e.is_ext = true;
    e
}

fn m_dup_field(c: &mut Choices, d: &mut Document) -> &'static str {
    let cands = type_idx(d, |t| matches!(t.kind, TypeKind::Object | TypeKind::Interface) && !t.fields.is_empty());
    let Some(i) = at(c, &cands) else {
        return "neutral.noop";
    };
    let k = c.choose(ty_at(d, i).fields.len());
    let mut f = ty_at(d, i).fields[k].clone();
    if c.coin() {
        // same name, otherwise unrelated: still a duplicate
        f = fdef(&f.name, f.ty.clone());
    }
    if c.coin() {
        let at = c.choose(ty_at(d, i).fields.len() + 1);
        ty_at_mut(d, i).fields.insert(at, f);
        "dup.field.sameDefinition"
    } else {
        let mut e = ext_of(d, i);
        e.fields.push(f);
        insert_somewhere(c, d, Definition::Type(e));
        "dup.field.viaExtension"
    }
}

fn m_dup_arg(c: &mut Choices, d: &mut Document) -> &'static str {
    if c.bool(60) {
        // directive definition
        let cands: Vec<usize> = d.defs.iter().enumerate().filter_map(|(i, x)| matches!(x, Definition::Directive(dd) if !dd.args.is_empty() && dd.name != "mTyped").then_some(i)).collect();
        let Some(i) = at(c, &cands) else {
        return "neutral.noop";
    };
        if let Definition::Directive(dd) = &mut d.defs[i] {
            let a = dd.args[c.choose(dd.args.len())].clone();
            dd.args.push(a);
        }
        return "dup.argumentDefinition.directive";
    }
    let mut cands = vec![];
    for (i, x) in d.defs.iter().enumerate() {
        if let Definition::Type(t) = x {
            for (fi, f) in t.fields.iter().enumerate() {
                if !f.args.is_empty() {
                    cands.push((i, fi));
                }
            }
        }
    }
    let Some((i, fi)) = at(c, &cands) else {
        return "neutral.noop";
    };
    let f = &mut ty_at_mut(d, i).fields[fi];
    let a = f.args[c.choose(f.args.len())].clone();
    let at = c.choose(f.args.len() + 1);
    f.args.insert(at, a);
    "dup.argumentDefinition.field"
}

fn m_dup_enum_value(c: &mut Choices, d: &mut Document) -> &'static str {
    let cands = type_idx(d, |t| t.kind == TypeKind::Enum && !t.values.is_empty());
    let Some(i) = at(c, &cands) else {
        return "neutral.noop";
    };
    let mut v = ty_at(d, i).values[c.choose(ty_at(d, i).values.len())].clone();
    v.directives.clear();
    if c.coin() {
        ty_at_mut(d, i).values.push(v);
        "dup.enumValue.sameDefinition"
    } else {
        let mut e = ext_of(d, i);
        e.values.push(v);
        insert_somewhere(c, d, Definition::Type(e));
        "dup.enumValue.viaExtension"
    }
}

fn m_dup_input_field(c: &mut Choices, d: &mut Document) -> &'static str {
    let cands = type_idx(d, |t| t.kind == TypeKind::InputObject && !t.input_fields.is_empty());
    let Some(i) = at(c, &cands) else {
        return "neutral.noop";
    };
    let mut f = ty_at(d, i).input_fields[c.choose(ty_at(d, i).input_fields.len())].clone();
    f.directives.clear();
    if c.coin() {
        f.ty = Type::named("Int");
        f.default = None;
    }
    if c.coin() {
        ty_at_mut(d, i).input_fields.push(f);
        "dup.inputField.sameDefinition"
    } else {
        let mut e = ext_of(d, i);
        e.input_fields.push(f);
        insert_somewhere(c, d, Definition::Type(e));
        "dup.inputField.viaExtension"
    }
}

fn m_dup_member(c: &mut Choices, d: &mut Document) -> &'static str {
    let cands = type_idx(d, |t| t.kind == TypeKind::Union && !t.members.is_empty());
    let Some(i) = at(c, &cands) else {
        return "neutral.noop";
    };
    let m = ty_at(d, i).members[c.choose(ty_at(d, i).members.len())].clone();
    if c.coin() {
        ty_at_mut(d, i).members.push(m);
        "dup.unionMember.sameDefinition"
    } else {
        let mut e = ext_of(d, i);
        e.members.push(m);
        insert_somewhere(c, d, Definition::Type(e));
        "dup.unionMember.viaExtension"
    }
}

fn m_dup_implements(c: &mut Choices, d: &mut Document) -> &'static str {
    let cands = type_idx(d, |t| matches!(t.kind, TypeKind::Object | TypeKind::Interface) && !t.implements.is_empty());
    let Some(i) = at(c, &cands) else {
        return "neutral.noop";
    };
    let m = ty_at(d, i).implements[c.choose(ty_at(d, i).implements.len())].clone();
    if c.coin() {
        ty_at_mut(d, i).implements.push(m);
        "dup.implements.sameDefinition"
    } else {
        let mut e = ext_of(d, i);
        e.implements.push(m);
        insert_somewhere(c, d, Definition::Type(e));
        "dup.implements.viaExtension"
    }
}

fn m_dup_type(c: &mut Choices, d: &mut Document) -> &'static str {
    let cands = type_idx(d, |t| !t.is_ext);
    let Some(i) = at(c, &cands) else {
        return "neutral.noop";
    };
    if c.coin() {
        let t = ty_at(d, i).clone();
        insert_somewhere(c, d, Definition::Type(t));
        "dup.typeDefinition.identical"
    } else {
        let name = ty_at(d, i).name.clone();
        let t = match c.choose(3) {
            0 => TypeDef::new(TypeKind::Scalar, &name),
            1 => {
                let mut t = TypeDef::new(TypeKind::Enum, &name);
                t.values.push(EnumValueDef { description: None, name: "MA".into(), directives: vec![] });
                t
            }
            _ => {
                let mut t = TypeDef::new(TypeKind::Object, &name);
                t.fields.push(fdef("x", Type::named("Int")));
                t
            }
        };
        insert_somewhere(c, d, Definition::Type(t));
        "dup.typeDefinition.otherKind"
    }
}

fn m_dup_directive_def(c: &mut Choices, d: &mut Document) -> &'static str {
    let cands: Vec<usize> = d.defs.iter().enumerate().filter_map(|(i, x)| matches!(x, Definition::Directive(_)).then_some(i)).collect();
    let Some(i) = at(c, &cands) else {
        return "neutral.noop";
    };
    let dd = d.defs[i].clone();
    insert_somewhere(c, d, dd);
    "dup.directiveDefinition"
}

fn builtin_directive(c: &mut Choices) -> Definition {
    let defs: Vec<&Definition> = crate::refmodel::schema::builtin_document().defs.iter().filter(|x| matches!(x, Definition::Directive(_))).collect();
    defs[c.choose(defs.len())].clone()
}

/// neutral: one redefinition of a built-in directive (identical signature)
fn m_builtin_directive_once(c: &mut Choices, d: &mut Document) -> &'static str {
    let dd = builtin_directive(c);
    let name = match &dd {
        Definition::Directive(x) => x.name.clone(),
        _ => unreachable!(),
    };
    if d.defs.iter().any(|x| matches!(x, Definition::Directive(y) if y.name == name)) {
        return "neutral.noop";
    }
    insert_somewhere(c, d, dd);
    "neutral.builtinDirectiveRedefinedOnce"
}

fn m_builtin_directive_twice(c: &mut Choices, d: &mut Document) -> &'static str {
    let dd = builtin_directive(c);
    let name = match &dd {
        Definition::Directive(x) => x.name.clone(),
        _ => unreachable!(),
    };
    let have = d.defs.iter().filter(|x| matches!(x, Definition::Directive(y) if y.name == name)).count();
    for _ in have..2 {
        insert_somewhere(c, d, dd.clone());
    }
    "dup.builtinDirectiveRedefinedTwice"
}

// ------------------------------------------------------------------------------------------------
// mutators: interface implementation

fn pick_impl_field(c: &mut Choices, d: &Document, need_args: bool) -> Option<(String, String, String)> {
    // the fixture guarantees (MObj, MBase, mb) with arguments
    let cands = impl_fields(d, need_args);
    at(c, &cands)
}

fn m_impl_field_missing(c: &mut Choices, d: &mut Document) -> &'static str {
    let Some((t, _i, f)) = pick_impl_field(c, d, false) else {
        return "neutral.noop";
    };
    let (di, fi) = find_field(d, &t, &f).unwrap();
    let td = ty_at_mut(d, di);
    td.fields.remove(fi);
    if td.fields.is_empty() {
        // keep the definition / extension syntactically and otherwise valid
        td.fields.push(fdef("mfill", Type::named("Int")));
    }
    "impl.fieldMissing"
}

fn m_impl_field_type(c: &mut Choices, d: &mut Document) -> &'static str {
    let Some((t, i, f)) = pick_impl_field(c, d, false) else {
        return "neutral.noop";
    };
    let (idi, ifi) = find_field(d, &i, &f).unwrap();
    let ity = ty_at(d, idi).fields[ifi].ty.clone();
    let (di, fi) = find_field(d, &t, &f).unwrap();
    let cur = ty_at(d, di).fields[fi].ty.clone();
    let (new, label) = match c.choose(5) {
        0 if ity.is_non_null() => (ity.nullable().clone(), "impl.fieldType.nullableForNonNull"),
        1 => (cur.clone().nullable().clone().list(), "impl.fieldType.listAdded"),
        2 if ity.is_list() => (ity.item().unwrap().clone(), "impl.fieldType.listRemoved"),
        3 => {
            // inner non-null dropped inside a list, when the interface demands it
            match ity.nullable() {
                Type::List(item) if item.is_non_null() => (Type::List(Box::new(item.nullable().clone())), "impl.fieldType.itemNullableForNonNull"),
                _ => (rename_inner(&cur, if ity.inner_name() == "Int" { "String" } else { "Int" }), "impl.fieldType.unrelatedNamedType"),
            }
        }
        _ => (rename_inner(&cur, if ity.inner_name() == "Int" { "String" } else { "Int" }), "impl.fieldType.unrelatedNamedType"),
    };
    ty_at_mut(d, di).fields[fi].ty = new;
    label
}

fn rename_inner(t: &Type, name: &str) -> Type {
    match t {
        Type::Named(_) => Type::named(name),
        Type::List(i) => Type::List(Box::new(rename_inner(i, name))),
        Type::NonNull(i) => Type::NonNull(Box::new(rename_inner(i, name))),
    }
}

/// the interface is used where its implementer is demanded (contravariant = invalid)
fn m_impl_field_supertype(c: &mut Choices, d: &mut Document) -> &'static str {
    // fixture: MMid.mb returns MBase; make MBase.mb return MMid: MMid.mb: MBase is then a supertype
    let _ = c;
    let Some((di, fi)) = find_field(d, "MBase", "mb") else {
        return "neutral.noop";
    };
    ty_at_mut(d, di).fields[fi].ty = Type::named("MMid");
    "impl.fieldType.supertype"
}

fn m_impl_arg_missing(c: &mut Choices, d: &mut Document) -> &'static str {
    let Some((t, i, f)) = pick_impl_field(c, d, true) else {
        return "neutral.noop";
    };
    let (idi, ifi) = find_field(d, &i, &f).unwrap();
    let iargs: Vec<String> = ty_at(d, idi).fields[ifi].args.iter().map(|a| a.name.clone()).collect();
    let Some(name) = at(c, &iargs) else {
        return "neutral.noop";
    };
    let (di, fi) = find_field(d, &t, &f).unwrap();
    let args = &mut ty_at_mut(d, di).fields[fi].args;
    if c.coin() {
        args.retain(|a| a.name != name);
        "impl.argumentMissing.removed"
    } else {
        for a in args.iter_mut() {
            if a.name == name {
                a.name = "mrenamed".into();
                // a renamed argument is an additional one: keep it optional
                a.ty = a.ty.nullable().clone();
            }
        }
        "impl.argumentMissing.renamed"
    }
}

fn m_impl_arg_type(c: &mut Choices, d: &mut Document) -> &'static str {
    let Some((t, i, f)) = pick_impl_field(c, d, true) else {
        return "neutral.noop";
    };
    let (idi, ifi) = find_field(d, &i, &f).unwrap();
    let iargs: Vec<InputValueDef> = ty_at(d, idi).fields[ifi].args.clone();
    let Some(ia) = at(c, &iargs) else {
        return "neutral.noop";
    };
    let (di, fi) = find_field(d, &t, &f).unwrap();
    let Some(a) = ty_at_mut(d, di).fields[fi].args.iter_mut().find(|a| a.name == ia.name) else {
        return "neutral.noop";
    };
    let (new, label) = match c.choose(4) {
        0 => {
            if ia.ty.is_non_null() {
                (ia.ty.nullable().clone(), "impl.argumentType.nullableForNonNull")
            } else {
                (ia.ty.clone().non_null(), "impl.argumentType.nonNullForNullable")
            }
        }
        1 => (ia.ty.nullable().clone().list(), "impl.argumentType.listAdded"),
        2 if ia.ty.is_list() => (ia.ty.item().unwrap().nullable().clone(), "impl.argumentType.listRemoved"),
        _ => (rename_inner(&ia.ty, if ia.ty.inner_name() == "Int" { "String" } else { "Int" }), "impl.argumentType.otherNamedType"),
    };
    a.ty = new;
    // the default (if any) may no longer fit; defaults are not validated, but an ill-typed default
    // on a non-null argument is outside the compared domain: drop it
    a.default = None;
    a.directives.clear();
    label
}

fn m_impl_extra_required_arg(c: &mut Choices, d: &mut Document) -> &'static str {
    let Some((t, _i, f)) = pick_impl_field(c, d, false) else {
        return "neutral.noop";
    };
    let (di, fi) = find_field(d, &t, &f).unwrap();
    let ty = match c.choose(3) {
        0 => Type::named("Int").non_null(),
        1 => Type::named("String").list().non_null(),
        _ => Type::named("MIn").non_null(),
    };
    // anywhere among the arguments: before, between or after the interface's own
    let args = &mut ty_at_mut(d, di).fields[fi].args;
    let at = c.choose(args.len() + 1);
    args.insert(at, ivd("mreq", ty));
    "impl.extraRequiredArgument"
}

/// An implementer's argument that is additional for SOME implemented interface and optional only
/// because of its default value loses the default: it is then a required additional argument for that
/// interface (even though a more specific interface declares it too).
fn m_impl_extra_arg_default_dropped(c: &mut Choices, d: &mut Document) -> &'static str {
    let mut cands: Vec<(String, String, String)> = vec![];
    for (t, i) in impl_pairs(d) {
        let Some(tdi) = d.defs.iter().position(|x| matches!(x, Definition::Type(td) if td.name == t && !td.is_ext)) else { continue };
        for f in ty_at(d, tdi).fields.clone() {
            let Some((idi, ifi)) = find_field(d, &i, &f.name) else { continue };
            let iargs: Vec<String> = ty_at(d, idi).fields[ifi].args.iter().map(|a| a.name.clone()).collect();
            for a in &f.args {
                if !iargs.contains(&a.name) && a.ty.is_non_null() && a.default.is_some() {
                    cands.push((t.clone(), f.name.clone(), a.name.clone()));
                }
            }
        }
    }
    let Some((t, f, a)) = at(c, &cands) else {
        return "neutral.noop";
    };
    let Some((di, fi)) = find_field(d, &t, &f) else {
        return "neutral.noop";
    };
    for x in ty_at_mut(d, di).fields[fi].args.iter_mut() {
        if x.name == a {
            x.default = None;
        }
    }
    "impl.extraArgumentDefaultDropped"
}

fn m_impl_transitive_missing(c: &mut Choices, d: &mut Document) -> &'static str {
    // (type, via, missing): type implements via, via implements missing
    let mut cands = vec![];
    for (t, via) in impl_pairs(d) {
        for missing in implements_of(d, &via) {
            if missing != t && implements_of(d, &t).contains(&missing) {
                cands.push((t.clone(), missing));
            }
        }
    }
    // fixture: (MObj, MBase)
    let Some((t, missing)) = at(c, &cands) else {
        return "neutral.noop";
    };
    let mut dropped_defs = vec![];
    for (i, x) in d.defs.iter_mut().enumerate() {
        if let Definition::Type(td) = x {
            if td.name == t {
                td.implements.retain(|n| *n != missing);
                if td.is_ext && td.implements.is_empty() && td.directives.is_empty() && td.fields.is_empty() {
                    dropped_defs.push(i);
                }
            }
        }
    }
    for i in dropped_defs.into_iter().rev() {
        d.defs.remove(i);
    }
    "impl.transitiveInterfaceMissing"
}

fn m_impl_self(c: &mut Choices, d: &mut Document) -> &'static str {
    let cands = type_idx(d, |t| t.kind == TypeKind::Interface);
    let Some(i) = at(c, &cands) else {
        return "neutral.noop";
    };
    let name = ty_at(d, i).name.clone();
    let at = c.choose(ty_at(d, i).implements.len() + 1);
    ty_at_mut(d, i).implements.insert(at, name);
    "impl.interfaceImplementsItself"
}

fn m_impl_non_interface(c: &mut Choices, d: &mut Document) -> &'static str {
    let cands = type_idx(d, |t| matches!(t.kind, TypeKind::Object | TypeKind::Interface));
    let Some(i) = at(c, &cands) else {
        return "neutral.noop";
    };
    let (n, label) = match c.choose(5) {
        0 => ("MOther", "impl.nonInterface.object"),
        1 => ("MUni", "impl.nonInterface.union"),
        2 => ("MScalar", "impl.nonInterface.scalar"),
        3 => ("MIn", "impl.nonInterface.input"),
        _ => ("ID", "impl.nonInterface.builtinScalar"),
    };
    if ty_at(d, i).name == n {
        return "neutral.noop";
    }
    ty_at_mut(d, i).implements.push(n.to_string());
    label
}

// ------------------------------------------------------------------------------------------------
// mutators: input object cycles

fn input_type(name: &str, fields: Vec<(&str, Type)>) -> Definition {
    let mut t = TypeDef::new(TypeKind::InputObject, name);
    for (n, ty) in fields {
        t.input_fields.push(ivd(n, ty));
    }
    Definition::Type(t)
}

fn m_input_cycle(c: &mut Choices, d: &mut Document) -> &'static str {
    let nn = |n: &str| Type::named(n).non_null();
    match c.choose(4) {
        0 => {
            insert_somewhere(c, d, input_type("MCyc0", vec![("v", Type::named("Int")), ("self", nn("MCyc0"))]));
            "inputCycle.direct"
        }
        1 => {
            insert_somewhere(c, d, input_type("MCyc0", vec![("next", nn("MCyc1"))]));
            insert_somewhere(c, d, input_type("MCyc1", vec![("v", Type::named("Int")), ("next", nn("MCyc2"))]));
            insert_somewhere(c, d, input_type("MCyc2", vec![("next", nn("MCyc0")), ("other", Type::named("MCyc1"))]));
            "inputCycle.long"
        }
        2 => {
            // the cycle does not go through the first type
            insert_somewhere(c, d, input_type("MCyc0", vec![("next", nn("MCyc1"))]));
            insert_somewhere(c, d, input_type("MCyc1", vec![("next", nn("MCyc2"))]));
            insert_somewhere(c, d, input_type("MCyc2", vec![("back", nn("MCyc1"))]));
            "inputCycle.notThroughEntry"
        }
        _ => {
            // existing input object made self-referential through an extension
            let cands = type_idx(d, |t| t.kind == TypeKind::InputObject && !t.is_ext);
            let Some(i) = at(c, &cands) else {
        return "neutral.noop";
    };
            let name = ty_at(d, i).name.clone();
            let mut e = ext_of(d, i);
            e.input_fields.push(ivd("mself", nn(&name)));
            insert_somewhere(c, d, Definition::Type(e));
            "inputCycle.viaExtension"
        }
    }
}

/// neutral: cycles broken by a nullable or list type
fn m_input_cycle_ok(c: &mut Choices, d: &mut Document) -> &'static str {
    let nn = |n: &str| Type::named(n).non_null();
    match c.choose(3) {
        0 => {
            insert_somewhere(c, d, input_type("MCyc0", vec![("self", nn("MCyc0").list().non_null())]));
            "neutral.inputCycle.throughList"
        }
        1 => {
            insert_somewhere(c, d, input_type("MCyc0", vec![("next", nn("MCyc1"))]));
            insert_somewhere(c, d, input_type("MCyc1", vec![("next", Type::named("MCyc0"))]));
            "neutral.inputCycle.nullableLink"
        }
        _ => {
            insert_somewhere(c, d, input_type("MCyc0", vec![("a", nn("MCyc1")), ("b", nn("MCyc2"))]));
            insert_somewhere(c, d, input_type("MCyc1", vec![("b", nn("MCyc2"))]));
            insert_somewhere(c, d, input_type("MCyc2", vec![("v", Type::named("Int"))]));
            "neutral.inputCycle.diamondNoCycle"
        }
    }
}

// ------------------------------------------------------------------------------------------------
// mutators: reserved names

fn m_reserved(c: &mut Choices, d: &mut Document) -> &'static str {
    match c.choose(12) {
        0 => {
            let Some((i, _)) = free_object_field(c, d) else {
                return "neutral.noop";
            };
            ty_at_mut(d, i).fields.push(fdef("__mf", Type::named("Int")));
            "reserved.field"
        }
        1 => {
            let Some((i, fi)) = free_object_field(c, d) else {
                return "neutral.noop";
            };
            ty_at_mut(d, i).fields[fi].args.push(ivd("__ma", Type::named("Int")));
            "reserved.argument"
        }
        2 => {
            let cands = type_idx(d, |t| t.kind == TypeKind::Enum);
            let Some(i) = at(c, &cands) else {
        return "neutral.noop";
    };
            ty_at_mut(d, i).values.push(EnumValueDef { description: None, name: "__MV".into(), directives: vec![] });
            "reserved.enumValue"
        }
        3 => {
            let cands = type_idx(d, |t| t.kind == TypeKind::InputObject);
            let Some(i) = at(c, &cands) else {
        return "neutral.noop";
    };
            ty_at_mut(d, i).input_fields.push(ivd("__mi", Type::named("Int")));
            "reserved.inputField"
        }
        4 => {
            d.defs.push(Definition::Directive(DirectiveDef { description: None, name: "__md".into(), args: vec![], repeatable: false, locations: vec!["FIELD".into()] }));
            "reserved.directive"
        }
        5 => {
            d.defs.push(Definition::Directive(DirectiveDef { description: None, name: "mResArg".into(), args: vec![ivd("__a", Type::named("Int"))], repeatable: false, locations: vec!["FIELD".into()] }));
            "reserved.directiveArgument"
        }
        6 => {
            let mut t = TypeDef::new(TypeKind::Object, "__MT");
            t.fields.push(fdef("a", Type::named("Int")));
            insert_somewhere(c, d, Definition::Type(t));
            "reserved.type.object"
        }
        7 => {
            let mut t = TypeDef::new(TypeKind::Interface, "__MT");
            t.fields.push(fdef("a", Type::named("Int")));
            insert_somewhere(c, d, Definition::Type(t));
            "reserved.type.interface"
        }
        8 => {
            let mut t = TypeDef::new(TypeKind::Union, "__MT");
            t.members.push("MOther".into());
            insert_somewhere(c, d, Definition::Type(t));
            "reserved.type.union"
        }
        9 => {
            let mut t = TypeDef::new(TypeKind::Enum, "__MT");
            t.values.push(EnumValueDef { description: None, name: "A".into(), directives: vec![] });
            insert_somewhere(c, d, Definition::Type(t));
            "reserved.type.enum"
        }
        10 => {
            insert_somewhere(c, d, input_type("__MT", vec![("a", Type::named("Int"))]));
            "reserved.type.input"
        }
        _ => {
            insert_somewhere(c, d, Definition::Type(TypeDef::new(TypeKind::Scalar, "__MT")));
            "reserved.type.scalar"
        }
    }
}

// ------------------------------------------------------------------------------------------------
// mutators: directive applications

fn m_dir_unknown(c: &mut Choices, d: &mut Document) -> &'static str {
    let args = if c.coin() { vec![("x", Value::int(1))] } else { vec![] };
    apply_somewhere(c, d, dir("mUnknown", args));
    "directive.unknown"
}

fn m_dir_misplaced(c: &mut Choices, d: &mut Document) -> &'static str {
    match c.choose(4) {
        0 => {
            apply_somewhere(c, d, dir("mExec", vec![]));
            "directive.misplaced.executableOnly"
        }
        1 => {
            // @deprecated where it is not allowed
            let all = sites(d);
            let bad: Vec<Site> = all.into_iter().filter(|s| !matches!(site_location(d, *s), "FIELD_DEFINITION" | "ARGUMENT_DEFINITION" | "INPUT_FIELD_DEFINITION" | "ENUM_VALUE")).collect();
            let Some(s) = at(c, &bad) else {
        return "neutral.noop";
    };
            site_dirs(d, s).push(dir("deprecated", vec![]));
            "directive.misplaced.deprecated"
        }
        2 => {
            let all = sites(d);
            let bad: Vec<Site> = all.into_iter().filter(|s| site_location(d, *s) != "SCALAR").collect();
            let Some(s) = at(c, &bad) else {
        return "neutral.noop";
    };
            site_dirs(d, s).push(dir("specifiedBy", vec![("url", Value::str("https://example.com"))]));
            "directive.misplaced.specifiedBy"
        }
        _ => {
            // a type-system directive restricted to one location, applied at another
            let Some(loc) = at(c, &TYPE_SYSTEM_LOCATIONS) else {
        return "neutral.noop";
    };
            if !d.defs.iter().any(|x| matches!(x, Definition::Directive(dd) if dd.name == "mOne")) {
                d.defs.push(Definition::Directive(DirectiveDef { description: None, name: "mOne".into(), args: vec![], repeatable: true, locations: vec![loc.to_string()] }));
            }
            let allowed: Vec<String> = d.defs.iter().find_map(|x| match x {
                Definition::Directive(dd) if dd.name == "mOne" => Some(dd.locations.clone()),
                _ => None,
            }).unwrap();
            let all = sites(d);
            let bad: Vec<Site> = all.into_iter().filter(|s| !allowed.iter().any(|l| l == site_location(d, *s))).collect();
            let Some(s) = at(c, &bad) else {
        return "neutral.noop";
    };
            site_dirs(d, s).push(dir("mOne", vec![]));
            "directive.misplaced.otherTypeSystemLocation"
        }
    }
}

fn m_dir_duplicated(c: &mut Choices, d: &mut Document) -> &'static str {
    match c.choose(3) {
        0 => {
            let s = random_site(c, d);
            let list = site_dirs(d, s);
            list.push(dir("mOnce", vec![]));
            let at = c.choose(list.len() + 1);
            list.insert(at, dir("mOnce", vec![]));
            "directive.duplicated.sameLocation"
        }
        1 => {
            // on a type definition and on one of its extensions
            let cands = type_idx(d, |t| !t.is_ext);
            let Some(i) = at(c, &cands) else {
        return "neutral.noop";
    };
            ty_at_mut(d, i).directives.push(dir("mOnce", vec![]));
            let mut e = ext_of(d, i);
            e.directives.push(dir("mOnce", vec![]));
            insert_somewhere(c, d, Definition::Type(e));
            "directive.duplicated.viaTypeExtension"
        }
        _ => {
            let i = make_explicit(d);
            schema_at_mut(d, i).directives.push(dir("mOnce", vec![]));
            insert_somewhere(c, d, Definition::Schema(SchemaDef { is_ext: true, description: None, directives: vec![dir("mOnce", vec![])], roots: vec![] }));
            "directive.duplicated.viaSchemaExtension"
        }
    }
}

fn m_dir_arg_required(c: &mut Choices, d: &mut Document) -> &'static str {
    match c.choose(3) {
        0 => {
            apply_somewhere(c, d, dir("mReq", vec![]));
            "directive.requiredArgument.missing"
        }
        1 => {
            apply_somewhere(c, d, dir("mReq", vec![("o", Value::str("x"))]));
            "directive.requiredArgument.otherGiven"
        }
        _ => {
            apply_somewhere(c, d, dir("mReq", vec![("r", Value::Null)]));
            "directive.requiredArgument.null"
        }
    }
}

fn m_dir_arg_unknown(c: &mut Choices, d: &mut Document) -> &'static str {
    if c.coin() {
        apply_somewhere(c, d, dir("mAny", vec![("mNope", Value::int(1))]));
    } else {
        apply_somewhere(c, d, dir("mReq", vec![("r", Value::int(1)), ("R", Value::int(2))]));
    }
    "directive.unknownArgument"
}

fn m_dir_arg_duplicated(c: &mut Choices, d: &mut Document) -> &'static str {
    if c.coin() {
        apply_somewhere(c, d, dir("mReq", vec![("r", Value::int(1)), ("r", Value::int(1))]));
    } else {
        apply_somewhere(c, d, dir("mReq", vec![("r", Value::int(1)), ("o", Value::str("a")), ("r", Value::int(2))]));
    }
    "directive.duplicatedArgument"
}

fn obj(fields: Vec<(&str, Value)>) -> Value {
    Value::Object(fields.into_iter().map(|(k, v)| (k.to_string(), v)).collect())
}

/// (argument name, ill-typed literal, label)
fn ill_typed(c: &mut Choices) -> (&'static str, Value, &'static str) {
    let table: Vec<(&'static str, Value, &'static str)> = vec![
        ("i", Value::str("1"), "directive.argumentValue.Int<-String"),
        ("i", Value::Float("1.0".into()), "directive.argumentValue.Int<-Float"),
        ("i", Value::Bool(true), "directive.argumentValue.Int<-Boolean"),
        ("i", Value::Int("2147483648".into()), "directive.argumentValue.Int<-tooLarge"),
        ("i", Value::Int("-2147483649".into()), "directive.argumentValue.Int<-tooSmall"),
        ("i", Value::Enum("MA".into()), "directive.argumentValue.Int<-Enum"),
        ("i", Value::List(vec![Value::int(1)]), "directive.argumentValue.Int<-List"),
        ("i", obj(vec![("x", Value::int(1))]), "directive.argumentValue.Int<-Object"),
        ("f", Value::str("1.5"), "directive.argumentValue.Float<-String"),
        ("f", Value::Bool(false), "directive.argumentValue.Float<-Boolean"),
        ("s", Value::int(1), "directive.argumentValue.String<-Int"),
        ("s", Value::Enum("MA".into()), "directive.argumentValue.String<-Enum"),
        ("s", Value::Bool(true), "directive.argumentValue.String<-Boolean"),
        ("b", Value::int(1), "directive.argumentValue.Boolean<-Int"),
        ("b", Value::str("true"), "directive.argumentValue.Boolean<-String"),
        ("id", Value::Float("1.5".into()), "directive.argumentValue.ID<-Float"),
        ("id", Value::Bool(true), "directive.argumentValue.ID<-Boolean"),
        ("id", Value::Enum("MA".into()), "directive.argumentValue.ID<-Enum"),
        ("e", Value::Enum("MC".into()), "directive.argumentValue.Enum<-undefinedValue"),
        ("e", Value::str("MA"), "directive.argumentValue.Enum<-String"),
        ("e", Value::int(0), "directive.argumentValue.Enum<-Int"),
        ("e", Value::Bool(true), "directive.argumentValue.Enum<-Boolean"),
        ("o", obj(vec![]), "directive.argumentValue.InputObject<-missingRequiredField"),
        ("o", obj(vec![("x", Value::Null)]), "directive.argumentValue.InputObject<-nullRequiredField"),
        ("o", obj(vec![("x", Value::int(1)), ("w", Value::Null)]), "directive.argumentValue.InputObject<-nullForNonNullWithDefault"),
        ("o", obj(vec![("x", Value::int(1)), ("q", Value::int(2))]), "directive.argumentValue.InputObject<-unknownField"),
        ("o", obj(vec![("x", Value::str("1"))]), "directive.argumentValue.InputObject<-illTypedField"),
        ("o", obj(vec![("x", Value::int(1)), ("z", Value::List(vec![Value::Null]))]), "directive.argumentValue.InputObject<-nullListItem"),
        ("o", obj(vec![("x", Value::int(1)), ("z", Value::List(vec![obj(vec![("y", Value::str("b"))])]))]), "directive.argumentValue.InputObject<-nestedMissingField"),
        ("o", obj(vec![("x", Value::int(1)), ("e", Value::Enum("MZ".into()))]), "directive.argumentValue.InputObject<-nestedUndefinedEnumValue"),
        ("o", Value::int(1), "directive.argumentValue.InputObject<-Int"),
        ("o", Value::str("x"), "directive.argumentValue.InputObject<-String"),
        ("o", Value::List(vec![Value::int(1)]), "directive.argumentValue.InputObject<-ListOfInt"),
        ("l", Value::List(vec![Value::int(1), Value::Null]), "directive.argumentValue.List<-nullItemForNonNull"),
        ("l", Value::List(vec![Value::int(1), Value::str("a")]), "directive.argumentValue.List<-illTypedItem"),
        ("l", Value::str("a"), "directive.argumentValue.List<-illTypedSingle"),
        ("l", Value::List(vec![Value::List(vec![Value::int(1)])]), "directive.argumentValue.List<-nestedTooDeep"),
        ("ll", Value::List(vec![Value::List(vec![Value::List(vec![Value::int(1)])])]), "directive.argumentValue.ListList<-nestedTooDeep"),
        ("ll", Value::List(vec![Value::List(vec![Value::str("a")])]), "directive.argumentValue.ListList<-illTypedItem"),
        ("nn", Value::Null, "directive.argumentValue.NonNullWithDefault<-null"),
    ];
    table[c.choose(table.len())].clone()
}

fn m_dir_arg_ill_typed(c: &mut Choices, d: &mut Document) -> &'static str {
    let (name, v, label) = ill_typed(c);
    let mut args = vec![(name, v)];
    if c.bool(60) {
        args.insert(0, ("b", Value::Bool(true)));
    }
    apply_somewhere(c, d, dir("mTyped", args));
    label
}

/// neutral: literals that need a coercion rule to be accepted
fn m_dir_arg_well_typed(c: &mut Choices, d: &mut Document) -> &'static str {
    let table: Vec<(&'static str, Value, &'static str)> = vec![
        ("f", Value::int(3), "neutral.argumentValue.Float<-Int"),
        ("id", Value::int(7), "neutral.argumentValue.ID<-Int"),
        ("id", Value::str("x"), "neutral.argumentValue.ID<-String"),
        ("i", Value::Int("-2147483648".into()), "neutral.argumentValue.Int<-min"),
        ("i", Value::Int("2147483647".into()), "neutral.argumentValue.Int<-max"),
        ("i", Value::Null, "neutral.argumentValue.nullable<-null"),
        ("l", Value::int(1), "neutral.argumentValue.List<-single"),
        ("l", Value::List(vec![]), "neutral.argumentValue.List<-empty"),
        ("ll", Value::int(1), "neutral.argumentValue.ListList<-single"),
        ("ll", Value::List(vec![Value::int(1), Value::int(2)]), "neutral.argumentValue.ListList<-flatList"),
        ("ll", Value::List(vec![Value::List(vec![Value::int(1), Value::Null]), Value::Null]), "neutral.argumentValue.ListList<-nulls"),
        ("nn", Value::List(vec![Value::Null]), "neutral.argumentValue.NonNullList<-nullItem"),
        ("c", obj(vec![("k", Value::List(vec![Value::int(1), Value::Null]))]), "neutral.argumentValue.CustomScalar<-Object"),
        ("c", Value::Enum("ANY".into()), "neutral.argumentValue.CustomScalar<-Enum"),
        ("c", Value::List(vec![Value::str("a"), Value::Float("1.5".into())]), "neutral.argumentValue.CustomScalar<-List"),
        ("o", obj(vec![("x", Value::int(1))]), "neutral.argumentValue.InputObject<-requiredOnly"),
        ("o", obj(vec![("x", Value::int(1)), ("y", Value::Null), ("z", obj(vec![("x", Value::int(2))])), ("w", Value::int(5)), ("e", Value::Enum("MB".into()))]), "neutral.argumentValue.InputObject<-full"),
        ("e", Value::Enum("MB".into()), "neutral.argumentValue.Enum<-value"),
        ("s", Value::Str(StrLit { value: "block".into(), raw: "\"\"\"block\"\"\"".into(), block: true }), "neutral.argumentValue.String<-blockString"),
    ];
    let Some((name, v, label)) = at(c, &table) else {
        return "neutral.noop";
    };
    apply_somewhere(c, d, dir("mTyped", vec![(name, v)]));
    label
}

fn m_dir_const_object_dup(c: &mut Choices, d: &mut Document) -> &'static str {
    match c.choose(3) {
        0 => {
            apply_somewhere(c, d, dir("mTyped", vec![("o", obj(vec![("x", Value::int(1)), ("x", Value::int(1))]))]));
            "directive.objectLiteral.duplicateField.inputObject"
        }
        1 => {
            apply_somewhere(c, d, dir("mTyped", vec![("c", obj(vec![("k", Value::int(1)), ("k", Value::int(2))]))]));
            "directive.objectLiteral.duplicateField.customScalar"
        }
        _ => {
            apply_somewhere(c, d, dir("mTyped", vec![("o", obj(vec![("x", Value::int(1)), ("z", Value::List(vec![obj(vec![("x", Value::int(2)), ("y", Value::Null), ("y", Value::Null)])]))]))]));
            "directive.objectLiteral.duplicateField.nested"
        }
    }
}

// ------------------------------------------------------------------------------------------------
// mutators: extensions

fn ext_with_body(kind: TypeKind, name: &str) -> TypeDef {
    let mut e = TypeDef::new(kind, name);
    e.is_ext = true;
    match kind {
        TypeKind::Scalar => e.directives.push(dir("mAny", vec![])),
        TypeKind::Object | TypeKind::Interface => e.fields.push(fdef("mext", Type::named("Int"))),
        TypeKind::Union => e.members.push("MOther".into()),
        TypeKind::Enum => e.values.push(EnumValueDef { description: None, name: "MEXT".into(), directives: vec![] }),
        TypeKind::InputObject => e.input_fields.push(ivd("mext", Type::named("Int"))),
    }
    e
}

fn m_ext_orphan(c: &mut Choices, d: &mut Document) -> &'static str {
    let k = c.choose(6);
    let e = ext_with_body(TypeKind::ALL[k], "MNowhere");
    insert_somewhere(c, d, Definition::Type(e));
    ["extension.orphan.scalar", "extension.orphan.object", "extension.orphan.interface", "extension.orphan.union", "extension.orphan.enum", "extension.orphan.input"][k]
}

fn m_ext_kind_mismatch(c: &mut Choices, d: &mut Document) -> &'static str {
    let cands = type_idx(d, |t| !t.is_ext);
    let Some(i) = at(c, &cands) else {
        return "neutral.noop";
    };
    let (name, kind) = (ty_at(d, i).name.clone(), ty_at(d, i).kind);
    let others: Vec<TypeKind> = TypeKind::ALL.iter().cloned().filter(|k| *k != kind).collect();
    let Some(ek) = at(c, &others) else {
        return "neutral.noop";
    };
    let e = ext_with_body(ek, &name);
    // placed before or after the definition
    let before = c.coin();
    let at = if before { c.choose(i + 1) } else { i + 1 + c.choose(d.defs.len() - i) };
    d.defs.insert(at, Definition::Type(e));
    if before {
        "extension.kindMismatch.beforeDefinition"
    } else {
        "extension.kindMismatch.afterDefinition"
    }
}

// ------------------------------------------------------------------------------------------------
// neutral mutations (the document stays valid)

fn m_neutral(c: &mut Choices, d: &mut Document) -> &'static str {
    match c.choose(12) {
        0 => {
            let Some((i, _)) = free_object_field(c, d) else {
                return "neutral.noop";
            };
            ty_at_mut(d, i).fields.push(fdef("mnew", wrap_some(c, "MUni")));
            "neutral.addField"
        }
        1 => {
            apply_somewhere(c, d, dir("mAny", vec![]));
            "neutral.applyDirective"
        }
        2 => {
            apply_somewhere(c, d, dir("mAny", vec![("r", Value::int(2))]));
            apply_somewhere(c, d, dir("mOnce", vec![]));
            "neutral.applyDirectives"
        }
        3 => {
            // repeatable directive repeated at one location
            let s = random_site(c, d);
            let list = site_dirs(d, s);
            list.push(dir("mAny", vec![]));
            list.push(dir("mAny", vec![("r", Value::int(1))]));
            "neutral.repeatableDirectiveTwice"
        }
        4 => {
            // schema extension with a directive (explicit schema, or implicit one with `Query`)
            if schema_def_idx(d).is_some() || def_kind(d, "Query") == Some(TypeKind::Object) {
                insert_somewhere(c, d, Definition::Schema(SchemaDef { is_ext: true, description: None, directives: vec![dir("mAny", vec![])], roots: vec![] }));
                "neutral.schemaExtensionDirective"
            } else {
                "neutral.noop"
            }
        }
        5 => {
            // a root operation type added through a schema extension (explicit schema only)
            if let Some(i) = schema_def_idx(d) {
                let used: Vec<OpType> = d.defs.iter().filter_map(|x| match x { Definition::Schema(s) => Some(s.roots.iter().map(|r| r.0).collect::<Vec<_>>()), _ => None }).flatten().collect();
                let _ = i;
                let free: Vec<OpType> = OpType::ALL.iter().cloned().filter(|o| !used.contains(o)).collect();
                if let Some(op) = free.first() {
                    insert_somewhere(c, d, Definition::Schema(SchemaDef { is_ext: true, description: None, directives: vec![], roots: vec![(*op, "MOther".into())] }));
                    return "neutral.schemaExtensionRootOperation";
                }
            }
            "neutral.noop"
        }
        6 => {
            make_explicit(d);
            "neutral.explicitSchema"
        }
        7 => {
            // implementer gains an optional additional argument / a narrower type
            // (at any position; also on a generated implementing field when there is one)
            if c.coin() {
                if let Some((t, _i, f)) = pick_impl_field(c, d, false) {
                    if let Some((di, fi)) = find_field(d, &t, &f) {
                        let args = &mut ty_at_mut(d, di).fields[fi].args;
                        if !args.iter().any(|a| a.name == "mopt") {
                            let at = c.choose(args.len() + 1);
                            args.insert(at, ivd("mopt", Type::named("Int")));
                        }
                    }
                }
            } else if let Some((di, fi)) = find_field(d, "MObj", "mv") {
                let args = &mut ty_at_mut(d, di).fields[fi].args;
                let at = c.choose(args.len() + 1);
                args.insert(at, ivd("mopt", Type::named("MIn")));
            }
            "neutral.implementer.optionalArgument"
        }
        8 => {
            // interface declared through an extension
            let mut t = TypeDef::new(TypeKind::Object, "MLate");
            t.fields.push(fdef("mv", Type::named("Int").non_null().list().non_null()));
            t.fields.push(FieldDef { description: None, name: "mb".into(), args: vec![ivd("p", Type::named("Int")), ivd("q", Type::named("String").non_null().list())], ty: Type::named("MLate").non_null(), directives: vec![] });
            insert_somewhere(c, d, Definition::Type(t));
            let mut e = TypeDef::new(TypeKind::Object, "MLate");
            e.is_ext = true;
            e.implements.push("MBase".into());
            insert_somewhere(c, d, Definition::Type(e));
            "neutral.implementsViaExtension"
        }
        9 => {
            // types that are non-empty only through their extension
            let k = 1 + c.choose(5);
            let kind = TypeKind::ALL[k];
            insert_somewhere(c, d, Definition::Type(TypeDef::new(kind, "MViaExt")));
            insert_somewhere(c, d, Definition::Type(ext_with_body(kind, "MViaExt")));
            "neutral.nonEmptyViaExtension"
        }
        10 => {
            // a type named like a default root that is not a root (explicit schema only)
            if schema_def_idx(d).is_some() && def_kind(d, "Mutation").is_none() {
                let mut t = TypeDef::new(TypeKind::Object, "Mutation");
                t.fields.push(fdef("x", Type::named("Int")));
                insert_somewhere(c, d, Definition::Type(t));
                "neutral.typeNamedMutationNotRoot"
            } else {
                "neutral.noop"
            }
        }
        _ => {
            // deprecated on optional things
            let Some((i, fi)) = free_object_field(c, d) else {
                return "neutral.noop";
            };
            let f = &mut ty_at_mut(d, i).fields[fi];
            if !f.directives.iter().any(|x| x.name == "deprecated") {
                f.directives.push(dir("deprecated", vec![("reason", Value::str("m"))]));
            }
            "neutral.deprecatedField"
        }
    }
}

// ------------------------------------------------------------------------------------------------
// dispatcher

const MUTATORS: &[(M, u32)] = &[
    (m_root_missing_query, 3),
    (m_root_duplicate, 3),
    (m_root_non_object, 4),
    (m_root_unknown, 2),
    (m_root_dup_op_type, 3),
    (m_two_schemas, 2),
    (m_empty, 5),
    (m_empty_existing, 2),
    (m_input_in_output, 3),
    (m_output_in_input, 4),
    (m_unknown_type, 6),
    (m_union_non_object, 5),
    (m_dup_field, 3),
    (m_dup_arg, 3),
    (m_dup_enum_value, 3),
    (m_dup_input_field, 3),
    (m_dup_member, 3),
    (m_dup_implements, 3),
    (m_dup_type, 3),
    (m_dup_directive_def, 2),
    (m_builtin_directive_once, 3),
    (m_builtin_directive_twice, 2),
    (m_impl_field_missing, 3),
    (m_impl_field_type, 6),
    (m_impl_field_supertype, 1),
    (m_impl_arg_missing, 3),
    (m_impl_arg_type, 5),
    (m_impl_extra_required_arg, 3),
    (m_impl_extra_arg_default_dropped, 3),
    (m_impl_transitive_missing, 3),
    (m_impl_self, 2),
    (m_impl_non_interface, 4),
    (m_input_cycle, 5),
    (m_input_cycle_ok, 3),
    (m_reserved, 10),
    (m_dir_unknown, 3),
    (m_dir_misplaced, 5),
    (m_dir_duplicated, 4),
    (m_dir_arg_required, 4),
    (m_dir_arg_unknown, 3),
    (m_dir_arg_duplicated, 3),
    (m_dir_arg_ill_typed, 24),
    (m_dir_arg_well_typed, 12),
    (m_dir_const_object_dup, 3),
    (m_ext_orphan, 4),
    (m_ext_kind_mismatch, 5),
    (m_neutral, 14),
];

/// Apply one mutation chosen by `c`; returns its label (`neutral.*` labels keep the document
/// valid when applied to a valid document).
pub fn mutate(c: &mut Choices, d: &mut Document) -> &'static str {
    ensure_fixture(d);
    let weights: Vec<u32> = MUTATORS.iter().map(|m| m.1).collect();
    let k = c.weighted(&weights);
    (MUTATORS[k].0)(c, d)
}

/// Choose a mutator (weighted); to be applied later with `mutate_nth`.
pub fn pick(c: &mut Choices) -> usize {
    let weights: Vec<u32> = MUTATORS.iter().map(|m| m.1).collect();
    c.weighted(&weights)
}

pub fn mutator_count() -> usize {
    MUTATORS.len()
}

/// Apply mutator number `k` (tests, exhaustive sweeps).
pub fn mutate_nth(k: usize, c: &mut Choices, d: &mut Document) -> &'static str {
    ensure_fixture(d);
    (MUTATORS[k].0)(c, d)
}

#[cfg(test)]
mod tests {
    use super::*;
    use crate::gen::schema as gs;
    use crate::refmodel::printer::print_document;
    use crate::refmodel::typesys::{validate, Verdict};
    use std::collections::BTreeMap;

    fn bytes(seed: &mut u64, n: usize) -> Vec<u8> {
        (0..n)
            .map(|_| {
                *seed = seed.wrapping_mul(6364136223846793005).wrapping_add(1442695040888963407);
                (*seed >> 33) as u8
            })
            .collect()
    }

    #[test]
    fn fixture_is_valid() {
        let mut d = parse_document("type Query { a: Int }").unwrap();
        ensure_fixture(&mut d);
        assert_eq!(validate(&d), Verdict::Valid);
    }

    /// Every single mutation of a valid document: `neutral.*` keeps it valid, everything else
    /// makes it invalid (judged by the reference on the re-parsed printed text).
    #[test]
    fn single_mutations_have_the_intended_verdict() {
        let mut seed = 11u64;
        let mut seen: BTreeMap<String, (usize, usize)> = BTreeMap::new();
        for k in 0..mutator_count() {
            for round in 0..150 {
                let b = bytes(&mut seed, if round % 3 == 0 { 40 } else { 700 });
                let mut c = Choices::new(&b);
                let mut d = gs::schema(&mut c, &gs::Opts::default());
                if round % 2 == 0 {
                    gs::split_extensions(&mut c, &mut d);
                }
                let label = mutate_nth(k, &mut c, &mut d);
                let text = print_document(&d);
                let back = parse_document(&text).unwrap_or_else(|e| panic!("{label}: unparsable {e:?}\n{text}"));
                assert_eq!(back, d, "{label}: print/parse round trip");
                let v = validate(&back);
                let e = seen.entry(label.to_string()).or_insert((0, 0));
                match (&v, label.starts_with("neutral.")) {
                    (Verdict::Valid, true) | (Verdict::Invalid(_), false) => e.0 += 1,
                    (Verdict::Unspecified(_), _) => e.1 += 1,
                    _ => panic!("{label}: unexpected verdict {v:?}\n{text}"),
                }
            }
        }
        for (l, (ok, gray)) in &seen {
            assert!(*ok > 0, "{l} never produced its verdict ({gray} unspecified)");
        }
        assert!(seen.len() > 180, "only {} sub-cases seen", seen.len());
    }
}
