//! placeholder (filled in next)
use crate::choices::Choices;
use crate::refmodel::ast::*;
pub fn mutate(_c: &mut Choices, _d: &mut Document) -> &'static str { "none" }
