//! Syntactic document generator: reference ASTs exercising every production of the October 2021
//! document grammar. Documents are grammatical by construction, NOT semantically valid.

use super::strlit;
use crate::choices::Choices;
use crate::refmodel::ast::*;

pub const NAMES: &[&str] = &[
    "a", "b", "c", "f", "x", "T", "U", "Q", "Int", "id", "_", "_1", "A1", "query", "type", "on", "fragment", "extend",
    "schema", "implements", "repeatable", "input", "enum", "true1", "nullx", "mutation", "subscription", "directive",
    "interface", "union", "scalar", "EnumV", "OBJECT", "FIELD", "longer_name_42",
];
/// names that may be used as enum values / fragment names everywhere
const SAFE_NAMES: &[&str] = &["a", "b", "c", "f", "x", "T", "U", "Q", "Int", "id", "_", "_1", "A1", "EnumV", "query", "type", "schema"];

pub struct Cfg {
    pub max_depth: usize,
    pub executable: bool,
    pub type_system: bool,
}

impl Default for Cfg {
    fn default() -> Self {
        Cfg { max_depth: 4, executable: true, type_system: true }
    }
}

pub fn name(c: &mut Choices) -> String {
    c.pick(NAMES).to_string()
}
fn safe_name(c: &mut Choices) -> String {
    c.pick(SAFE_NAMES).to_string()
}
fn enum_value_name(c: &mut Choices) -> String {
    // EnumValue : Name but not true/false/null
    name(c)
}
fn fragment_name(c: &mut Choices) -> String {
    // FragmentName : Name but not `on`
    let n = name(c);
    if n == "on" {
        "On".to_string()
    } else {
        n
    }
}

pub fn ty(c: &mut Choices, depth: usize) -> Type {
    let base = if depth > 0 && c.bool(80) { Type::List(Box::new(ty(c, depth - 1))) } else { Type::Named(name(c)) };
    if c.bool(80) {
        Type::NonNull(Box::new(base))
    } else {
        base
    }
}

pub fn int_literal(c: &mut Choices) -> String {
    match c.choose(6) {
        0 => "0".into(),
        1 => "-0".into(),
        2 => c.range(1, 9999).to_string(),
        3 => format!("-{}", c.range(1, 999)),
        4 => "2147483647".into(),
        _ => c.pick(&["123456789012", "-2147483648", "7", "42"]).to_string(),
    }
}

pub fn float_literal(c: &mut Choices) -> String {
    let mut s = int_literal(c);
    let frac = c.coin();
    if frac {
        s.push('.');
        s.push_str(c.pick(&["0", "5", "25", "000", "125"]));
    }
    if !frac || c.coin() {
        s.push(c.pick(&['e', 'E']));
        s.push_str(c.pick(&["", "+", "-"]));
        s.push_str(c.pick(&["0", "1", "10", "05", "3"]));
    }
    s
}

pub fn value(c: &mut Choices, depth: usize, constant: bool) -> Value {
    let w_nested = if depth > 0 { 12 } else { 0 };
    match c.weighted(&[20, 12, 12, 10, 10, 8, if constant { 0 } else { 16 }, w_nested, w_nested]) {
        0 => Value::Int(int_literal(c)),
        1 => Value::Float(float_literal(c)),
        2 => Value::Str(strlit::literal(c)),
        3 => Value::Bool(c.coin()),
        4 => Value::Null,
        5 => {
            let n = enum_value_name(c);
            match n.as_str() {
                "true" | "false" | "null" => Value::Enum("E".into()),
                _ => Value::Enum(n),
            }
        }
        6 => Value::Var(name(c)),
        7 => {
            let n = c.small(4);
            Value::List((0..n).map(|_| value(c, depth - 1, constant)).collect())
        }
        _ => {
            let n = c.small(4);
            Value::Object((0..n).map(|_| (name(c), value(c, depth - 1, constant))).collect())
        }
    }
}

pub fn arguments(c: &mut Choices, depth: usize, constant: bool) -> Vec<(String, Value)> {
    let n = c.small(3);
    (0..n).map(|_| (name(c), value(c, depth, constant))).collect()
}

pub fn directives(c: &mut Choices, depth: usize, constant: bool) -> Vec<Directive> {
    let n = if c.bool(90) { 1 + c.small(2) } else { 0 };
    (0..n).map(|_| Directive { name: name(c), args: arguments(c, depth.min(2), constant) }).collect()
}

pub fn selection_set(c: &mut Choices, depth: usize) -> Vec<Selection> {
    let n = 1 + c.small(4);
    (0..n).map(|_| selection(c, depth)).collect()
}

pub fn selection(c: &mut Choices, depth: usize) -> Selection {
    let w_frag = if depth > 0 { 12 } else { 0 };
    match c.weighted(&[70, 12, w_frag]) {
        0 => Selection::Field(Field {
            alias: if c.bool(50) { Some(name(c)) } else { None },
            name: name(c),
            args: if c.bool(80) { arguments(c, 2, false) } else { vec![] },
            directives: directives(c, 1, false),
            selection_set: if depth > 0 && c.bool(90) { selection_set(c, depth - 1) } else { vec![] },
        }),
        1 => Selection::Spread(FragmentSpread { name: fragment_name(c), directives: directives(c, 1, false) }),
        _ => Selection::Inline(InlineFragment {
            type_condition: if c.bool(170) { Some(name(c)) } else { None },
            directives: directives(c, 1, false),
            selection_set: selection_set(c, depth - 1),
        }),
    }
}

pub fn operation(c: &mut Choices, cfg: &Cfg) -> OperationDef {
    if c.bool(60) {
        return OperationDef {
            op: OpType::Query,
            shorthand: true,
            name: None,
            vars: vec![],
            directives: vec![],
            selection_set: selection_set(c, cfg.max_depth),
        };
    }
    let nv = if c.bool(100) { 1 + c.small(3) } else { 0 };
    OperationDef {
        op: c.pick(&OpType::ALL),
        shorthand: false,
        name: if c.bool(180) { Some(name(c)) } else { None },
        vars: (0..nv)
            .map(|_| VarDef {
                name: name(c),
                ty: ty(c, 2),
                default: if c.bool(90) { Some(value(c, 2, true)) } else { None },
                directives: directives(c, 1, true),
            })
            .collect(),
        directives: directives(c, 1, false),
        selection_set: selection_set(c, cfg.max_depth),
    }
}

pub fn fragment(c: &mut Choices, cfg: &Cfg) -> FragmentDef {
    FragmentDef {
        name: fragment_name(c),
        type_condition: name(c),
        directives: directives(c, 1, false),
        selection_set: selection_set(c, cfg.max_depth),
    }
}

fn opt_desc(c: &mut Choices, p: u32) -> Option<StrLit> {
    if c.bool(p) {
        Some(strlit::description(c))
    } else {
        None
    }
}

pub fn input_value_def(c: &mut Choices) -> InputValueDef {
    InputValueDef {
        description: opt_desc(c, 40),
        name: name(c),
        ty: ty(c, 2),
        default: if c.bool(80) { Some(value(c, 2, true)) } else { None },
        directives: directives(c, 1, true),
    }
}

pub fn field_def(c: &mut Choices) -> FieldDef {
    let na = if c.bool(80) { 1 + c.small(2) } else { 0 };
    FieldDef {
        description: opt_desc(c, 40),
        name: name(c),
        args: (0..na).map(|_| input_value_def(c)).collect(),
        ty: ty(c, 2),
        directives: directives(c, 1, true),
    }
}

pub fn type_def(c: &mut Choices, is_ext: bool) -> TypeDef {
    let kind = c.pick(&TypeKind::ALL);
    let mut t = TypeDef::new(kind, &name(c));
    t.is_ext = is_ext;
    if !is_ext {
        t.description = opt_desc(c, 60);
    }
    t.directives = directives(c, 1, true);
    let body = c.bool(210);
    match kind {
        TypeKind::Scalar => {}
        TypeKind::Object | TypeKind::Interface => {
            let ni = if c.bool(80) { 1 + c.small(2) } else { 0 };
            t.implements = (0..ni).map(|_| name(c)).collect();
            if body {
                let n = 1 + c.small(3);
                t.fields = (0..n).map(|_| field_def(c)).collect();
            }
        }
        TypeKind::Union => {
            if body {
                let n = 1 + c.small(3);
                t.members = (0..n).map(|_| name(c)).collect();
            }
        }
        TypeKind::Enum => {
            if body {
                let n = 1 + c.small(3);
                t.values = (0..n)
                    .map(|_| {
                        let mut n = enum_value_name(c);
                        if matches!(n.as_str(), "true" | "false" | "null") {
                            n = "V".into();
                        }
                        EnumValueDef { description: opt_desc(c, 40), name: n, directives: directives(c, 1, true) }
                    })
                    .collect();
            }
        }
        TypeKind::InputObject => {
            if body {
                let n = 1 + c.small(3);
                t.input_fields = (0..n).map(|_| input_value_def(c)).collect();
            }
        }
    }
    // an extension must contribute something
    if is_ext && t.directives.is_empty() && t.implements.is_empty() && t.fields.is_empty() && t.members.is_empty() && t.values.is_empty() && t.input_fields.is_empty() {
        t.directives.push(Directive { name: safe_name(c), args: vec![] });
    }
    t
}

pub fn schema_def(c: &mut Choices, is_ext: bool) -> SchemaDef {
    let mut s = SchemaDef {
        is_ext,
        description: if is_ext { None } else { opt_desc(c, 50) },
        directives: directives(c, 1, true),
        roots: vec![],
    };
    if !is_ext || c.bool(170) {
        let n = 1 + c.small(2);
        s.roots = (0..n).map(|_| (c.pick(&OpType::ALL), name(c))).collect();
    }
    if is_ext && s.roots.is_empty() && s.directives.is_empty() {
        s.directives.push(Directive { name: safe_name(c), args: vec![] });
    }
    s
}

pub fn directive_def(c: &mut Choices) -> DirectiveDef {
    let na = if c.bool(100) { 1 + c.small(2) } else { 0 };
    let nl = 1 + c.small(3);
    DirectiveDef {
        description: opt_desc(c, 50),
        name: name(c),
        args: (0..na).map(|_| input_value_def(c)).collect(),
        repeatable: c.bool(70),
        locations: (0..nl)
            .map(|_| {
                if c.coin() {
                    c.pick(&EXECUTABLE_LOCATIONS).to_string()
                } else {
                    c.pick(&TYPE_SYSTEM_LOCATIONS).to_string()
                }
            })
            .collect(),
    }
}

pub fn definition(c: &mut Choices, cfg: &Cfg) -> Definition {
    let e = if cfg.executable { 1 } else { 0 };
    let t = if cfg.type_system { 1 } else { 0 };
    match c.weighted(&[30 * e, 15 * e, 25 * t, 10 * t, 8 * t, 4 * t, 8 * t]) {
        0 => Definition::Operation(operation(c, cfg)),
        1 => Definition::Fragment(fragment(c, cfg)),
        2 => Definition::Type(type_def(c, false)),
        3 => Definition::Type(type_def(c, true)),
        4 => Definition::Schema(schema_def(c, false)),
        5 => Definition::Schema(schema_def(c, true)),
        _ => Definition::Directive(directive_def(c)),
    }
}

pub fn document(c: &mut Choices, cfg: &Cfg) -> Document {
    let n = 1 + c.small(5);
    let mut defs: Vec<Definition> = (0..n).map(|_| definition(c, cfg)).collect();
    // `type A` / `extend schema @d` directly followed by a `{ ... }` shorthand query would read
    // as the type's body ([lookahead != `{`] in the grammar): spell the query keyword out.
    for i in 1..defs.len() {
        let open_ended = match &defs[i - 1] {
            Definition::Type(t) => match t.kind {
                TypeKind::Object | TypeKind::Interface => t.fields.is_empty(),
                TypeKind::Enum => t.values.is_empty(),
                TypeKind::InputObject => t.input_fields.is_empty(),
                _ => false,
            },
            Definition::Schema(s) => s.roots.is_empty(),
            _ => false,
        };
        if open_ended {
            if let Definition::Operation(o) = &mut defs[i] {
                o.shorthand = false;
            }
        }
    }
    Document { defs }
}

/// Token-level mutations: delete / duplicate / swap / insert / replace.
pub fn mutate_tokens(c: &mut Choices, toks: &mut Vec<String>, max_mut: usize) -> usize {
    const INSERT: &[&str] = &[
        "{", "}", "(", ")", "[", "]", ":", "!", "$", "@", "&", "|", "=", "...", "a", "on", "type", "query", "fragment", "extend",
        "schema", "implements", "1", "1.5", "\"s\"", "\"\"\"b\"\"\"", "true", "null", "repeatable", "FIELD", "input", "enum",
        "union", "interface", "scalar", "directive", "mutation", "subscription",
    ];
    let n = c.range(1, max_mut.max(1));
    for _ in 0..n {
        if toks.is_empty() {
            toks.push(c.pick(INSERT).to_string());
            continue;
        }
        let i = c.choose(toks.len().min(65535));
        let kind = c.choose(8);
        match kind {
            0 => {
                toks.remove(i);
            }
            5 => {
                // context-crossing: put a variable where a (possibly constant) value or a type stands:
                // stays grammatical in non-const value positions, leaves the grammar in Const ones
                let cands: Vec<usize> = (1..toks.len())
                    .filter(|&k| matches!(toks[k - 1].as_str(), ":" | "=" | "[") && !is_punct(&toks[k]))
                    .collect();
                if cands.is_empty() {
                    toks.remove(i);
                } else {
                    let k = cands[c.choose(cands.len().min(65535))];
                    toks[k] = "$".to_string();
                    toks.insert(k + 1, c.pick(&["v", "a", "on", "null"]).to_string());
                }
            }
            6 | 7 => {
                // structure-aware: delete (6) or duplicate (7) a balanced bracket group, e.g. the body of a
                // definition or extension, an argument list, a list value
                let openers: Vec<usize> = (0..toks.len()).filter(|&k| matches!(toks[k].as_str(), "{" | "(" | "[")).collect();
                if openers.is_empty() {
                    toks.remove(i);
                } else {
                    let k = openers[c.choose(openers.len().min(65535))];
                    let mut depth = 0i32;
                    let mut end = toks.len() - 1;
                    for (j, t) in toks.iter().enumerate().skip(k) {
                        match t.as_str() {
                            "{" | "(" | "[" => depth += 1,
                            "}" | ")" | "]" => {
                                depth -= 1;
                                if depth == 0 {
                                    end = j;
                                    break;
                                }
                            }
                            _ => {}
                        }
                    }
                    if kind == 6 {
                        toks.drain(k..=end);
                    } else {
                        let group: Vec<String> = toks[k..=end].to_vec();
                        let at = end + 1;
                        for (n, t) in group.into_iter().enumerate() {
                            toks.insert(at + n, t);
                        }
                    }
                }
            }
            1 => {
                let t = toks[i].clone();
                toks.insert(i, t);
            }
            2 => {
                if i + 1 < toks.len() {
                    toks.swap(i, i + 1);
                } else {
                    toks.remove(i);
                }
            }
            3 => toks.insert(i, c.pick(INSERT).to_string()),
            _ => toks[i] = c.pick(INSERT).to_string(),
        }
    }
    n
}

fn is_punct(t: &str) -> bool {
    matches!(t, "{" | "}" | "(" | ")" | "[" | "]" | ":" | "!" | "$" | "@" | "&" | "|" | "=" | "...")
}

#[cfg(test)]
mod tests {
    use super::*;
    use crate::refmodel::{parser::parse_document, printer};
    #[test]
    fn generated_documents_are_grammatical_and_roundtrip() {
        let mut seed = 99u64;
        for i in 0..5000 {
            let bytes: Vec<u8> = (0..(i % 600))
                .map(|_| {
                    seed = seed.wrapping_mul(6364136223846793005).wrapping_add(1442695040888963407);
                    (seed >> 33) as u8
                })
                .collect();
            let mut c = Choices::new(&bytes);
            let d = document(&mut c, &Cfg::default());
            let text = printer::print_document(&d);
            let back = parse_document(&text).unwrap_or_else(|e| panic!("{text}\n{e:?}"));
            assert_eq!(back, d, "{text}");
            let text2 = printer::join_random(&printer::doc_tokens(&d), &mut c);
            let back2 = parse_document(&text2).unwrap_or_else(|e| panic!("{text2}\n{e:?}"));
            assert_eq!(back2, d, "{text2}");
        }
    }
}
