//! String literals that are lexically valid BY CONSTRUCTION (C06, and inside generated documents).

use crate::choices::Choices;
use crate::refmodel::ast::StrLit;
use crate::refmodel::strings;

const PLAIN: &[&str] = &[
    "a", "b", "Z", "0", " ", "  ", "x y", "é", "中", "🚀", "#", ",", "{", "}", "'", "/", "\t", "\u{FEFF}", "\u{2028}",
    "\u{00A0}", "~", "\u{7f}", "\u{85}", "$", "@", "u", "n", "\\\\u0041",
];

fn plain_char(c: &mut Choices, s: &mut String) {
    match c.weighted(&[70, 10, 10, 10]) {
        0 => s.push_str(c.pick(PLAIN)),
        1 => s.push(char::from_u32(0x20 + c.choose(0x5f) as u32).filter(|ch| *ch != '"' && *ch != '\\').unwrap_or('a')),
        2 => s.push(char::from_u32(0xA0 + c.choose(0x2000) as u32).unwrap_or('é')),
        _ => s.push(char::from_u32(0x1F300 + c.choose(0x200) as u32).unwrap_or('🚀')),
    }
}

/// `"` StringCharacter* `"`: plain characters, simple escapes, \uXXXX for non-surrogates.
pub fn quoted_literal(c: &mut Choices, max_pieces: usize) -> String {
    let n = c.small(max_pieces);
    let mut s = String::from("\"");
    for _ in 0..n {
        match c.weighted(&[50, 25, 20, 5]) {
            0 => plain_char(c, &mut s),
            1 => s.push_str(c.pick(&["\\\"", "\\\\", "\\/", "\\b", "\\f", "\\n", "\\r", "\\t"])),
            2 => {
                // \uXXXX, any non-surrogate BMP code point, upper or lower hex
                let mut v = c.u16() as u32;
                if c.bool(100) {
                    v = c.pick(&[0u32, 0x41, 0x22, 0x5c, 0x0a, 0x0d, 0xe9, 0xfeff, 0x2028, 0xffff, 0xd7ff, 0xe000, 0x7f, 0x1f]);
                }
                if (0xD800..=0xDFFF).contains(&v) {
                    v = 0xE000 + (v - 0xD800);
                }
                if c.coin() {
                    s.push_str(&format!("\\u{:04X}", v));
                } else {
                    s.push_str(&format!("\\u{:04x}", v));
                }
            }
            _ => s.push_str(c.pick(&["\\\\n", "\\\\\\\"", "\\u0041\\u0042", "\\\\u", "\\/\\/"])),
        }
    }
    s.push('"');
    s
}

/// `"""` BlockStringCharacter* `"""`: lines with chosen indentation, blank lines, mixed line
/// terminators, `\"""`, lone backslashes, quotes before the closing delimiter where legal.
pub fn block_literal(c: &mut Choices, max_lines: usize) -> String {
    let nlines = 1 + c.small(max_lines);
    let mut body = String::new();
    for i in 0..nlines {
        if i > 0 {
            body.push_str(c.pick(&["\n", "\n", "\r\n", "\r"]));
        }
        // indentation
        let ind = c.small(6);
        for _ in 0..ind {
            body.push(c.pick(&[' ', ' ', '\t']));
        }
        // content
        let pieces = c.small(5);
        for _ in 0..pieces {
            match c.weighted(&[50, 8, 8, 8, 8, 8, 5, 5]) {
                0 => plain_char(c, &mut body),
                1 => body.push_str("\\\"\"\""),
                2 => body.push('\\'),
                3 => body.push_str(c.pick(&["\\n", "\\u0041", "\\\\", "\\t"])),
                4 => body.push('"'),
                5 => body.push_str("\"\""),
                6 => body.push_str(c.pick(&[" ", "\t", "  \t"])),
                _ => body.push_str(c.pick(&["\\\"", "\\\"\"", "\\\\\\\"\"\""])),
            }
        }
    }
    // make the body lexically valid: no unescaped `"""`, and it must not end in a way that
    // merges with the closing delimiter (`"` at the end would make `""""`; a trailing
    // backslash followed by `"""` would escape the delimiter).
    let mut fixed = String::new();
    let chars: Vec<char> = body.chars().collect();
    let mut i = 0;
    let mut run = 0; // current run of unescaped quotes
    while i < chars.len() {
        let ch = chars[i];
        if ch == '\\' && chars.get(i + 1) == Some(&'"') && chars.get(i + 2) == Some(&'"') && chars.get(i + 3) == Some(&'"') {
            fixed.push_str("\\\"\"\"");
            i += 4;
            run = 0;
            continue;
        }
        if ch == '"' {
            run += 1;
            if run == 3 {
                // break the run
                fixed.push(' ');
                run = 1;
            }
            fixed.push('"');
        } else {
            run = 0;
            fixed.push(ch);
        }
        i += 1;
    }
    while fixed.ends_with('"') || fixed.ends_with('\\') {
        fixed.push(' ');
    }
    format!("\"\"\"{}\"\"\"", fixed)
}

pub fn literal(c: &mut Choices) -> StrLit {
    let block = c.bool(90);
    let raw = if block { block_literal(c, 5) } else { quoted_literal(c, 8) };
    let value = strings::token_value(&raw).expect("valid by construction");
    StrLit { value, raw, block }
}

/// A description literal (biased to short).
pub fn description(c: &mut Choices) -> StrLit {
    if c.bool(190) {
        let raw = c.pick(&["\"d\"", "\"\"", "\"\"\"d\"\"\"", "\"a b\"", "\"\"\"\n  multi\n    line\n\"\"\"", "\"\\n\""]).to_string();
        let value = strings::token_value(&raw).unwrap();
        let block = raw.starts_with("\"\"\"");
        StrLit { value, raw, block }
    } else {
        literal(c)
    }
}

#[cfg(test)]
mod tests {
    use super::*;
    use crate::refmodel::lexer::{lex_all, K};
    #[test]
    fn literals_are_lexically_valid() {
        let mut seed = 12345u64;
        for _ in 0..20000 {
            let bytes: Vec<u8> = (0..64)
                .map(|_| {
                    seed = seed.wrapping_mul(6364136223846793005).wrapping_add(1442695040888963407);
                    (seed >> 33) as u8
                })
                .collect();
            let mut c = Choices::new(&bytes);
            let q = quoted_literal(&mut c, 8);
            let t = lex_all(&q).unwrap_or_else(|e| panic!("{q:?}: {e:?}"));
            assert!(t.len() == 2 && t[0].kind == K::Str, "{q:?}");
            let b = block_literal(&mut c, 5);
            let t = lex_all(&b).unwrap_or_else(|e| panic!("{b:?}: {e:?}"));
            assert!(t.len() == 2 && t[0].kind == K::BlockStr, "{b:?} {t:?}");
        }
    }
}
