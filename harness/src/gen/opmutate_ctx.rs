//! Context-dependent mutators (child module of `opmutate`): validity that depends on WHERE a
//! shared definition is used, not on the definition itself. apollo-compiler validates a named
//! fragment once per operation and keeps several caches (validated fragments, merged field
//! sets, implementers); a fact that is wrongly cached across spread sites, operations or
//! fragments only shows when the SAME fragment is used at several sites / by several operations
//! with different outcomes. Three groups:
//!
//!  * one named fragment, several spread sites: `reuse-spread-impossible` (an additional spread
//!    where the type condition can never apply; directly, inside another fragment, or through a
//!    new wrapper fragment), `reuse-merge-conflict` (a sibling of one spread that conflicts with
//!    a field of the fragment), `n-reuse-spread` (an additional spread where it is possible);
//!  * several operations, one fragment, per-operation variable definitions:
//!    `shared-var-undefined`, `shared-var-type` (exactly one of the operations that reach the
//!    fragment lacks the variable / defines it with a type not allowed at the fragment's usage),
//!    `shared-var-unused` (an operation defines a variable that only ANOTHER operation uses),
//!    `n-clone-operation` (two operations sharing every fragment);
//!  * directives applied as their definition IN FORCE says (a schema may re-define `@skip`,
//!    `@include`, `@deprecated`, `@specifiedBy`, see `gen::builtin_redef`): `n-apply-directive`
//!    (any executable location the definition lists, twice when it is repeatable).
//!
//! As for every mutator the verdict is never derived from the mutator: the `n-*` ones are
//! calibrated to keep valid-by-construction documents valid, the others usually break exactly
//! the rule they name, and C17 asks the reference validator about the printed text.
use super::rules::{op_at, pick, sel_at};
use super::*;
use crate::gen::builtin_redef::REDEFINABLE;
use crate::gen::operation::{const_arguments, used_variables};
use std::collections::{BTreeMap, BTreeSet};

// ---------------------------------------------------------------------------- document facts

fn frag_def<'d>(doc: &'d Document, name: &str) -> Option<(usize, &'d FragmentDef)> {
    doc.defs.iter().enumerate().find_map(|(i, d)| match d {
        Definition::Fragment(f) if f.name == name => Some((i, f)),
        _ => None,
    })
}

fn spreads_in(sels: &[Selection], out: &mut Vec<String>) {
    for s in sels {
        match s {
            Selection::Field(f) => spreads_in(&f.selection_set, out),
            Selection::Inline(i) => spreads_in(&i.selection_set, out),
            Selection::Spread(sp) => out.push(sp.name.clone()),
        }
    }
}

/// fragment name -> names it spreads directly
fn frag_graph(doc: &Document) -> BTreeMap<String, Vec<String>> {
    let mut g = BTreeMap::new();
    for d in &doc.defs {
        if let Definition::Fragment(f) = d {
            let mut out = vec![];
            spreads_in(&f.selection_set, &mut out);
            g.entry(f.name.clone()).or_insert(out);
        }
    }
    g
}

fn closure(graph: &BTreeMap<String, Vec<String>>, start: Vec<String>) -> BTreeSet<String> {
    let mut seen = BTreeSet::new();
    let mut stack = start;
    while let Some(n) = stack.pop() {
        if !seen.insert(n.clone()) {
            continue;
        }
        if let Some(next) = graph.get(&n) {
            stack.extend(next.iter().cloned());
        }
    }
    seen
}

/// `from` ->* `to` in the spread graph (reflexive)
fn reaches(graph: &BTreeMap<String, Vec<String>>, from: &str, to: &str) -> bool {
    closure(graph, vec![from.to_string()]).contains(to)
}

/// fragments reachable from the definition at index `def` (an operation or a fragment)
fn def_reach(doc: &Document, graph: &BTreeMap<String, Vec<String>>, def: usize) -> BTreeSet<String> {
    let mut start = vec![];
    if let Some(set) = def_set(&doc.defs[def]) {
        spreads_in(set, &mut start);
    }
    closure(graph, start)
}

/// indices of the operations that reach fragment `name`, in document order
fn ops_reaching(doc: &Document, graph: &BTreeMap<String, Vec<String>>, name: &str) -> Vec<usize> {
    op_indices(doc).into_iter().filter(|&i| def_reach(doc, graph, i).contains(name)).collect()
}

fn value_vars(v: &Value, out: &mut BTreeSet<String>) {
    match v {
        Value::Var(n) => {
            out.insert(n.clone());
        }
        Value::List(l) => l.iter().for_each(|x| value_vars(x, out)),
        Value::Object(o) => o.iter().for_each(|(_, x)| value_vars(x, out)),
        _ => {}
    }
}

fn own_vars_sel(sels: &[Selection], out: &mut BTreeSet<String>) {
    let dirs = |ds: &[Directive], out: &mut BTreeSet<String>| ds.iter().for_each(|d| d.args.iter().for_each(|(_, v)| value_vars(v, out)));
    for s in sels {
        match s {
            Selection::Field(f) => {
                f.args.iter().for_each(|(_, v)| value_vars(v, out));
                dirs(&f.directives, out);
                own_vars_sel(&f.selection_set, out);
            }
            Selection::Inline(i) => {
                dirs(&i.directives, out);
                own_vars_sel(&i.selection_set, out);
            }
            Selection::Spread(sp) => dirs(&sp.directives, out),
        }
    }
}

/// variables used in the body of fragment `f` itself (not through the fragments it spreads)
fn own_vars(f: &FragmentDef) -> BTreeSet<String> {
    let mut out = BTreeSet::new();
    f.directives.iter().for_each(|d| d.args.iter().for_each(|(_, v)| value_vars(v, &mut out)));
    own_vars_sel(&f.selection_set, &mut out);
    out
}

/// variables used by fragment `name` or by any fragment it reaches
fn transitive_vars(doc: &Document, graph: &BTreeMap<String, Vec<String>>, name: &str) -> BTreeSet<String> {
    let mut out = BTreeSet::new();
    for n in closure(graph, vec![name.to_string()]) {
        if let Some((_, f)) = frag_def(doc, &n) {
            out.extend(own_vars(f));
        }
    }
    out
}

fn used_by_op(doc: &Document, op: usize) -> Vec<String> {
    let frags: Vec<&FragmentDef> = doc.defs.iter().rev().filter_map(|d| if let Definition::Fragment(f) = d { Some(f) } else { None }).collect();
    match &doc.defs[op] {
        Definition::Operation(o) => used_variables(o, &frags),
        _ => vec![],
    }
}

/// Every operation gets a definition for each variable it uses (transitively) and does not
/// define: a copy of another operation's definition of that name, or of one of `extra`.
fn complete_var_defs(doc: &mut Document, extra: &[VarDef]) {
    let mut known: BTreeMap<String, VarDef> = BTreeMap::new();
    for d in &doc.defs {
        if let Definition::Operation(o) = d {
            for v in &o.vars {
                known.entry(v.name.clone()).or_insert_with(|| v.clone());
            }
        }
    }
    for v in extra {
        known.entry(v.name.clone()).or_insert_with(|| v.clone());
    }
    for i in op_indices(doc) {
        let used = used_by_op(doc, i);
        let o = op_at(doc, i);
        for n in used {
            if !o.vars.iter().any(|v| v.name == n) {
                if let Some(v) = known.get(&n) {
                    o.vars.push(v.clone());
                    o.shorthand = false;
                }
            }
        }
    }
}

fn owner_set<'s>(sites: &'s Sites, p: &Path) -> Option<&'s SetSite> {
    let init = &p.idx[..p.idx.len().saturating_sub(1)];
    sites.sets.iter().find(|s| s.path.def == p.def && s.path.idx == init)
}

fn host_fragment(doc: &Document, def: usize) -> Option<String> {
    match &doc.defs[def] {
        Definition::Fragment(f) => Some(f.name.clone()),
        _ => None,
    }
}

fn fresh_name(doc: &Document, prefix: &str) -> String {
    let mut k = doc.defs.len();
    loop {
        let n = format!("{}{}", prefix, k);
        let taken = doc.defs.iter().any(|d| match d {
            Definition::Fragment(f) => f.name == n,
            Definition::Operation(o) => o.name.as_deref() == Some(n.as_str()),
            _ => false,
        });
        if !taken {
            return n;
        }
        k += 1;
    }
}

fn insert_at_random(c: &mut Choices, set: &mut Vec<Selection>, sel: Selection) {
    let at = c.choose(set.len() + 1);
    set.insert(at, sel);
}

fn spread_of(name: &str) -> Selection {
    Selection::Spread(FragmentSpread { name: name.to_string(), directives: vec![] })
}

/// (name, type condition) of the fragment definitions with a composite type condition
fn composite_fragments(m: &M) -> Vec<(String, String)> {
    let mut out: Vec<(String, String)> = vec![];
    for d in &m.doc.defs {
        if let Definition::Fragment(f) = d {
            if m.s.is_composite(&f.type_condition) && !out.iter().any(|(n, _)| *n == f.name) {
                out.push((f.name.clone(), f.type_condition.clone()));
            }
        }
    }
    out
}

// ---------------------------------------------------------------------------- one fragment, several sites

/// Move a run of sibling selections into a new fragment on the parent type and spread it in
/// their place (never among the root selections of a subscription). Nothing about the document's
/// validity changes: the same fields are collected at the same places.
fn extract_fragment(m: &mut M) -> Option<String> {
    let sets: Vec<SetSite> = m.sites.sets.iter().filter(|s| !s.sub_root && s.parent.is_some()).cloned().collect();
    let site = pick(m.c, &sets).cloned()?;
    let name = fresh_name(m.doc, "Ex");
    let set = set_mut(m.doc, &site.path);
    if set.is_empty() {
        return None;
    }
    let a = m.c.choose(set.len());
    let b = a + 1 + m.c.choose(set.len() - a);
    let body: Vec<Selection> = set.drain(a..b).collect();
    set.insert(a, spread_of(&name));
    let def = Definition::Fragment(FragmentDef { name: name.clone(), type_condition: site.parent.clone().unwrap(), directives: vec![], selection_set: body });
    // appended: the paths of the other definitions stay valid
    m.doc.defs.push(def);
    m.sites = sites(m.doc, m.s);
    Some(name)
}

pub(super) fn n_extract_fragment(m: &mut M) -> bool {
    extract_fragment(m).is_some()
}

/// `...F` at one more place where `F` CAN be spread (type condition overlaps the parent type, no
/// cycle, not among the root selections of a subscription). `only`: restrict to this fragment;
/// `in_ops`: only sets written directly in one of these operation definitions.
fn add_valid_reuse(m: &mut M, only: Option<&str>, in_ops: Option<&[usize]>) -> Option<String> {
    let graph = frag_graph(m.doc);
    let frs: Vec<(String, String)> = composite_fragments(m).into_iter().filter(|(n, _)| only.map_or(true, |o| o == n)).collect();
    let mut cands: Vec<(SetSite, String)> = vec![];
    for st in &m.sites.sets {
        let Some(p) = &st.parent else { continue };
        if st.sub_root {
            continue;
        }
        if let Some(ops) = in_ops {
            if st.in_fragment || !ops.contains(&st.path.def) {
                continue;
            }
        }
        let ov = overlapping_types(m.s, p);
        let host = host_fragment(m.doc, st.path.def);
        for (f, tc) in &frs {
            if ov.contains(tc) && host.as_ref().map_or(true, |h| !reaches(&graph, f, h)) {
                cands.push((st.clone(), f.clone()));
            }
        }
    }
    let (site, f) = pick(m.c, &cands).cloned()?;
    let set = set_mut(m.doc, &site.path);
    insert_at_random(m.c, set, spread_of(&f));
    complete_var_defs(m.doc, &[]);
    m.sites = sites(m.doc, m.s);
    Some(f)
}

pub(super) fn n_reuse_spread(m: &mut M) -> bool {
    if composite_fragments(m).is_empty() || m.c.bool(40) {
        let _ = extract_fragment(m);
    }
    add_valid_reuse(m, None, None).is_some()
}

pub(super) fn reuse_spread_impossible(m: &mut M) -> bool {
    if composite_fragments(m).is_empty() || m.c.bool(40) {
        let _ = extract_fragment(m);
    }
    let graph = frag_graph(m.doc);
    let frs = composite_fragments(m);
    let mut cands: Vec<(SetSite, String)> = vec![];
    for st in &m.sites.sets {
        let Some(p) = &st.parent else { continue };
        let ov = overlapping_types(m.s, p);
        let host = host_fragment(m.doc, st.path.def);
        for (f, tc) in &frs {
            if !ov.contains(tc) && host.as_ref().map_or(true, |h| !reaches(&graph, f, h)) {
                cands.push((st.clone(), f.clone()));
            }
        }
    }
    // ... or below a field selected for the purpose: `g { ...F }` where the type of `g` has no
    // possible type in common with F's type condition
    let mut fresh: Vec<(SetSite, FieldDef, String)> = vec![];
    if cands.is_empty() || m.c.bool(80) {
        for st in &m.sites.sets {
            let Some(p) = &st.parent else { continue };
            if st.sub_root {
                continue;
            }
            let host = host_fragment(m.doc, st.path.def);
            for g in m.s.get(p).map(|t| t.fields.clone()).unwrap_or_default() {
                let inner = g.ty.inner_name().to_string();
                if !m.s.is_composite(&inner) {
                    continue;
                }
                let ov = overlapping_types(m.s, &inner);
                for (f, tc) in &frs {
                    if !ov.contains(tc) && host.as_ref().map_or(true, |h| !reaches(&graph, f, h)) {
                        fresh.push((st.clone(), g.clone(), f.clone()));
                    }
                }
            }
        }
    }
    let (site, f) = if let Some((st, g, f)) = pick(m.c, &fresh).cloned() {
        let alias = fresh_name(m.doc, "zr");
        let mut field = simple_field(m.c, m.s, &g, Some(alias));
        field.selection_set.clear();
        let set = set_mut(m.doc, &st.path);
        let at = m.c.choose(set.len() + 1);
        set.insert(at, Selection::Field(field));
        let mut path = st.path.clone();
        path.idx.push(at);
        (SetSite { path, parent: Some(g.ty.inner_name().to_string()), sub_root: false, in_fragment: st.in_fragment }, f)
    } else {
        let Some(x) = pick(m.c, &cands).cloned() else { return false };
        x
    };
    let parent = site.parent.clone().unwrap();
    if m.c.bool(80) {
        // through a new fragment on the parent type whose only selection is the spread
        let w = fresh_name(m.doc, "Wr");
        let set = set_mut(m.doc, &site.path);
        insert_at_random(m.c, set, spread_of(&w));
        let def = Definition::Fragment(FragmentDef { name: w, type_condition: parent, directives: vec![], selection_set: vec![spread_of(&f)] });
        let at = m.c.choose(m.doc.defs.len() + 1);
        m.doc.defs.insert(at, def);
    } else {
        let set = set_mut(m.doc, &site.path);
        insert_at_random(m.c, set, spread_of(&f));
    }
    complete_var_defs(m.doc, &[]);
    true
}

/// fields a fragment contributes to the set it is spread in (through inline fragments; nested
/// spreads are not followed): (response key, field name)
fn top_fields(sels: &[Selection], out: &mut Vec<(String, String)>) {
    for s in sels {
        match s {
            Selection::Field(f) => out.push((f.response_key().to_string(), f.name.clone())),
            Selection::Inline(i) => top_fields(&i.selection_set, out),
            Selection::Spread(_) => {}
        }
    }
}

pub(super) fn reuse_merge_conflict(m: &mut M) -> bool {
    // make sure some fragment has two spread sites half of the time: the conflict is then placed
    // beside ONE of them
    if composite_fragments(m).is_empty() || m.c.bool(40) {
        let _ = extract_fragment(m);
    }
    if m.c.coin() {
        let _ = add_valid_reuse(m, None, None);
    }
    let mut cands: Vec<(Path, String, String, FieldDef)> = vec![]; // spread path, parent, key, conflicting field of the parent
    for (p, parent) in &m.sites.spreads {
        let Some(parent) = parent else { continue };
        if owner_set(&m.sites, p).map_or(true, |o| o.sub_root) {
            continue;
        }
        let Selection::Spread(sp) = sel_at(m.doc, p) else { continue };
        let Some((_, fd)) = frag_def(m.doc, &sp.name) else { continue };
        let mut tf = vec![];
        top_fields(&fd.selection_set, &mut tf);
        let pf = m.s.get(parent).map(|t| t.fields.clone()).unwrap_or_default();
        for (key, name) in tf {
            for g in &pf {
                if g.name != name {
                    cands.push((p.clone(), parent.clone(), key.clone(), g.clone()));
                }
            }
            if name != "__typename" {
                if let Some(g) = m.s.field(parent, "__typename") {
                    cands.push((p.clone(), parent.clone(), key.clone(), g));
                }
            }
        }
    }
    let Some((p, _, key, g)) = pick(m.c, &cands).cloned() else { return false };
    let f = simple_field(m.c, m.s, &g, Some(key));
    let (_, init) = p.idx.split_last().unwrap();
    let set = set_mut(m.doc, &Path { def: p.def, idx: init.to_vec() });
    insert_at_random(m.c, set, Selection::Field(f));
    true
}

// ---------------------------------------------------------------------------- several operations, one fragment

/// A copy of operation `i` under a new name, somewhere in the document. Both then reach the same
/// fragments with their own variable definitions.
fn clone_operation(m: &mut M, i: usize) -> usize {
    let name = fresh_name(m.doc, "Cl");
    let o = op_at(m.doc, i);
    if o.name.is_none() {
        o.name = Some(format!("{}o", name));
        o.shorthand = false;
    }
    let mut copy = o.clone();
    copy.name = Some(name);
    let at = m.c.choose(m.doc.defs.len() + 1);
    m.doc.defs.insert(at, Definition::Operation(copy));
    m.sites = sites(m.doc, m.s);
    at
}

pub(super) fn n_clone_operation(m: &mut M) -> bool {
    let ops = op_indices(m.doc);
    let Some(&i) = pick(m.c, &ops) else { return false };
    clone_operation(m, i);
    true
}

pub struct Shared {
    pub frag: String,
    pub var: String,
}

/// A `@include(if: $sv)` / `@skip(if: $sv)` application, if the definition in force has the
/// built-in argument and allows FIELD.
fn conditional_on_var(m: &mut M, var: &str) -> Option<Directive> {
    let names = if m.c.coin() { ["include", "skip"] } else { ["skip", "include"] };
    for n in names {
        if let Some(d) = m.s.directive(n) {
            let arg_ok = d.args.len() == 1 && d.args[0].name == "if" && d.args[0].ty == Type::named("Boolean").non_null();
            if arg_ok && d.locations.iter().any(|l| l == "FIELD") {
                return Some(Directive { name: n.to_string(), args: vec![("if".into(), Value::Var(var.to_string()))] });
            }
        }
    }
    None
}

/// Make some fragment use a variable: a conditional directive on one of its fields, or, when the
/// document has no usable fragment, a new fragment `{ __typename @include(if: $sv) }` spread at
/// some selection set.
fn add_fragment_variable(m: &mut M) -> Option<Shared> {
    let var = "sv";
    let dir = conditional_on_var(m, var)?;
    let sv = VarDef { name: var.to_string(), ty: Type::named("Boolean").non_null(), default: None, directives: vec![] };
    let in_frag: Vec<FieldSite> = m
        .sites
        .fields
        .iter()
        .filter(|f| !f.sub_root && matches!(m.doc.defs[f.path.def], Definition::Fragment(_)))
        .filter(|f| match sel_at(m.doc, &f.path) {
            Selection::Field(x) => !x.directives.iter().any(|d| d.name == dir.name),
            _ => false,
        })
        .cloned()
        .collect();
    let frag = if let (Some(site), true) = (pick(m.c, &in_frag).cloned(), m.c.bool(200)) {
        field_mut(m.doc, &site.path).directives.push(dir);
        host_fragment(m.doc, site.path.def)?
    } else {
        let sets: Vec<SetSite> = m.sites.sets.iter().filter(|s| !s.sub_root && s.parent.is_some()).cloned().collect();
        let site = pick(m.c, &sets).cloned()?;
        let name = fresh_name(m.doc, "Sf");
        let mut tn = match typename() {
            Selection::Field(f) => f,
            _ => unreachable!(),
        };
        tn.directives.push(dir);
        let set = set_mut(m.doc, &site.path);
        insert_at_random(m.c, set, spread_of(&name));
        m.doc.defs.push(Definition::Fragment(FragmentDef { name: name.clone(), type_condition: site.parent.clone().unwrap(), directives: vec![], selection_set: vec![Selection::Field(tn)] }));
        name
    };
    complete_var_defs(m.doc, &[sv]);
    m.sites = sites(m.doc, m.s);
    Some(Shared { frag, var: var.to_string() })
}

/// A fragment that uses a variable (itself or through fragments it spreads) and is reached by at
/// least two operations, each defining the variable; created from what the document has when it
/// is not there yet (one more spread in another operation, else a copy of the operation).
fn ensure_shared(m: &mut M) -> Option<Shared> {
    let graph = frag_graph(m.doc);
    let mut shared: Vec<(String, String)> = vec![];
    let mut single: Vec<(String, String)> = vec![];
    for (f, _) in composite_fragments(m) {
        let n = ops_reaching(m.doc, &graph, &f).len();
        for v in transitive_vars(m.doc, &graph, &f) {
            if n >= 2 {
                shared.push((f.clone(), v));
            } else if n == 1 {
                single.push((f.clone(), v));
            }
        }
    }
    if let Some((frag, var)) = pick(m.c, &shared).cloned() {
        return Some(Shared { frag, var });
    }
    let sh = match pick(m.c, &single).cloned() {
        Some((frag, var)) => Shared { frag, var },
        None => add_fragment_variable(m)?,
    };
    let graph = frag_graph(m.doc);
    let reaching = ops_reaching(m.doc, &graph, &sh.frag);
    if reaching.len() >= 2 {
        return Some(sh);
    }
    let &first = reaching.first()?;
    let others: Vec<usize> = op_indices(m.doc).into_iter().filter(|i| *i != first).collect();
    if others.is_empty() || add_valid_reuse(m, Some(&sh.frag), Some(&others)).is_none() {
        clone_operation(m, first);
    }
    Some(sh)
}

/// One of the operations that reach the shared fragment: a LATER one two times in three.
fn one_reaching_op(m: &mut M, sh: &Shared) -> Option<usize> {
    let graph = frag_graph(m.doc);
    let ops = ops_reaching(m.doc, &graph, &sh.frag);
    if ops.is_empty() {
        return None;
    }
    let k = if ops.len() > 1 && m.c.bool(170) { 1 + m.c.choose(ops.len() - 1) } else { 0 };
    Some(ops[k])
}

pub(super) fn shared_var_undefined(m: &mut M) -> bool {
    let Some(sh) = ensure_shared(m) else { return false };
    let Some(i) = one_reaching_op(m, &sh) else { return false };
    let o = op_at(m.doc, i);
    let before = o.vars.len();
    o.vars.retain(|v| v.name != sh.var);
    o.vars.len() < before
}

pub(super) fn shared_var_type(m: &mut M) -> bool {
    let Some(sh) = ensure_shared(m) else { return false };
    let Some(i) = one_reaching_op(m, &sh) else { return false };
    // the positions where the fragments below `sh.frag` use the variable
    let graph = frag_graph(m.doc);
    let below = closure(&graph, vec![sh.frag.clone()]);
    let frag_defs: Vec<usize> = frag_indices(m.doc).into_iter().filter(|&d| host_fragment(m.doc, d).map_or(false, |n| below.contains(&n))).collect();
    let mut positions: Vec<(Type, bool)> = vec![];
    let var = sh.var.clone();
    let s = m.s;
    walk_values(m.doc, s, &mut |v, t, hd, _, cx| {
        if frag_defs.contains(&cx.def) && matches!(v, Value::Var(n) if *n == var) {
            positions.push((t.clone(), hd));
        }
        false
    });
    let strict_position = positions.iter().any(|(t, hd)| t.is_non_null() && !hd);
    let mode = m.c.choose(4);
    let o = op_at(m.doc, i);
    let Some(v) = o.vars.iter_mut().find(|v| v.name == sh.var) else { return false };
    let old = v.ty.clone();
    let other = |t: &Type| -> Type {
        fn rename(t: &Type, n: &str) -> Type {
            match t {
                Type::NonNull(i) => rename(i, n).non_null(),
                Type::List(i) => Type::List(Box::new(rename(i, n))),
                Type::Named(_) => Type::named(n),
            }
        }
        rename(t, if matches!(t.inner_name(), "Int" | "Float" | "ID") { "Boolean" } else { "Int" })
    };
    match mode {
        // wrong nullability for the position
        0 if strict_position && old.is_non_null() => {
            v.ty = old.nullable().clone();
            v.default = None;
        }
        // a `null` default does not make a nullable variable fit a non-null position
        1 if strict_position && old.is_non_null() => {
            v.ty = old.nullable().clone();
            v.default = Some(Value::Null);
        }
        2 => {
            v.ty = Type::List(Box::new(old));
            v.default = None;
        }
        _ => {
            v.ty = other(&old);
            v.default = None;
        }
    }
    true
}

/// The operations that share a fragment need not agree on a variable's definition: ONE of them
/// declares the variable with a stricter (non-null) type, which is allowed wherever the original
/// type is. A `null` default is dropped with the nullability.
pub(super) fn n_shared_var_stricter(m: &mut M) -> bool {
    let Some(sh) = ensure_shared(m) else { return false };
    let Some(i) = one_reaching_op(m, &sh) else { return false };
    let o = op_at(m.doc, i);
    let Some(v) = o.vars.iter_mut().find(|v| v.name == sh.var) else { return false };
    if v.ty.is_non_null() {
        return true; // the operations share the fragment; nothing to tighten
    }
    v.ty = v.ty.clone().non_null();
    if v.default == Some(Value::Null) {
        v.default = None;
    }
    true
}

/// Names of the fragments reachable from fragment `name` (itself included).
pub(super) fn reachable_fragments(doc: &Document, name: &str) -> Vec<String> {
    closure(&frag_graph(doc), vec![name.to_string()]).into_iter().collect()
}

/// An operation defines a variable that it never uses, while ANOTHER operation does use a
/// variable of that name (through a fragment where possible): "All Variables Used" is a
/// per-operation rule.
pub(super) fn shared_var_unused(m: &mut M) -> bool {
    let graph = frag_graph(m.doc);
    let ops = op_indices(m.doc);
    // (defining operation, variable, used through a fragment)
    let mut vars: Vec<(usize, VarDef, bool)> = vec![];
    for &i in &ops {
        let mut through: BTreeSet<String> = BTreeSet::new();
        for f in def_reach(m.doc, &graph, i) {
            if let Some((_, fd)) = frag_def(m.doc, &f) {
                through.extend(own_vars(fd));
            }
        }
        if let Definition::Operation(o) = &m.doc.defs[i] {
            for v in &o.vars {
                vars.push((i, v.clone(), through.contains(&v.name)));
            }
        }
    }
    if vars.is_empty() {
        // no variable anywhere: introduce one inside a fragment
        let Some(sh) = add_fragment_variable(m) else { return false };
        let graph = frag_graph(m.doc);
        for i in ops_reaching(m.doc, &graph, &sh.frag) {
            if let Definition::Operation(o) = &m.doc.defs[i] {
                if let Some(v) = o.vars.iter().find(|v| v.name == sh.var) {
                    vars.push((i, v.clone(), true));
                }
            }
        }
    }
    let via_fragment: Vec<(usize, VarDef, bool)> = vars.iter().filter(|x| x.2).cloned().collect();
    let pool = if !via_fragment.is_empty() && m.c.bool(200) { via_fragment } else { vars };
    let Some((_, var, _)) = pick(m.c, &pool).cloned() else { return false };
    let idle: Vec<usize> = op_indices(m.doc).into_iter().filter(|&j| !used_by_op(m.doc, j).contains(&var.name)).filter(|&j| matches!(&m.doc.defs[j], Definition::Operation(o) if !o.vars.iter().any(|v| v.name == var.name))).collect();
    if let (Some(&j), true) = (pick(m.c, &idle), m.c.bool(170)) {
        let o = op_at(m.doc, j);
        o.vars.push(var);
        o.shorthand = false;
        return true;
    }
    // a new operation that defines the variable and selects `__typename`
    if m.s.query.is_none() {
        return false;
    }
    for o in ops_mut(m.doc) {
        if o.name.is_none() {
            o.name = Some("Anon".into());
            o.shorthand = false;
        }
    }
    let name = fresh_name(m.doc, "Idle");
    let def = Definition::Operation(OperationDef { op: OpType::Query, shorthand: false, name: Some(name), vars: vec![var], directives: vec![], selection_set: vec![typename()] });
    let at = m.c.choose(m.doc.defs.len() + 1);
    m.doc.defs.insert(at, def);
    true
}

// ---------------------------------------------------------------------------- directives by definition

#[derive(Clone, Debug)]
enum DirSite {
    Selection(Path),
    Operation(usize),
    Fragment(usize),
    Variable(usize, usize),
}

fn dir_list<'d>(doc: &'d mut Document, site: &DirSite) -> &'d mut Vec<Directive> {
    match site {
        DirSite::Selection(p) => match sel_mut(doc, p) {
            Selection::Field(f) => &mut f.directives,
            Selection::Inline(i) => &mut i.directives,
            Selection::Spread(s) => &mut s.directives,
        },
        DirSite::Operation(i) => {
            let o = op_at(doc, *i);
            o.shorthand = false;
            &mut o.directives
        }
        DirSite::Fragment(i) => match &mut doc.defs[*i] {
            Definition::Fragment(f) => &mut f.directives,
            _ => panic!("not a fragment"),
        },
        DirSite::Variable(i, k) => &mut op_at(doc, *i).vars[*k].directives,
    }
}

/// One more application of a directive at an executable location its definition lists (constant
/// arguments); two when it is repeatable, half of the time. Re-defined built-ins are preferred.
/// `@skip` / `@include` are never put on a root selection of a subscription.
pub(super) fn n_apply_directive(m: &mut M) -> bool {
    // (site, location, conditional directives forbidden)
    let mut places: Vec<(DirSite, &'static str, bool)> = vec![];
    for f in &m.sites.fields {
        places.push((DirSite::Selection(f.path.clone()), "FIELD", f.sub_root));
    }
    for (p, _) in &m.sites.inlines {
        places.push((DirSite::Selection(p.clone()), "INLINE_FRAGMENT", owner_set(&m.sites, p).map_or(true, |o| o.sub_root)));
    }
    for (p, _) in &m.sites.spreads {
        places.push((DirSite::Selection(p.clone()), "FRAGMENT_SPREAD", owner_set(&m.sites, p).map_or(true, |o| o.sub_root)));
    }
    for (i, d) in m.doc.defs.iter().enumerate() {
        match d {
            Definition::Operation(o) => {
                let loc = match o.op {
                    OpType::Query => "QUERY",
                    OpType::Mutation => "MUTATION",
                    OpType::Subscription => "SUBSCRIPTION",
                };
                places.push((DirSite::Operation(i), loc, false));
                for k in 0..o.vars.len() {
                    places.push((DirSite::Variable(i, k), "VARIABLE_DEFINITION", false));
                }
            }
            Definition::Fragment(_) => places.push((DirSite::Fragment(i), "FRAGMENT_DEFINITION", false)),
            _ => {}
        }
    }
    let mut redefined: Vec<(DirSite, DirectiveDef)> = vec![];
    let mut plain: Vec<(DirSite, DirectiveDef)> = vec![];
    for (site, loc, no_cond) in places {
        let present: Vec<String> = dir_list_ref(m.doc, &site).iter().map(|d| d.name.clone()).collect();
        for d in m.s.directives.values() {
            if !d.locations.iter().any(|l| l == loc) {
                continue;
            }
            if no_cond && (d.name == "skip" || d.name == "include") {
                continue;
            }
            if !d.repeatable && present.contains(&d.name) {
                continue;
            }
            if REDEFINABLE.contains(&d.name.as_str()) && m.s.user_directives.contains(&d.name) {
                redefined.push((site.clone(), d.clone()));
            } else {
                plain.push((site.clone(), d.clone()));
            }
        }
    }
    let cands = if !redefined.is_empty() && (plain.is_empty() || m.c.bool(200)) { redefined } else { plain };
    let Some((site, def)) = pick(m.c, &cands).cloned() else { return false };
    let n = if def.repeatable && m.c.coin() { 2 } else { 1 };
    for _ in 0..n {
        let args = const_arguments(m.c, m.s, &def.args);
        let list = dir_list(m.doc, &site);
        let at = m.c.choose(list.len() + 1);
        list.insert(at, Directive { name: def.name.clone(), args });
    }
    true
}

fn dir_list_ref<'d>(doc: &'d Document, site: &DirSite) -> &'d [Directive] {
    match site {
        DirSite::Selection(p) => match sel_at(doc, p) {
            Selection::Field(f) => &f.directives,
            Selection::Inline(i) => &i.directives,
            Selection::Spread(s) => &s.directives,
        },
        DirSite::Operation(i) => match &doc.defs[*i] {
            Definition::Operation(o) => &o.directives,
            _ => &[],
        },
        DirSite::Fragment(i) => match &doc.defs[*i] {
            Definition::Fragment(f) => &f.directives,
            _ => &[],
        },
        DirSite::Variable(i, k) => match &doc.defs[*i] {
            Definition::Operation(o) => &o.vars[*k].directives,
            _ => &[],
        },
    }
}
