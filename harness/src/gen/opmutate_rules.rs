//! The mutators themselves (child module of `opmutate`).
use super::copy;
use super::ctx;
use super::*;

type Rule = fn(&mut M) -> bool;

/// (name, rule). Names starting with `n-` preserve validity.
pub const MUTATORS: &[(&str, Rule)] = &[
    ("op-name-dup", op_name_dup),
    ("anon-plus-other", anon_plus_other),
    ("sub-two-roots", sub_two_roots),
    ("sub-dup-root", sub_dup_root),
    ("sub-typename", sub_typename),
    ("sub-conditional", sub_conditional),
    ("root-undefined", root_undefined),
    ("field-undefined", field_undefined),
    ("leaf-subselection", leaf_subselection),
    ("composite-no-subselection", composite_no_subselection),
    ("arg-unknown", arg_unknown),
    ("arg-dup", arg_dup),
    ("arg-required-missing", arg_required_missing),
    ("frag-name-dup", frag_name_dup),
    ("frag-type-unknown", frag_type_unknown),
    ("frag-on-leaf", frag_on_leaf),
    ("frag-unused", frag_unused),
    ("frag-undefined", frag_undefined),
    ("frag-cycle", frag_cycle),
    ("spread-impossible", spread_impossible),
    ("merge-name", merge_name),
    ("merge-args", merge_args),
    ("merge-args-list-length", merge_args_list_length),
    ("merge-shape", merge_shape),
    ("merge-parent-nonexclusive", merge_parent_nonexclusive),
    ("value-wrong-kind", value_wrong_kind),
    ("value-int-range", value_int_range),
    ("value-null-nonnull", value_null_nonnull),
    ("value-list-for-nonlist", value_list_for_nonlist),
    ("input-field-unknown", input_field_unknown),
    ("input-field-missing", input_field_missing),
    ("input-field-dup", input_field_dup),
    ("var-dup", var_dup),
    ("var-output-type", var_output_type),
    ("var-undefined", var_undefined),
    ("var-unused", var_unused),
    ("var-type-change", var_type_change),
    ("var-default-null", var_default_null),
    ("var-nested-nullable", var_nested_nullable),
    ("dir-unknown", dir_unknown),
    ("dir-location", dir_location),
    ("dir-dup", dir_dup),
    ("exec-only", exec_only),
    ("reuse-spread-impossible", ctx::reuse_spread_impossible),
    ("reuse-merge-conflict", ctx::reuse_merge_conflict),
    ("shared-var-undefined", ctx::shared_var_undefined),
    ("shared-var-type", ctx::shared_var_type),
    ("shared-var-unused", ctx::shared_var_unused),
    ("merge-copy-conflict", copy::merge_copy_conflict),
    ("var-list-position", copy::var_list_position),
    ("n-reorder-defs", n_reorder_defs),
    ("n-wrap-inline", n_wrap_inline),
    ("n-dup-selection", n_dup_selection),
    ("n-add-typename", n_add_typename),
    ("n-reorder-args", n_reorder_args),
    ("n-reorder-selections", n_reorder_selections),
    ("n-extract-fragment", ctx::n_extract_fragment),
    ("n-reuse-spread", ctx::n_reuse_spread),
    ("n-clone-operation", ctx::n_clone_operation),
    ("n-shared-var-stricter", ctx::n_shared_var_stricter),
    ("n-apply-directive", ctx::n_apply_directive),
    ("n-merge-copy", copy::n_merge_copy),
];

/// Apply one mutator chosen by `c`; a mutator that finds no site is replaced by another random
/// choice (a few times), then by the following ones in order.
pub fn mutate(c: &mut Choices, doc: &mut Document, s: &RefSchema) -> Option<&'static str> {
    for _ in 0..6 {
        let (name, rule) = MUTATORS[c.choose(MUTATORS.len())];
        if mutate_with(c, doc, s, rule) {
            return Some(name);
        }
    }
    let start = c.choose(MUTATORS.len());
    for k in 0..MUTATORS.len() {
        let (name, rule) = MUTATORS[(start + k) % MUTATORS.len()];
        if mutate_with(c, doc, s, rule) {
            return Some(name);
        }
    }
    None
}

/// Apply one validity-preserving (`n-*`) mutation chosen by `c`.
pub fn mutate_neutral(c: &mut Choices, doc: &mut Document, s: &RefSchema) -> Option<&'static str> {
    let neutral: Vec<(&'static str, Rule)> = MUTATORS.iter().filter(|(n, _)| n.starts_with("n-")).cloned().collect();
    let start = c.choose(neutral.len());
    for k in 0..neutral.len() {
        let (name, rule) = neutral[(start + k) % neutral.len()];
        if mutate_with(c, doc, s, rule) {
            return Some(name);
        }
    }
    None
}

pub fn mutate_with(c: &mut Choices, doc: &mut Document, s: &RefSchema, rule: Rule) -> bool {
    let st = sites(doc, s);
    let mut m = M { c, doc, s, sites: st };
    rule(&mut m)
}

pub(super) fn pick<'v, T>(c: &mut Choices, v: &'v [T]) -> Option<&'v T> {
    if v.is_empty() {
        None
    } else {
        Some(&v[c.choose(v.len())])
    }
}

// ---------------------------------------------------------------------------- operations

fn op_name_dup(m: &mut M) -> bool {
    let mut ops = ops_mut(m.doc);
    let named: Vec<usize> = (0..ops.len()).filter(|&i| ops[i].name.is_some()).collect();
    if named.len() >= 2 {
        let n = ops[named[0]].name.clone();
        ops[named[1]].name = n;
        return true;
    }
    if named.len() == 1 {
        let clone = ops[named[0]].clone();
        m.doc.defs.push(Definition::Operation(clone));
        return true;
    }
    false
}

fn anon_plus_other(m: &mut M) -> bool {
    let q = m.s.query.clone();
    if q.is_none() {
        return false;
    }
    let mut ops = ops_mut(m.doc);
    if ops.len() >= 2 && m.c.coin() {
        let i = m.c.choose(ops.len());
        ops[i].name = None;
        return true;
    }
    m.doc.defs.push(Definition::Operation(OperationDef { op: OpType::Query, shorthand: m.c.coin(), name: None, vars: vec![], directives: vec![], selection_set: vec![typename()] }));
    true
}

/// root-level set sites of subscription operations / fragments on the subscription type
fn sub_root_sets(m: &M) -> Vec<SetSite> {
    m.sites.sets.iter().filter(|x| x.sub_root && x.parent.is_some() && x.parent == m.s.subscription).cloned().collect()
}

fn sub_two_roots(m: &mut M) -> bool {
    let sets = sub_root_sets(m);
    let Some(site) = pick(m.c, &sets).cloned() else { return false };
    let root = site.parent.clone().unwrap();
    let fields = m.s.get(&root).map(|t| t.fields.clone()).unwrap_or_default();
    let Some(def) = pick(m.c, &fields).cloned() else { return false };
    let f = simple_field(m.c, m.s, &def, Some("zz1".into()));
    set_mut(m.doc, &site.path).push(Selection::Field(f));
    true
}

/// paths of the selections (fields, inline fragments, spreads) at the root level of a subscription
fn sub_root_selections(m: &M) -> Vec<Path> {
    let mut cands: Vec<Path> = m.sites.fields.iter().filter(|f| f.sub_root).map(|f| f.path.clone()).collect();
    for st in &m.sites.sets {
        if st.sub_root && !st.path.idx.is_empty() {
            cands.push(st.path.clone()); // an inline fragment at root level
        }
    }
    for (p, _) in &m.sites.spreads {
        let owner = Path { def: p.def, idx: p.idx[..p.idx.len() - 1].to_vec() };
        if m.sites.sets.iter().any(|s| s.sub_root && s.path.def == owner.def && s.path.idx == owner.idx) {
            cands.push(p.clone());
        }
    }
    cands
}

/// The same root selection twice (a field, an inline fragment or a spread of the same named
/// fragment): still ONE response key after collection.
fn sub_dup_root(m: &mut M) -> bool {
    let cands = sub_root_selections(m);
    let Some(p) = pick(m.c, &cands).cloned() else { return false };
    let sel = sel_mut(m.doc, &p).clone();
    let (last, init) = p.idx.split_last().unwrap();
    set_mut(m.doc, &Path { def: p.def, idx: init.to_vec() }).insert(*last, sel);
    true
}

fn sub_typename(m: &mut M) -> bool {
    let sets = sub_root_sets(m);
    let Some(site) = pick(m.c, &sets).cloned() else { return false };
    let replace = m.c.coin();
    let set = set_mut(m.doc, &site.path);
    if replace {
        *set = vec![typename()];
    } else {
        set.push(typename());
    }
    true
}

fn sub_conditional(m: &mut M) -> bool {
    // any selection at the root level of a subscription
    let cands = sub_root_selections(m);
    let Some(p) = pick(m.c, &cands).cloned() else { return false };
    let d = Directive { name: if m.c.coin() { "skip" } else { "include" }.into(), args: vec![("if".into(), Value::Bool(m.c.coin()))] };
    match sel_mut(m.doc, &p) {
        Selection::Field(f) => f.directives.push(d),
        Selection::Inline(i) => i.directives.push(d),
        Selection::Spread(s) => s.directives.push(d),
    }
    true
}

fn root_undefined(m: &mut M) -> bool {
    let missing: Vec<OpType> = [OpType::Mutation, OpType::Subscription].into_iter().filter(|o| m.s.root(*o).is_none()).collect();
    let Some(op) = pick(m.c, &missing).cloned() else { return false };
    let mut ops = ops_mut(m.doc);
    let qs: Vec<usize> = (0..ops.len()).filter(|&i| ops[i].op == OpType::Query).collect();
    let Some(&i) = pick(m.c, &qs) else { return false };
    ops[i].op = op;
    ops[i].shorthand = false;
    true
}

// ---------------------------------------------------------------------------- fields

fn field_undefined(m: &mut M) -> bool {
    let fs = m.sites.fields.clone();
    let Some(site) = pick(m.c, &fs).cloned() else { return false };
    let mode = m.c.choose(4);
    let f = field_mut(m.doc, &site.path);
    // an unknown name, a name that exists on some other type only, or a root meta-field used
    // where it does not exist (anywhere but directly on the query root type)
    match mode {
        1 if site.parent != "__Type" => f.name = "ofType".into(),
        2 => {
            f.name = "__schema".into();
            f.args.clear();
            f.selection_set = vec![typename()];
        }
        3 => {
            f.name = "__type".into();
            f.args = vec![("name".into(), Value::str("Query"))];
            f.selection_set = vec![typename()];
        }
        _ => f.name = "zzz".into(),
    }
    true
}

fn leaf_subselection(m: &mut M) -> bool {
    let fs: Vec<FieldSite> = m.sites.fields.iter().filter(|f| m.s.is_leaf(f.def.ty.inner_name())).cloned().collect();
    let Some(site) = pick(m.c, &fs).cloned() else { return false };
    field_mut(m.doc, &site.path).selection_set = vec![typename()];
    true
}

fn composite_no_subselection(m: &mut M) -> bool {
    let fs: Vec<FieldSite> = m.sites.fields.iter().filter(|f| m.s.is_composite(f.def.ty.inner_name())).cloned().collect();
    let Some(site) = pick(m.c, &fs).cloned() else { return false };
    field_mut(m.doc, &site.path).selection_set = vec![];
    true
}

// ---------------------------------------------------------------------------- arguments

fn arg_unknown(m: &mut M) -> bool {
    let fs = m.sites.fields.clone();
    let Some(site) = pick(m.c, &fs).cloned() else { return false };
    let on_directive = m.c.coin();
    let f = field_mut(m.doc, &site.path);
    if on_directive && !f.directives.is_empty() {
        f.directives[0].args.push(("zzz".into(), Value::Int("1".into())));
    } else {
        f.args.push(("zzz".into(), Value::Int("1".into())));
    }
    true
}

fn arg_dup(m: &mut M) -> bool {
    let fs: Vec<FieldSite> = m.sites.fields.clone();
    let mut cands = vec![];
    for site in fs {
        let f = field_mut(m.doc, &site.path);
        if !f.args.is_empty() || f.directives.iter().any(|d| !d.args.is_empty()) {
            cands.push(site);
        }
    }
    let Some(site) = pick(m.c, &cands).cloned() else { return false };
    let f = field_mut(m.doc, &site.path);
    if !f.args.is_empty() {
        let a = f.args[0].clone();
        f.args.push(a);
    } else {
        let d = f.directives.iter_mut().find(|d| !d.args.is_empty()).unwrap();
        let a = d.args[0].clone();
        d.args.push(a);
    }
    true
}

fn arg_required_missing(m: &mut M) -> bool {
    let fs: Vec<FieldSite> = m.sites.fields.clone();
    let mut cands: Vec<(FieldSite, usize, Option<usize>)> = vec![]; // (site, arg index, directive index)
    for site in fs {
        let f = field_mut(m.doc, &site.path).clone();
        for (i, (n, _)) in f.args.iter().enumerate() {
            if site.def.args.iter().any(|d| d.name == *n && d.ty.is_non_null() && d.default.is_none()) {
                cands.push((site.clone(), i, None));
            }
        }
        for (di, d) in f.directives.iter().enumerate() {
            if let Some(dd) = m.s.directive(&d.name) {
                for (i, (n, _)) in d.args.iter().enumerate() {
                    if dd.args.iter().any(|a| a.name == *n && a.ty.is_non_null() && a.default.is_none()) {
                        cands.push((site.clone(), i, Some(di)));
                    }
                }
            }
        }
    }
    let Some((site, i, di)) = pick(m.c, &cands).cloned() else { return false };
    let null = m.c.coin();
    let f = field_mut(m.doc, &site.path);
    let args = match di {
        None => &mut f.args,
        Some(d) => &mut f.directives[d].args,
    };
    if null {
        args[i].1 = Value::Null;
    } else {
        args.remove(i);
    }
    true
}

// ---------------------------------------------------------------------------- fragments

fn frag_name_dup(m: &mut M) -> bool {
    let fi = frag_indices(m.doc);
    let Some(&i) = pick(m.c, &fi) else { return false };
    let d = m.doc.defs[i].clone();
    m.doc.defs.push(d);
    true
}

fn set_condition(m: &mut M, name: &str) -> bool {
    let fi = frag_indices(m.doc);
    let inl: Vec<Path> = m.sites.inlines.iter().map(|(p, _)| p.clone()).collect();
    let total = fi.len() + inl.len();
    if total == 0 {
        // add an inline fragment around the first selection of some set
        let sets = m.sites.sets.clone();
        let Some(site) = pick(m.c, &sets).cloned() else { return false };
        let set = set_mut(m.doc, &site.path);
        let first = set.remove(0);
        set.insert(0, Selection::Inline(InlineFragment { type_condition: Some(name.into()), directives: vec![], selection_set: vec![first] }));
        return true;
    }
    let k = m.c.choose(total);
    if k < fi.len() {
        if let Definition::Fragment(f) = &mut m.doc.defs[fi[k]] {
            f.type_condition = name.into();
        }
    } else if let Selection::Inline(i) = sel_mut(m.doc, &inl[k - fi.len()]) {
        i.type_condition = Some(name.into());
    }
    true
}

fn frag_type_unknown(m: &mut M) -> bool {
    set_condition(m, "Nope")
}

fn frag_on_leaf(m: &mut M) -> bool {
    let mut names: Vec<String> = vec!["Int".into(), "Boolean".into()];
    for t in &m.s.types {
        if matches!(t.kind, TypeKind::Enum | TypeKind::InputObject | TypeKind::Scalar) && !t.name.starts_with("__") {
            names.push(t.name.clone());
        }
    }
    let n = names[m.c.choose(names.len())].clone();
    set_condition(m, &n)
}

fn frag_unused(m: &mut M) -> bool {
    let Some(q) = m.s.query.clone() else { return false };
    if m.c.coin() {
        // remove one spread of a fragment that is spread exactly once
        let sp = m.sites.spreads.clone();
        if let Some((p, _)) = pick(m.c, &sp).cloned() {
            let (last, init) = p.idx.split_last().unwrap();
            let set = set_mut(m.doc, &Path { def: p.def, idx: init.to_vec() });
            if set.len() > 1 {
                set.remove(*last);
            } else {
                set[*last] = typename();
            }
            return true;
        }
    }
    m.doc.defs.push(Definition::Fragment(FragmentDef { name: "Unused".into(), type_condition: q, directives: vec![], selection_set: vec![typename()] }));
    true
}

fn frag_undefined(m: &mut M) -> bool {
    let fi = frag_indices(m.doc);
    if !fi.is_empty() && m.c.coin() {
        let i = fi[m.c.choose(fi.len())];
        m.doc.defs.remove(i);
        return true;
    }
    let sets: Vec<SetSite> = m.sites.sets.iter().filter(|s| !s.sub_root).cloned().collect();
    let Some(site) = pick(m.c, &sets).cloned() else { return false };
    set_mut(m.doc, &site.path).push(Selection::Spread(FragmentSpread { name: "Nope".into(), directives: vec![] }));
    true
}

fn frag_cycle(m: &mut M) -> bool {
    let mut fi = frag_indices(m.doc);
    if fi.is_empty() {
        // no named fragment yet: make one out of some selections (validity-preserving)
        if !ctx::n_extract_fragment(m) {
            return false;
        }
        fi = frag_indices(m.doc);
    }
    // target fragment F; place `...F` somewhere inside F (direct) or inside a fragment that F
    // spreads (long cycle); the place may be the root set, a nested field or an inline fragment
    let f_idx = fi[m.c.choose(fi.len())];
    let fname = match &m.doc.defs[f_idx] {
        Definition::Fragment(f) => f.name.clone(),
        _ => unreachable!(),
    };
    let mut host = f_idx;
    if m.c.coin() {
        // a fragment spread by F: directly, or (half of the time) anywhere below F, so that the
        // cycle is long and may close on a fragment that is reached along several paths
        let mut spread_names: Vec<String> = m
            .sites
            .spreads
            .iter()
            .filter(|(p, _)| p.def == f_idx)
            .filter_map(|(p, _)| match sel_at(m.doc, p) {
                Selection::Spread(s) => Some(s.name.clone()),
                _ => None,
            })
            .collect();
        if m.c.coin() {
            spread_names = ctx::reachable_fragments(m.doc, &fname).into_iter().filter(|n| *n != fname).collect();
        }
        if let Some(n) = pick(m.c, &spread_names).cloned() {
            if let Some(i) = m.doc.defs.iter().position(|d| matches!(d, Definition::Fragment(f) if f.name == n)) {
                host = i;
            }
        }
    }
    let sets: Vec<SetSite> = m.sites.sets.iter().filter(|s| s.path.def == host).cloned().collect();
    let Some(site) = pick(m.c, &sets).cloned() else { return false };
    set_mut(m.doc, &site.path).push(Selection::Spread(FragmentSpread { name: fname, directives: vec![] }));
    true
}

pub(super) fn sel_at<'d>(doc: &'d Document, p: &Path) -> &'d Selection {
    let mut cur = def_set(&doc.defs[p.def]).unwrap();
    let (last, init) = p.idx.split_last().unwrap();
    for &i in init {
        cur = match &cur[i] {
            Selection::Field(f) => &f.selection_set,
            Selection::Inline(f) => &f.selection_set,
            Selection::Spread(_) => panic!(),
        };
    }
    &cur[*last]
}

fn spread_impossible(m: &mut M) -> bool {
    let mut cands: Vec<(SetSite, String)> = vec![];
    for st in &m.sites.sets {
        let Some(p) = &st.parent else { continue };
        let ov = overlapping_types(m.s, p);
        for t in &m.s.types {
            if matches!(t.kind, TypeKind::Object | TypeKind::Interface | TypeKind::Union) && !ov.contains(&t.name) {
                cands.push((st.clone(), t.name.clone()));
            }
        }
    }
    let Some((site, t)) = pick(m.c, &cands).cloned() else { return false };
    set_mut(m.doc, &site.path).push(Selection::Inline(InlineFragment { type_condition: Some(t), directives: vec![], selection_set: vec![typename()] }));
    true
}

// ---------------------------------------------------------------------------- field merging

fn merge_name(m: &mut M) -> bool {
    // a sibling with the same response key but another field of the same parent
    let mut cands: Vec<(FieldSite, FieldDef)> = vec![];
    for site in &m.sites.fields {
        if site.sub_root {
            continue;
        }
        let fields = m.s.get(&site.parent).map(|t| t.fields.clone()).unwrap_or_default();
        for d in fields {
            if d.name != site.def.name {
                cands.push((site.clone(), d));
            }
        }
        if site.def.name != "__typename" {
            cands.push((site.clone(), m.s.field(&site.parent, "__typename").unwrap()));
        }
    }
    let Some((site, other)) = pick(m.c, &cands).cloned() else { return false };
    let key = field_mut(m.doc, &site.path).response_key().to_string();
    let f = simple_field(m.c, m.s, &other, Some(key));
    let (_, init) = site.path.idx.split_last().unwrap();
    set_mut(m.doc, &Path { def: site.path.def, idx: init.to_vec() }).push(Selection::Field(f));
    true
}

/// A value of the same type that differs from `v` under every reading of "identical".
fn different_value(c: &mut Choices, s: &RefSchema, v: &Value, ty: &Type) -> Option<Value> {
    let named = ty.inner_name();
    match v {
        Value::Bool(b) => Some(Value::Bool(!b)),
        Value::Int(t) => Some(Value::Int(if t == "1" { "0".into() } else { "1".into() })),
        Value::Float(t) => Some(Value::Float(if t == "1.5" { "7.25".into() } else { "1.5".into() })),
        Value::Str(x) => Some(Value::str(if x.value == "other" { "other2" } else { "other" })),
        Value::Enum(e) => {
            let td = s.get(named)?;
            if td.kind == TypeKind::Enum {
                td.values.iter().find(|x| x.name != *e).map(|x| Value::Enum(x.name.clone()))
            } else {
                Some(Value::Enum(format!("{}_2", e)))
            }
        }
        Value::Var(_) => Some(const_value(c, s, ty)).filter(|x| !matches!(x, Value::Var(_))),
        Value::Null => {
            if ty.is_non_null() {
                None
            } else {
                let x = const_value(c, s, ty);
                if x == Value::Null {
                    None
                } else {
                    Some(x)
                }
            }
        }
        Value::List(items) => {
            let item_ty = ty.item()?.clone();
            if items.is_empty() {
                return Some(Value::List(vec![const_value(c, s, &item_ty)]));
            }
            let i = c.choose(items.len());
            let mut out = items.clone();
            out[i] = different_value(c, s, &items[i], &item_ty)?;
            Some(Value::List(out))
        }
        Value::Object(fields) => {
            let td = s.get(named)?.clone();
            if td.kind != TypeKind::InputObject || fields.is_empty() {
                return None;
            }
            let i = c.choose(fields.len());
            let d = td.input_fields.iter().find(|d| d.name == fields[i].0)?;
            let mut out = fields.clone();
            out[i].1 = different_value(c, s, &fields[i].1, &d.ty)?;
            Some(Value::Object(out))
        }
    }
}

fn push_sibling(m: &mut M, site: &FieldSite, f: Field) {
    let (_, init) = site.path.idx.split_last().unwrap();
    set_mut(m.doc, &Path { def: site.path.def, idx: init.to_vec() }).push(Selection::Field(f));
}

fn merge_args(m: &mut M) -> bool {
    let fs: Vec<FieldSite> = m.sites.fields.iter().filter(|f| !f.sub_root && !f.def.args.is_empty()).cloned().collect();
    let Some(site) = pick(m.c, &fs).cloned() else { return false };
    let mut f = field_mut(m.doc, &site.path).clone();
    f.directives.clear();
    let mode = m.c.choose(3);
    // 0: change a value, 1: drop an optional argument, 2: add an optional argument
    if mode == 1 {
        let opt: Vec<usize> = (0..f.args.len()).filter(|&i| site.def.args.iter().any(|d| d.name == f.args[i].0 && !(d.ty.is_non_null() && d.default.is_none()))).collect();
        if let Some(&i) = pick(m.c, &opt) {
            f.args.remove(i);
            push_sibling(m, &site, f);
            return true;
        }
    }
    if mode == 2 {
        let absent: Vec<InputValueDef> = site.def.args.iter().filter(|d| !f.args.iter().any(|(n, _)| *n == d.name)).cloned().collect();
        if let Some(d) = pick(m.c, &absent).cloned() {
            f.args.push((d.name.clone(), const_value(m.c, m.s, &d.ty)));
            push_sibling(m, &site, f);
            return true;
        }
    }
    if f.args.is_empty() {
        return false;
    }
    let i = m.c.choose(f.args.len());
    let Some(d) = site.def.args.iter().find(|d| d.name == f.args[i].0).cloned() else { return false };
    // a single value coerced to a list sits at the item type
    let mut ty = d.ty.clone();
    while ty.is_list() && !matches!(f.args[i].1, Value::List(_) | Value::Null | Value::Var(_)) {
        ty = ty.item().unwrap().clone();
    }
    let Some(nv) = different_value(m.c, m.s, &f.args[i].1, &ty) else { return false };
    f.args[i].1 = nv;
    push_sibling(m, &site, f);
    true
}

fn merge_args_list_length(m: &mut M) -> bool {
    // a sibling whose list argument has one more (valid) item
    let mut cands: Vec<(FieldSite, usize)> = vec![];
    for site in &m.sites.fields {
        if site.sub_root {
            continue;
        }
        let f = match sel_at(m.doc, &site.path) {
            Selection::Field(f) => f,
            _ => continue,
        };
        for (i, (n, v)) in f.args.iter().enumerate() {
            if let (Value::List(items), Some(d)) = (v, site.def.args.iter().find(|d| d.name == *n)) {
                if d.ty.is_list() && !items.is_empty() {
                    cands.push((site.clone(), i));
                }
            }
        }
    }
    let Some((site, i)) = pick(m.c, &cands).cloned() else { return false };
    let mut f = field_mut(m.doc, &site.path).clone();
    f.directives.clear();
    let shorter = m.c.coin();
    if let Value::List(items) = &mut f.args[i].1 {
        if shorter && items.len() > 1 {
            items.pop();
        } else {
            let last = items.last().unwrap().clone();
            items.push(last);
        }
    }
    push_sibling(m, &site, f);
    true
}

/// pairs of (object A, field of A, type B, field of B) below an abstract parent
fn cross_pairs(m: &M, parent: &str, second_abstract: bool) -> Vec<(String, FieldDef, String, FieldDef)> {
    let objs = m.s.possible_types(parent);
    let mut out = vec![];
    let seconds: Vec<String> = if second_abstract {
        overlapping_types(m.s, parent).into_iter().filter(|t| m.s.kind(t) == Some(TypeKind::Interface)).collect()
    } else {
        objs.clone()
    };
    for a in &objs {
        for b in &seconds {
            if a == b {
                continue;
            }
            let fa = m.s.get(a).map(|t| t.fields.clone()).unwrap_or_default();
            let fb = m.s.get(b).map(|t| t.fields.clone()).unwrap_or_default();
            for x in &fa {
                for y in &fb {
                    out.push((a.clone(), x.clone(), b.clone(), y.clone()));
                }
            }
        }
    }
    out
}

fn push_cross(m: &mut M, site: &SetSite, a: &str, fa: &FieldDef, b: &str, fb: &FieldDef, key: &str) {
    let x = simple_field(m.c, m.s, fa, Some(key.into()));
    let y = simple_field(m.c, m.s, fb, Some(key.into()));
    let set = set_mut(m.doc, &site.path);
    set.push(Selection::Inline(InlineFragment { type_condition: Some(a.into()), directives: vec![], selection_set: vec![Selection::Field(x)] }));
    set.push(Selection::Inline(InlineFragment { type_condition: Some(b.into()), directives: vec![], selection_set: vec![Selection::Field(y)] }));
}

/// The first clause of SameResponseShape on which two field types differ, walking the wrappers
/// from the outside: nullability of a list wrapper, nullability of the named type, list against
/// non-list, different leaf types, leaf against composite. `None`: same shape.
fn shape_difference(s: &RefSchema, a: &Type, b: &Type) -> Option<&'static str> {
    let (mut a, mut b) = (a, b);
    loop {
        if a.is_non_null() != b.is_non_null() {
            return Some(if a.nullable().is_list() || b.nullable().is_list() { "list-nonnull" } else { "named-nonnull" });
        }
        a = a.nullable();
        b = b.nullable();
        match (a, b) {
            (Type::List(x), Type::List(y)) => {
                a = x;
                b = y;
            }
            (Type::List(_), _) | (_, Type::List(_)) => return Some("list"),
            _ => break,
        }
    }
    let (na, nb) = (a.inner_name(), b.inner_name());
    match (s.is_leaf(na), s.is_leaf(nb)) {
        (true, true) => (na != nb).then_some("leaf-type"),
        (false, false) => None,
        _ => Some("leaf-vs-composite"),
    }
}

type CrossPair = (String, FieldDef, String, FieldDef);

/// Put `... on A { key: fa } ... on B { key: fb }` below a parent type for which such a pair
/// exists, chosen by the kind of pair first (`kind_of`; `None`: not a candidate) so that rare
/// kinds are tried as often as common ones. The place is a selection set of the document whose
/// parent type has the pair, or (always when there is none, else half of the time) a field
/// selected for the purpose whose type has it.
fn place_cross(m: &mut M, second_abstract: bool, min_possible: usize, kind_of: &dyn Fn(&RefSchema, &CrossPair) -> Option<&'static str>, key: &str) -> bool {
    use std::collections::BTreeMap;
    // (set, field to select there first, parent type of the pair)
    let mut places: Vec<(SetSite, Option<FieldDef>, String)> = vec![];
    for st in &m.sites.sets {
        let Some(p) = &st.parent else { continue };
        if st.sub_root {
            continue;
        }
        if m.s.possible_types(p).len() >= min_possible {
            places.push((st.clone(), None, p.clone()));
        }
        for g in m.s.get(p).map(|t| t.fields.clone()).unwrap_or_default() {
            let inner = g.ty.inner_name().to_string();
            if m.s.is_composite(&inner) && m.s.possible_types(&inner).len() >= min_possible {
                places.push((st.clone(), Some(g), inner));
            }
        }
    }
    let mut pairs: BTreeMap<String, BTreeMap<&'static str, Vec<CrossPair>>> = BTreeMap::new();
    for (_, _, u) in &places {
        if pairs.contains_key(u) {
            continue;
        }
        let mut by_kind: BTreeMap<&'static str, Vec<CrossPair>> = BTreeMap::new();
        for pr in cross_pairs(m, u, second_abstract) {
            if let Some(k) = kind_of(m.s, &pr) {
                by_kind.entry(k).or_default().push(pr);
            }
        }
        pairs.insert(u.clone(), by_kind);
    }
    let mut kinds: Vec<&'static str> = pairs.values().flat_map(|k| k.keys().cloned()).collect();
    kinds.sort();
    kinds.dedup();
    let Some(kind) = pick(m.c, &kinds).cloned() else { return false };
    let has = |u: &String| pairs.get(u).map_or(false, |k| k.contains_key(kind));
    let existing: Vec<(SetSite, Option<FieldDef>, String)> = places.iter().filter(|p| p.1.is_none() && has(&p.2)).cloned().collect();
    let fresh: Vec<(SetSite, Option<FieldDef>, String)> = places.iter().filter(|p| p.1.is_some() && has(&p.2)).cloned().collect();
    let from = if !existing.is_empty() && (fresh.is_empty() || m.c.coin()) { existing } else { fresh };
    let Some((st, g, u)) = pick(m.c, &from).cloned() else { return false };
    let Some((a, fa, b, fb)) = pick(m.c, &pairs[&u][kind]).cloned() else { return false };
    let site = match g {
        None => st,
        Some(g) => {
            let mut f = simple_field(m.c, m.s, &g, Some(format!("{}p", key)));
            f.selection_set.clear();
            let set = set_mut(m.doc, &st.path);
            set.push(Selection::Field(f));
            let mut path = st.path.clone();
            path.idx.push(set.len() - 1);
            SetSite { path, parent: Some(u), sub_root: false, in_fragment: st.in_fragment }
        }
    };
    push_cross(m, &site, &a, &fa, &b, &fb, key);
    true
}

fn merge_shape(m: &mut M) -> bool {
    place_cross(m, false, 2, &|s, pr| shape_difference(s, &pr.1.ty, &pr.3.ty), "zs")
}

fn merge_parent_nonexclusive(m: &mut M) -> bool {
    place_cross(m, true, 1, &|s, pr| (pr.1.name != pr.3.name && shape(s, &pr.1.ty) == shape(s, &pr.3.ty)).then_some("same-shape"), "ze")
}

// ---------------------------------------------------------------------------- values

fn wrong_literal(c: &mut Choices, named: &str, s: &RefSchema) -> Option<Value> {
    let kind = s.kind(named)?;
    let opts: Vec<Value> = match (named, kind) {
        ("Int", _) => vec![Value::str("1"), Value::Float("1.5".into()), Value::Bool(true), Value::Enum("RED".into()), Value::Object(vec![])],
        ("Float", _) => vec![Value::str("1.5"), Value::Bool(false), Value::Enum("NaN".into()), Value::Object(vec![("a".into(), Value::Int("1".into()))])],
        ("String", _) => vec![Value::Int("1".into()), Value::Bool(true), Value::Enum("abc".into()), Value::Float("0.5".into()), Value::Object(vec![])],
        ("Boolean", _) => vec![Value::Int("1".into()), Value::str("true"), Value::Enum("TRUE".into()), Value::Float("1.0".into()), Value::Object(vec![])],
        ("ID", _) => vec![Value::Float("1.5".into()), Value::Bool(true), Value::Enum("abc".into()), Value::Object(vec![])],
        (_, TypeKind::Enum) => vec![Value::str("RED"), Value::Int("0".into()), Value::Enum("NOT_A_VALUE".into()), Value::Bool(true), Value::Float("0.5".into()), Value::Object(vec![])],
        (_, TypeKind::InputObject) => vec![Value::Int("1".into()), Value::str("{}"), Value::Enum("abc".into()), Value::Bool(false), Value::Float("2.5".into())],
        _ => return None,
    };
    Some(opts[c.choose(opts.len())].clone())
}

fn value_wrong_kind(m: &mut M) -> bool {
    let s = m.s;
    edit_value(
        m.c,
        m.doc,
        s,
        &|v, t, _, _, _| !matches!(v, Value::Null | Value::Var(_)) && matches!(t.nullable(), Type::Named(n) if is_builtin_leaf(n) || matches!(s.kind(n), Some(TypeKind::Enum | TypeKind::InputObject))),
        &mut |c, v, t, _| {
            if let Some(w) = wrong_literal(c, t.inner_name(), s) {
                *v = w;
            }
        },
    )
    .is_some()
}

fn value_int_range(m: &mut M) -> bool {
    let s = m.s;
    edit_value(m.c, m.doc, s, &|v, t, _, _, _| matches!(v, Value::Int(_)) && matches!(t.nullable(), Type::Named(n) if n == "Int"), &mut |c, v, _, _| {
        *v = Value::Int(c.pick(&["2147483648", "-2147483649", "99999999999"]).to_string());
    })
    .is_some()
}

fn value_null_nonnull(m: &mut M) -> bool {
    let s = m.s;
    edit_value(m.c, m.doc, s, &|v, t, _, _, _| t.is_non_null() && !matches!(v, Value::Null), &mut |_, v, _, _| *v = Value::Null).is_some()
}

fn value_list_for_nonlist(m: &mut M) -> bool {
    let s = m.s;
    edit_value(
        m.c,
        m.doc,
        s,
        &|v, t, _, _, _| !matches!(v, Value::Null | Value::Var(_) | Value::List(_)) && matches!(t.nullable(), Type::Named(n) if is_builtin_leaf(n) || matches!(s.kind(n), Some(TypeKind::Enum | TypeKind::InputObject))),
        &mut |_, v, _, _| *v = Value::List(vec![v.clone()]),
    )
    .is_some()
}

fn is_input_object_literal(s: &RefSchema, v: &Value, t: &Type) -> bool {
    matches!(v, Value::Object(_)) && matches!(t.nullable(), Type::Named(n) if s.kind(n) == Some(TypeKind::InputObject))
}

fn input_field_unknown(m: &mut M) -> bool {
    let s = m.s;
    edit_value(m.c, m.doc, s, &|v, t, _, _, _| is_input_object_literal(s, v, t), &mut |_, v, _, _| {
        if let Value::Object(f) = v {
            f.push(("zzz".into(), Value::Int("1".into())));
        }
    })
    .is_some()
}

fn input_field_missing(m: &mut M) -> bool {
    let s = m.s;
    let required = |v: &Value, t: &Type| -> Vec<usize> {
        let (Value::Object(f), Some(td)) = (v, s.get(t.inner_name())) else { return vec![] };
        (0..f.len()).filter(|&i| td.input_fields.iter().any(|d| d.name == f[i].0 && d.ty.is_non_null() && d.default.is_none())).collect()
    };
    edit_value(m.c, m.doc, s, &|v, t, _, _, _| is_input_object_literal(s, v, t) && !required(v, t).is_empty(), &mut |c, v, t, _| {
        let r = required(v, t);
        let i = r[c.choose(r.len())];
        if let Value::Object(f) = v {
            f.remove(i);
        }
    })
    .is_some()
}

fn input_field_dup(m: &mut M) -> bool {
    let s = m.s;
    edit_value(m.c, m.doc, s, &|v, t, _, _, _| is_input_object_literal(s, v, t) && matches!(v, Value::Object(f) if !f.is_empty()), &mut |c, v, _, _| {
        if let Value::Object(f) = v {
            let i = c.choose(f.len());
            let x = f[i].clone();
            f.push(x);
        }
    })
    .is_some()
}

// ---------------------------------------------------------------------------- variables

fn ops_with_vars(doc: &Document) -> Vec<usize> {
    doc.defs.iter().enumerate().filter(|(_, d)| matches!(d, Definition::Operation(o) if !o.vars.is_empty())).map(|(i, _)| i).collect()
}

pub(super) fn op_at(doc: &mut Document, i: usize) -> &mut OperationDef {
    match &mut doc.defs[i] {
        Definition::Operation(o) => o,
        _ => panic!("not an operation"),
    }
}

fn var_dup(m: &mut M) -> bool {
    let ops = ops_with_vars(m.doc);
    let Some(&i) = pick(m.c, &ops) else { return false };
    let o = op_at(m.doc, i);
    let k = m.c.choose(o.vars.len());
    let v = o.vars[k].clone();
    o.vars.push(v);
    true
}

fn var_output_type(m: &mut M) -> bool {
    let ops = ops_with_vars(m.doc);
    let Some(&i) = pick(m.c, &ops) else { return false };
    let q = m.s.query.clone().unwrap_or_else(|| "Query".into());
    let name = if m.c.coin() { q } else { "Nope".to_string() };
    let o = op_at(m.doc, i);
    let k = m.c.choose(o.vars.len());
    o.vars[k].ty = Type::Named(name);
    o.vars[k].default = None;
    true
}

fn var_undefined(m: &mut M) -> bool {
    let ops = ops_with_vars(m.doc);
    let Some(&i) = pick(m.c, &ops) else { return false };
    let o = op_at(m.doc, i);
    let k = m.c.choose(o.vars.len());
    o.vars.remove(k);
    true
}

fn var_unused(m: &mut M) -> bool {
    let ops = op_indices(m.doc);
    let Some(&i) = pick(m.c, &ops) else { return false };
    let o = op_at(m.doc, i);
    o.shorthand = false;
    o.vars.push(VarDef { name: "unused".into(), ty: Type::named("Int"), default: None, directives: vec![] });
    true
}

fn var_type_change(m: &mut M) -> bool {
    let ops = ops_with_vars(m.doc);
    let Some(&i) = pick(m.c, &ops) else { return false };
    let mode = m.c.choose(4);
    let o = op_at(m.doc, i);
    let k = m.c.choose(o.vars.len());
    let v = &mut o.vars[k];
    let old = v.ty.clone();
    v.ty = match mode {
        0 => old.nullable().clone(),
        1 => Type::List(Box::new(old.clone())),
        2 => old.item().cloned().unwrap_or_else(|| Type::named(if old.inner_name() == "Int" { "String" } else { "Int" })),
        _ => Type::named(if old.inner_name() == "Int" { "String" } else { "Int" }),
    };
    if mode != 0 {
        v.default = None;
    }
    true
}

fn var_default_null(m: &mut M) -> bool {
    let ops = ops_with_vars(m.doc);
    let Some(&i) = pick(m.c, &ops) else { return false };
    let o = op_at(m.doc, i);
    let k = m.c.choose(o.vars.len());
    let v = &mut o.vars[k];
    v.ty = v.ty.nullable().clone();
    v.default = Some(Value::Null);
    true
}

fn var_nested_nullable(m: &mut M) -> bool {
    // `[$nv]` for `[T!]` / `{f: $nv}` for `f: T!` with `$nv: T` (nullable, no default)
    let s = m.s;
    let mut new_ty: Option<Type> = None;
    let done = edit_value(
        m.c,
        m.doc,
        s,
        &|v, t, hd, pos, cx| cx.in_operation && !cx.constant && matches!(pos, VPos::ListItem | VPos::InputField) && t.is_non_null() && !hd && !matches!(v, Value::Var(_)),
        &mut |_, v, t, _| {
            new_ty = Some(t.nullable().clone());
            *v = Value::Var("nv".into());
        },
    );
    let (Some(cx), Some(ty)) = (done, new_ty) else { return false };
    let o = op_at(m.doc, cx.def);
    o.shorthand = false;
    o.vars.push(VarDef { name: "nv".into(), ty, default: None, directives: vec![] });
    true
}

// ---------------------------------------------------------------------------- directives

fn any_field(m: &mut M, nonroot_sub: bool) -> Option<FieldSite> {
    let fs: Vec<FieldSite> = m.sites.fields.iter().filter(|f| !(nonroot_sub && f.sub_root)).cloned().collect();
    pick(m.c, &fs).cloned()
}

fn dir_unknown(m: &mut M) -> bool {
    let Some(site) = any_field(m, false) else { return false };
    field_mut(m.doc, &site.path).directives.push(Directive { name: "nope".into(), args: vec![] });
    true
}

fn dir_location(m: &mut M) -> bool {
    match m.c.choose(3) {
        0 => {
            // @skip on an operation
            let ops = op_indices(m.doc);
            let Some(&i) = pick(m.c, &ops) else { return false };
            let o = op_at(m.doc, i);
            o.shorthand = false;
            o.directives.push(Directive { name: "skip".into(), args: vec![("if".into(), Value::Bool(true))] });
            true
        }
        1 => {
            let Some(site) = any_field(m, false) else { return false };
            field_mut(m.doc, &site.path).directives.push(Directive { name: "deprecated".into(), args: vec![] });
            true
        }
        _ => {
            // a schema directive that does not list FIELD
            let ds: Vec<DirectiveDef> = m.s.directives.values().filter(|d| !d.locations.iter().any(|l| l == "FIELD") && d.args.iter().all(|a| !(a.ty.is_non_null() && a.default.is_none()))).cloned().collect();
            let Some(d) = pick(m.c, &ds).cloned() else { return false };
            let Some(site) = any_field(m, false) else { return false };
            field_mut(m.doc, &site.path).directives.push(Directive { name: d.name, args: vec![] });
            true
        }
    }
}

fn dir_dup(m: &mut M) -> bool {
    let Some(site) = any_field(m, true) else { return false };
    let f = field_mut(m.doc, &site.path);
    f.directives.push(Directive { name: "skip".into(), args: vec![("if".into(), Value::Bool(true))] });
    f.directives.push(Directive { name: "skip".into(), args: vec![("if".into(), Value::Bool(false))] });
    true
}

fn exec_only(m: &mut M) -> bool {
    let mut t = TypeDef::new(TypeKind::Scalar, "Zzz");
    if m.c.coin() {
        t = TypeDef::new(TypeKind::Object, "Zzz");
        t.fields.push(FieldDef { description: None, name: "a".into(), args: vec![], ty: Type::named("Int"), directives: vec![] });
    }
    m.doc.defs.push(Definition::Type(t));
    true
}

// ---------------------------------------------------------------------------- neutral

fn n_reorder_defs(m: &mut M) -> bool {
    if m.doc.defs.len() < 2 {
        return false;
    }
    let k = 1 + m.c.choose(m.doc.defs.len() - 1);
    m.doc.defs.rotate_left(k);
    true
}

fn selection_paths(m: &M, include_sub_root: bool) -> Vec<Path> {
    let mut out = vec![];
    for st in &m.sites.sets {
        if st.sub_root && !include_sub_root {
            continue;
        }
        let n = match st.path.idx.is_empty() {
            true => def_set(&m.doc.defs[st.path.def]).map(|s| s.len()).unwrap_or(0),
            false => match sel_at(m.doc, &st.path) {
                Selection::Field(f) => f.selection_set.len(),
                Selection::Inline(i) => i.selection_set.len(),
                _ => 0,
            },
        };
        for i in 0..n {
            let mut p = st.path.clone();
            p.idx.push(i);
            out.push(p);
        }
    }
    out
}

fn n_wrap_inline(m: &mut M) -> bool {
    // wrap one selection in `... { }` or `... on Parent { }`
    let mut cands: Vec<(Path, Option<String>)> = vec![];
    for st in &m.sites.sets {
        if st.parent.is_none() {
            continue;
        }
        for p in selection_paths(m, true).into_iter().filter(|p| p.def == st.path.def && p.idx.len() == st.path.idx.len() + 1 && p.idx[..st.path.idx.len()] == st.path.idx[..]) {
            cands.push((p, st.parent.clone()));
        }
    }
    let Some((p, parent)) = pick(m.c, &cands).cloned() else { return false };
    let with_cond = m.c.coin();
    let sel = sel_mut(m.doc, &p);
    let inner = sel.clone();
    *sel = Selection::Inline(InlineFragment { type_condition: if with_cond { parent } else { None }, directives: vec![], selection_set: vec![inner] });
    true
}

fn n_dup_selection(m: &mut M) -> bool {
    let ps = selection_paths(m, false);
    let Some(p) = pick(m.c, &ps).cloned() else { return false };
    let sel = sel_at(m.doc, &p).clone();
    let (last, init) = p.idx.split_last().unwrap();
    set_mut(m.doc, &Path { def: p.def, idx: init.to_vec() }).insert(*last + 1, sel);
    true
}

fn n_add_typename(m: &mut M) -> bool {
    let sets: Vec<SetSite> = m.sites.sets.iter().filter(|s| !s.sub_root && s.parent.is_some()).cloned().collect();
    let Some(site) = pick(m.c, &sets).cloned() else { return false };
    // `__typename` may already be bound to another field through an alias: use the plain key only
    // when no selection of the document aliases something else to it (never generated)
    set_mut(m.doc, &site.path).push(typename());
    true
}

fn n_reorder_args(m: &mut M) -> bool {
    let fs = m.sites.fields.clone();
    let mut cands = vec![];
    for site in fs {
        if field_mut(m.doc, &site.path).args.len() >= 2 {
            cands.push(site);
        }
    }
    let Some(site) = pick(m.c, &cands).cloned() else { return false };
    field_mut(m.doc, &site.path).args.reverse();
    true
}

fn n_reorder_selections(m: &mut M) -> bool {
    let sets = m.sites.sets.clone();
    let mut cands = vec![];
    for st in sets {
        if set_mut(m.doc, &st.path).len() >= 2 {
            cands.push(st);
        }
    }
    let Some(site) = pick(m.c, &cands).cloned() else { return false };
    set_mut(m.doc, &site.path).reverse();
    true
}
