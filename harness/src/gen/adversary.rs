//! Semantic adversaries for C21: chains, cycles, deep nesting and very wide definitions, placed
//! through every connector the validators walk, with lengths below / at / at >= 2x every internal
//! limit of apollo-compiler's validation.
//!
//! Internal limits read from /repo/crates/apollo-compiler/src (all are private constants):
//! * `validation/mod.rs`  DEFAULT_RECURSION_LIMIT = 32  (RecursionStack: directive definitions,
//!   the input-object *type* stack inside the directive walk, input-object non-null chains)
//! * `validation/fragment.rs` `RecursionStack::with_limit(100)` (fragment spread chains)
//! * `validation/selection.rs` FIELD_DEPTH_LIMIT = 128 (field merging depth)
//! * `validation/operation.rs` / `variable.rs` `DepthCounter::with_limit(500)` (selection walks)
//! * apollo-parser default recursion limit 500 (selection sets, values, list types)
//! * `introspection/max_depth.rs` MAX_LISTS_DEPTH = 3
//!
//! Everything is decoded from the choice stream; an exhausted stream gives the smallest shape.

use crate::choices::Choices;

pub const LIMIT_RECURSION_STACK: usize = 32;
pub const LIMIT_FRAGMENT_CHAIN: usize = 100;
pub const LIMIT_FIELD_DEPTH: usize = 128;
pub const LIMIT_WALK_DEPTH: usize = 500;
pub const LIMIT_PARSER: usize = 500;
pub const LIMIT_INTROSPECTION_LISTS: usize = 3;

/// Type system shared by the executable-side adversaries. Valid on its own.
pub const BASE_SCHEMA: &str = "type Query { a: Query, l: [Query], u: U, n: N, b(x: Int, i: In, l: [[In]], s: String): Int, s: String, id: ID }\n\
union U = Query | O\n\
type O implements N { a: Query, s: String }\n\
interface N { a: Query }\n\
input In { x: Int, i: In, l: [In!], s: String }\n\
type Mutation { a: Query, s: String }\n\
type Subscription { a: Query, s: String }\n";

#[derive(Clone, Debug)]
pub struct Adv {
    /// type-system part (may be empty)
    pub schema: String,
    /// executable part (may be empty)
    pub exec: String,
    pub family: &'static str,
    /// short label of the shape (family/connector/length class), for the histogram
    pub shape: String,
    /// the text contains a chain, cycle or nesting of length `n`
    pub n: usize,
    pub cyclic: bool,
    /// `Some(limit label)`: the chain is at >= 2x the named internal limit, so validation of
    /// schema+exec together must give `Err` (and never `Ok`)
    pub expect_err: Option<&'static str>,
    /// the text is valid apart from the excessive depth, so that the `Err` must contain a
    /// recursion-limit style diagnostic
    pub otherwise_valid: bool,
}

impl Adv {
    pub fn full(&self) -> String {
        let mut s = String::with_capacity(self.schema.len() + self.exec.len() + 1);
        s.push_str(&self.schema);
        if !self.schema.is_empty() && !self.exec.is_empty() {
            s.push('\n');
        }
        s.push_str(&self.exec);
        s
    }
}

/// A length around `limit`: tiny, just below, at, just above, at/above twice the limit, or
/// anywhere in 1..=max. `max` is the hard cap (text size).
pub fn pick_len(c: &mut Choices, limit: usize, max: usize) -> usize {
    let n = match c.weighted(&[18, 22, 26, 24, 10]) {
        0 => c.range(1, 6),
        1 => c.range(limit.saturating_sub(2).max(1), limit + 3),
        2 => c.range(2 * limit, 2 * limit + 3),
        3 => c.range(1, max),
        _ => max,
    };
    n.clamp(1, max)
}

/// Item separator for wide / deep shapes: a line break after every 8th item, so that no line grows
/// with the shape (diagnostic rendering cost grows with the length of the labelled line, and a
/// slow case is not a verdict).
fn sep(i: usize) -> &'static str {
    if i % 8 == 7 {
        "\n"
    } else {
        " "
    }
}

fn len_class(n: usize, limit: usize) -> &'static str {
    if n + 2 < limit {
        "below"
    } else if n <= limit + 3 {
        "at"
    } else if n < 2 * limit {
        "above"
    } else {
        "ge2x"
    }
}

// ------------------------------------------------------------------------------------------------
// fragments

const FRAG_CONNECTORS: usize = 11;

/// Wrap `inner` (a selection, e.g. `...F1`) in connector `k`. Every connector keeps the parent
/// type `Query`, so the result is valid against BASE_SCHEMA.
fn frag_connector(k: usize, inner: &str) -> String {
    match k {
        0 => inner.to_string(),
        1 => format!("... on Query {{ {inner} }}"),
        2 => format!("a {{ {inner} }}"),
        3 => format!("... {{ {inner} }}"),
        4 => format!("a {{ ... on Query {{ a {{ {inner} }} }} }}"),
        5 => format!("... @skip(if: true) {{ {inner} }}"),
        6 => format!("l {{ {inner} }}"),
        7 => format!("u {{ ... on Query {{ {inner} }} }}"),
        8 => format!("n {{ a {{ {inner} }} }}"),
        9 => format!("x: a @include(if: false) {{ {inner} }}"),
        _ => format!("s {inner} id"),
    }
}

fn connector_has_field(k: usize) -> usize {
    match k {
        2 | 6 | 7 | 9 => 1,
        4 | 8 => 2,
        _ => 0,
    }
}

fn op_keyword(c: &mut Choices) -> &'static str {
    match c.weighted(&[70, 10, 20]) {
        0 => "query",
        1 => "mutation",
        _ => "subscription",
    }
}

/// Fragment chains and cycles through every connector.
pub fn fragments(c: &mut Choices, max_len: usize) -> Adv {
    let n = pick_len(c, LIMIT_FRAGMENT_CHAIN, max_len);
    // one connector for the whole chain, or a fresh one per link
    let fixed = if c.bool(150) { Some(c.choose(FRAG_CONNECTORS)) } else { None };
    let layers = c.small(2); // extra connector layers per link
    let close = c.weighted(&[45, 20, 15, 10, 10]);
    // 0 acyclic; 1 cycle to F0; 2 self loop at the end; 3 cycle to a random fragment; 4 dangling
    let used = !c.bool(40);
    let kw = op_keyword(c);
    let mut fields_per_link = 0usize;
    let mut exec = String::new();
    let mut all_plain = true;
    for i in 0..n {
        let target = if i + 1 < n {
            Some(format!("...F{}", i + 1))
        } else {
            match close {
                0 => None,
                1 => Some("...F0".to_string()),
                2 => Some(format!("...F{}", n - 1)),
                3 => Some(format!("...F{}", c.choose(n.min(65535)))),
                _ => Some("...Missing".to_string()),
            }
        };
        let body = match target {
            None => "s".to_string(),
            Some(t) => {
                let mut sel = t;
                for _ in 0..=layers {
                    let k = fixed.unwrap_or_else(|| c.choose(FRAG_CONNECTORS));
                    if i == 0 {
                        fields_per_link += connector_has_field(k);
                    }
                    if k != 0 {
                        all_plain = false;
                    }
                    sel = frag_connector(k, &sel);
                }
                sel
            }
        };
        exec.push_str(&format!("fragment F{i} on Query {{ {body} }}\n"));
    }
    if used {
        let k = fixed.unwrap_or_else(|| c.choose(FRAG_CONNECTORS));
        // a subscription may select a single root field only; keep it a plain spread there
        let sel = if kw == "subscription" { "...F0".to_string() } else { frag_connector(k, "...F0") };
        exec.push_str(&format!("{kw} Q {{ {sel} }}\n"));
    }
    let cyclic = matches!(close, 1 | 2 | 3);
    let acyclic_valid = close == 0 && used && kw == "query";
    let expect = if n >= 2 * LIMIT_FRAGMENT_CHAIN && close != 4 { Some("fragment-chain/100") } else { None };
    let _ = fields_per_link;
    Adv {
        schema: BASE_SCHEMA.to_string(),
        exec,
        family: "fragment-chain",
        shape: format!(
            "fragment-chain/{}/{}/{}",
            match close { 0 => "acyclic", 1 => "cycle-to-first", 2 => "self-loop", 3 => "cycle-to-any", _ => "dangling" },
            if all_plain { "plain" } else if fixed.is_some() { "one-connector" } else { "mixed-connectors" },
            len_class(n, LIMIT_FRAGMENT_CHAIN)
        ),
        n,
        cyclic,
        expect_err: expect,
        otherwise_valid: acyclic_valid,
    }
}

/// A chain of `n` fragments (< 100, so below the fragment-chain limit) in which every link nests
/// `m` fields: total field depth n*m reaches far beyond FIELD_DEPTH_LIMIT and the walk limit
/// while every single fragment stays below the parser's limit.
pub fn fragments_times_fields(c: &mut Choices, max_total: usize) -> Adv {
    let n = match c.weighted(&[30, 40, 30]) {
        0 => c.range(1, 4),
        1 => c.range(2, 99),
        _ => c.range(90, 99),
    };
    let m_cap = (max_total / n).clamp(1, 480);
    let m = match c.weighted(&[30, 40, 30]) {
        0 => c.range(1, 4).min(m_cap),
        1 => c.range(1, m_cap),
        _ => m_cap,
    };
    let inline = c.bool(60);
    let mut exec = String::new();
    for i in 0..n {
        let mut body = String::new();
        for j in 0..m {
            if inline && j % 2 == 1 {
                body.push_str("... on Query { a {");
            } else {
                body.push_str("a {");
            }
            body.push_str(sep(j));
        }
        if i + 1 < n {
            body.push_str(&format!("...F{}", i + 1));
        } else {
            body.push('s');
        }
        for j in 0..m {
            if inline && j % 2 == 1 {
                body.push_str(" } }");
            } else {
                body.push_str(" }");
            }
            if j % 16 == 15 {
                body.push('\n');
            }
        }
        exec.push_str(&format!("fragment F{i} on Query {{ {body} }}\n"));
    }
    exec.push_str("query Q { ...F0 }\n");
    let total = n * m;
    Adv {
        schema: BASE_SCHEMA.to_string(),
        exec,
        family: "fragments-x-fields",
        shape: format!("fragments-x-fields/{}", len_class(total, LIMIT_FIELD_DEPTH)),
        n: total,
        cyclic: false,
        expect_err: if total >= 2 * LIMIT_FIELD_DEPTH { Some("field-depth/128") } else { None },
        otherwise_valid: true,
    }
}

/// A small DAG: every fragment spreads the next two (checks memoisation; kept short because an
/// un-memoised walk is exponential and a hang is not a verdict).
pub fn fragment_ladder(c: &mut Choices) -> Adv {
    let n = c.range(2, 16);
    let mut exec = String::new();
    for i in 0..n {
        let a = if i + 1 < n { format!("...F{}", i + 1) } else { "s".into() };
        let b = if i + 2 < n { format!("a {{ ...F{} }}", i + 2) } else { "id".into() };
        exec.push_str(&format!("fragment F{i} on Query {{ {a} {b} }}\n"));
    }
    exec.push_str("{ ...F0 a { ...F0 } }\n");
    Adv { schema: BASE_SCHEMA.to_string(), exec, family: "fragment-ladder", shape: "fragment-ladder".into(), n, cyclic: false, expect_err: None, otherwise_valid: true }
}

// ------------------------------------------------------------------------------------------------
// directive definitions

const ALL_LOCS: &str = "ARGUMENT_DEFINITION | INPUT_FIELD_DEFINITION | ENUM_VALUE | ENUM | INPUT_OBJECT | SCALAR | FIELD_DEFINITION | OBJECT";
const DIR_CONNECTORS: usize = 8;

/// Definition of directive `@d{i}` whose argument reaches `@{next}` through connector `k`;
/// helper types are named after `i`.
fn directive_link(k: usize, i: usize, next: &str) -> String {
    match k {
        0 => format!("directive @d{i}(x: Int @{next}) on {ALL_LOCS}\n"),
        1 => format!("directive @d{i}(x: DI{i}) on {ALL_LOCS}\ninput DI{i} {{ f: Int @{next} }}\n"),
        2 => format!("directive @d{i}(x: DE{i}) on {ALL_LOCS}\nenum DE{i} {{ V @{next} W }}\n"),
        3 => format!("directive @d{i}(x: DE{i}) on {ALL_LOCS}\nenum DE{i} @{next} {{ V }}\n"),
        4 => format!("directive @d{i}(x: DI{i}) on {ALL_LOCS}\ninput DI{i} @{next} {{ f: Int }}\n"),
        5 => format!("directive @d{i}(x: DS{i}) on {ALL_LOCS}\nscalar DS{i} @{next}\n"),
        6 => format!("directive @d{i}(x: [DI{i}!]) on {ALL_LOCS}\ninput DI{i} {{ g: DJ{i} }}\ninput DJ{i} {{ f: [DE{i}] }}\nenum DE{i} {{ V @{next} }}\n"),
        _ => format!("directive @d{i}(y: Int, x: Int @deprecated @{next}) repeatable on {ALL_LOCS}\n"),
    }
}

pub fn directives(c: &mut Choices, max_len: usize) -> Adv {
    let n = pick_len(c, LIMIT_RECURSION_STACK, max_len);
    let fixed = if c.bool(150) { Some(c.choose(DIR_CONNECTORS)) } else { None };
    let close = c.weighted(&[45, 25, 15, 15]);
    // 0 acyclic, 1 cycle to d0, 2 self loop at the end, 3 cycle to a random directive
    let mut schema = String::from("type Query { a: Int }\n");
    for i in 0..n {
        let k = fixed.unwrap_or_else(|| c.choose(DIR_CONNECTORS));
        if i + 1 < n {
            schema.push_str(&directive_link(k, i, &format!("d{}", i + 1)));
        } else {
            match close {
                0 => schema.push_str(&format!("directive @d{i}(x: Int) on {ALL_LOCS}\n")),
                1 => schema.push_str(&directive_link(k, i, "d0")),
                2 => schema.push_str(&directive_link(k, i, &format!("d{i}"))),
                _ => {
                    let t = c.choose(n.min(65535));
                    schema.push_str(&directive_link(k, i, &format!("d{t}")));
                }
            }
        }
    }
    if c.bool(100) {
        schema.push_str("extend type Query { b: Int @d0 }\n");
    }
    Adv {
        schema,
        exec: if c.bool(128) { "{ a }\n".into() } else { String::new() },
        family: "directive-chain",
        shape: format!(
            "directive-chain/{}/{}/{}",
            match close { 0 => "acyclic", 1 => "cycle-to-first", 2 => "self-loop", _ => "cycle-to-any" },
            match fixed { Some(0) => "argument", Some(1) => "input-field", Some(2) => "enum-value", Some(3) => "enum", Some(4) => "input-object", Some(5) => "scalar", Some(6) => "nested-input", Some(_) => "repeatable-arg", None => "mixed" },
            len_class(n, LIMIT_RECURSION_STACK)
        ),
        n,
        cyclic: close != 0,
        expect_err: if n >= 2 * LIMIT_RECURSION_STACK { Some("directive-chain/32") } else { None },
        otherwise_valid: close == 0,
    }
}

/// One directive whose argument type is the head of a chain of `n` (nullable, hence legal) input
/// objects: the *type* stack of the directive walk has limit 32.
pub fn directive_type_chain(c: &mut Choices, max_len: usize) -> Adv {
    let n = pick_len(c, LIMIT_RECURSION_STACK, max_len);
    let wrap = c.choose(4);
    let cyc = c.bool(60);
    let mut schema = String::from("type Query { a: Int }\ndirective @d(x: T0) on FIELD\n");
    for i in 0..n {
        let next = if i + 1 < n {
            format!("T{}", i + 1)
        } else if cyc {
            "T0".to_string()
        } else {
            "Int".to_string()
        };
        let ty = match wrap {
            0 => next,
            1 => format!("[{next}]"),
            2 => format!("[{next}!]"),
            _ => format!("[[{next}]]!"),
        };
        schema.push_str(&format!("input T{i} {{ f: {ty}, g: Int }}\n"));
    }
    Adv {
        schema,
        exec: if c.bool(128) { "{ a @d(x: {g: 1}) }\n".into() } else { String::new() },
        family: "directive-type-chain",
        shape: format!("directive-type-chain/{}/{}", if cyc { "nullable-cycle" } else { "acyclic" }, len_class(n, LIMIT_RECURSION_STACK)),
        n,
        cyclic: cyc,
        // a nullable cycle is legal and the walk stops at the first repeated type
        expect_err: if n >= 2 * LIMIT_RECURSION_STACK { Some("directive-type-chain/32") } else { None },
        otherwise_valid: true,
    }
}

// ------------------------------------------------------------------------------------------------
// input objects

pub fn input_objects(c: &mut Choices, max_len: usize) -> Adv {
    let n = pick_len(c, LIMIT_RECURSION_STACK, max_len);
    let close = c.weighted(&[50, 20, 15, 15]);
    // 0 acyclic, 1 cycle to I0, 2 self loop at the end, 3 cycle to any
    let breaker = c.weighted(&[70, 10, 10, 10]);
    // 0: every link `In!`; otherwise one link in the middle is nullable / a list (legal cycle)
    let break_at = if breaker == 0 { usize::MAX } else { c.choose(n.min(65535)) };
    let mut schema = String::from("type Query { a(i: I0): Int }\n");
    for i in 0..n {
        let next = if i + 1 < n {
            format!("I{}", i + 1)
        } else {
            match close {
                0 => "Int".to_string(),
                1 => "I0".to_string(),
                2 => format!("I{i}"),
                _ => format!("I{}", c.choose(n.min(65535))),
            }
        };
        let ty = if i == break_at {
            match breaker {
                1 => next.clone(),
                2 => format!("[{next}!]!"),
                _ => format!("[{next}]"),
            }
        } else {
            format!("{next}!")
        };
        let extra = match c.small(3) {
            0 => "",
            1 => ", x: Int = 1",
            2 => ", self: [I0!]",
            _ => ", x: Int @deprecated",
        };
        schema.push_str(&format!("input I{i} {{ f: {ty}{extra} }}\n"));
    }
    let unbroken = breaker == 0;
    Adv {
        schema,
        exec: match c.choose(3) {
            0 => String::new(),
            1 => "{ a }\n".into(),
            _ => "query($v: I0) { a(i: $v) }\n".into(),
        },
        family: "input-object-chain",
        shape: format!(
            "input-object-chain/{}/{}/{}",
            match close { 0 => "acyclic", 1 => "cycle-to-first", 2 => "self-loop", _ => "cycle-to-any" },
            if unbroken { "non-null" } else { "with-breaker" },
            len_class(n, LIMIT_RECURSION_STACK)
        ),
        n,
        cyclic: close != 0,
        // with a breaker the non-null chain seen from some starting point may be short
        expect_err: if unbroken && n >= 2 * LIMIT_RECURSION_STACK { Some("input-object-chain/32") } else { None },
        otherwise_valid: close == 0,
    }
}

/// Default values that nest the input object in itself (`input A { f: A = {f: {f: ...}} }`), and
/// argument / variable values nested `d` deep.
pub fn nested_values(c: &mut Choices, max_depth: usize) -> Adv {
    let d = pick_len(c, LIMIT_PARSER, max_depth);
    let kind = c.choose(8);
    let nest = |d: usize, open: &str, leaf: &str, close: &str| {
        let mut s = String::new();
        for i in 0..d {
            s.push_str(open);
            if i % 16 == 15 {
                s.push('\n');
            }
        }
        s.push_str(leaf);
        for i in 0..d {
            s.push_str(close);
            if i % 32 == 31 {
                s.push('\n');
            }
        }
        s
    };
    let obj = |d: usize, leaf: &str| nest(d, "{i: ", leaf, "}");
    let list = |d: usize, leaf: &str| nest(d, "[", leaf, "]");
    let mixed = |d: usize, leaf: &str| nest(d, "{l: [", leaf, "]}");
    let (schema, exec, label) = match kind {
        0 => (BASE_SCHEMA.to_string(), format!("{{ b(i: {}) }}\n", obj(d, "{x: 1}")), "object-argument"),
        1 => (BASE_SCHEMA.to_string(), format!("{{ b(l: {}) }}\n", list(d, "{x: 1}")), "list-argument"),
        2 => (BASE_SCHEMA.to_string(), format!("{{ b(i: {}) }}\n", mixed(d, "{x: 1}")), "object-list-argument"),
        3 => (BASE_SCHEMA.to_string(), format!("query($v: In = {}) {{ b(i: $v) }}\n", obj(d, "null")), "variable-default"),
        4 => (BASE_SCHEMA.to_string(), format!("query($v: {}) {{ b }}\n", list(d, "Int")), "variable-list-type"),
        5 => (format!("type Query {{ a(i: A = {}): Int }}\ninput A {{ i: A, x: Int }}\n", obj(d, "{x: 1}")), "{ a }\n".to_string(), "schema-default"),
        6 => (format!("type Query {{ a: {} }}\n", list(d, "Int")), "{ a }\n".to_string(), "field-list-type"),
        _ => (BASE_SCHEMA.to_string(), format!("query($v: Int) {{ b(l: {}) }}\n", list(d, "$v")), "list-of-variable"),
    };
    Adv {
        schema,
        exec,
        family: "nested-values",
        shape: format!("nested-values/{}/{}", label, len_class(d, LIMIT_PARSER)),
        n: d,
        cyclic: false,
        expect_err: if d >= 2 * LIMIT_PARSER { Some("parser/500") } else { None },
        otherwise_valid: false,
    }
}

// ------------------------------------------------------------------------------------------------
// interfaces and unions

pub fn interfaces(c: &mut Choices, max_len: usize) -> Adv {
    let closure = c.bool(100);
    let n = if closure { pick_len(c, 16, max_len.min(40)) } else { pick_len(c, LIMIT_RECURSION_STACK, max_len) };
    let close = c.weighted(&[45, 20, 15, 20]);
    // 0 acyclic, 1 cycle to first, 2 self, 3 cycle to any
    let mut schema = String::from("type Query { n: N0, a: Int }\n");
    for i in 0..n {
        let mut imps: Vec<String> = vec![];
        if closure {
            for j in i + 1..n {
                imps.push(format!("N{j}"));
            }
        } else if i + 1 < n {
            imps.push(format!("N{}", i + 1));
        }
        if i + 1 == n {
            match close {
                0 => {}
                1 => imps.push("N0".into()),
                2 => imps.push(format!("N{i}")),
                _ => imps.push(format!("N{}", c.choose(n.min(65535)))),
            }
        }
        let imp = if imps.is_empty() { String::new() } else { format!(" implements {}", imps.join(" & ")) };
        schema.push_str(&format!("interface N{i}{imp} {{ f: N{}, x: Int }}\n", (i + 1).min(n - 1)));
    }
    // an object implementing the head (and, with closure, everything)
    let all: Vec<String> = if closure { (0..n).map(|j| format!("N{j}")).collect() } else { vec!["N0".into()] };
    schema.push_str(&format!("type Obj implements {} {{ f: Obj, x: Int }}\n", all.join(" & ")));
    Adv {
        schema,
        exec: match c.choose(3) {
            0 => String::new(),
            1 => "{ n { x ... on Obj { x f { x } } } }\n".into(),
            _ => format!("{{ n {{ ... on N{} {{ x }} }} }}\n", n - 1),
        },
        family: "interface-chain",
        shape: format!(
            "interface-chain/{}/{}",
            match close { 0 => "acyclic", 1 => "cycle-to-first", 2 => "self", _ => "cycle-to-any" },
            if closure { "transitive-closure" } else { "next-only" }
        ),
        n,
        cyclic: close != 0,
        expect_err: None,
        otherwise_valid: close == 0 && closure,
    }
}

fn join_members(members: &[String]) -> String {
    let mut s = String::new();
    for (i, m) in members.iter().enumerate() {
        if i > 0 {
            s.push_str(if i % 8 == 0 { "\n | " } else { " | " });
        }
        s.push_str(m);
    }
    s
}

pub fn unions(c: &mut Choices, max_len: usize) -> Adv {
    let n = pick_len(c, LIMIT_RECURSION_STACK, max_len);
    let kind = c.choose(4);
    let mut schema = String::from("type Query { u: U0, a: Int }\n");
    match kind {
        0 => {
            // chain of unions whose member is the next union (illegal member kind), optional cycle
            let cyc = c.bool(128);
            for i in 0..n {
                let next = if i + 1 < n {
                    format!("U{}", i + 1)
                } else if cyc {
                    "U0".into()
                } else {
                    "Query".into()
                };
                schema.push_str(&format!("union U{i} = {next} | Query\n"));
            }
        }
        1 => {
            // one union with n object members
            let mut members = vec![];
            for i in 0..n {
                schema.push_str(&format!("type M{i} {{ x: Int }}\n"));
                members.push(format!("M{i}"));
            }
            schema.push_str(&format!("union U0 = {}\n", join_members(&members)));
        }
        2 => {
            // duplicate / self members
            let mut members = vec!["Query".to_string()];
            for i in 0..n {
                members.push(if i % 3 == 0 { "U0".into() } else { "Query".into() });
            }
            schema.push_str(&format!("union U0 = {}\n", join_members(&members)));
        }
        _ => {
            // members added through n extensions
            schema.push_str("union U0 = Query\n");
            for i in 0..n {
                schema.push_str(&format!("type M{i} {{ x: Int }}\nextend union U0 = M{i}\n"));
            }
        }
    }
    Adv {
        schema,
        exec: if c.bool(128) { "{ u { __typename ... on Query { a } } }\n".into() } else { String::new() },
        family: "union",
        shape: format!("union/{}", ["union-of-unions", "many-members", "duplicate-self-members", "many-extensions"][kind]),
        n,
        cyclic: kind == 0 || kind == 2,
        expect_err: None,
        otherwise_valid: kind == 1 || kind == 3,
    }
}

// ------------------------------------------------------------------------------------------------
// selection nesting

pub fn selection_nesting(c: &mut Choices, max_depth: usize) -> Adv {
    let kind = c.choose(6);
    let limit = match kind {
        0 | 3 | 4 => LIMIT_FIELD_DEPTH,
        _ => LIMIT_PARSER,
    };
    let d = pick_len(c, limit, max_depth);
    let (open, close, leaf): (&str, &str, &str) = match kind {
        0 => ("a { ", " }", "s"),
        1 => ("... { ", " }", "s"),
        2 => ("... on Query { ", " }", "s"),
        3 => ("l { ", " }", "s"),
        4 => ("a { ... on Query { ", " } }", "s"),
        _ => ("... @include(if: true) { ", " }", "s"),
    };
    let kw = op_keyword(c);
    let mut exec = format!("{kw} {{ ");
    for i in 0..d {
        exec.push_str(open);
        if i % 8 == 7 {
            exec.push('\n');
        }
    }
    exec.push_str(leaf);
    for i in 0..d {
        exec.push_str(close);
        if i % 16 == 15 {
            exec.push('\n');
        }
    }
    exec.push_str(" }\n");
    let fields = matches!(kind, 0 | 3 | 4);
    // parser nesting per level: 1 for a field or inline fragment, 2 for connector 4
    let parser_levels = if kind == 4 { 2 * d } else { d };
    let expect = if fields && d >= 2 * LIMIT_FIELD_DEPTH {
        Some("field-depth/128")
    } else if parser_levels >= 2 * LIMIT_PARSER {
        Some("parser/500")
    } else {
        None
    };
    Adv {
        schema: BASE_SCHEMA.to_string(),
        exec,
        family: "selection-nesting",
        shape: format!("selection-nesting/{}/{}", ["fields", "inline", "inline-on", "list-fields", "field+inline", "inline-directive"][kind], len_class(d, limit)),
        n: d,
        cyclic: false,
        expect_err: expect,
        otherwise_valid: kw == "query",
    }
}

// ------------------------------------------------------------------------------------------------
// wide definitions: thousands of siblings, colliding names

pub fn siblings(c: &mut Choices, max_width: usize) -> Adv {
    let k = match c.weighted(&[20, 40, 30, 10]) {
        0 => c.range(1, 8),
        1 => c.range(1, max_width / 8 + 1),
        2 => c.range(1, max_width),
        _ => max_width,
    };
    let kind = c.choose(18);
    let mut schema = BASE_SCHEMA.to_string();
    let mut exec = String::new();
    let label;
    let mut valid = false;
    match kind {
        0 => {
            label = "same-field";
            exec.push_str("{ ");
            for i in 0..k {
                exec.push_str("s");
                exec.push_str(sep(i));
            }
            exec.push_str("}\n");
            valid = true;
        }
        1 => {
            label = "distinct-aliases";
            exec.push_str("{ ");
            for i in 0..k {
                exec.push_str(&format!("x{i}: s{}", sep(i)));
            }
            exec.push_str("}\n");
            valid = true;
        }
        2 => {
            label = "conflicting-aliases";
            exec.push_str("{ ");
            for i in 0..k {
                exec.push_str(if i % 2 == 0 { "x: s" } else { "x: id" });
                exec.push_str(sep(i));
            }
            exec.push_str("}\n");
        }
        3 => {
            label = "duplicate-arguments";
            exec.push_str("{ b(");
            for i in 0..k {
                exec.push_str(&format!("x: {i},{}", sep(i)));
            }
            exec.push_str(") }\n");
        }
        4 => {
            label = "unused-variables";
            exec.push_str("query Q(");
            for i in 0..k {
                exec.push_str(&format!("$v{i}: Int{}", sep(i)));
            }
            exec.push_str(") { s }\n");
        }
        5 => {
            label = "duplicate-variables";
            exec.push_str("query Q(");
            for i in 0..k {
                exec.push_str(&format!("$v{}: Int{}", i % 3, sep(i)));
            }
            exec.push_str(") { b(x: $v0) }\n");
        }
        6 => {
            label = "repeated-directive";
            exec.push_str("{ s");
            for i in 0..k {
                exec.push_str(" @skip(if: true)");
                if i % 8 == 7 {
                    exec.push('\n');
                }
            }
            exec.push_str(" }\n");
        }
        7 => {
            label = "colliding-type-definitions";
            for i in 0..k {
                schema.push_str(&format!("type A{} {{ x: Int }}\n", i % 3));
            }
        }
        8 => {
            label = "duplicate-field-definitions";
            schema.push_str("type W { ");
            for i in 0..k {
                schema.push_str(&format!("f{}: Int{}", i % 5, sep(i)));
            }
            schema.push_str("}\n");
        }
        9 => {
            label = "enum-values";
            schema.push_str("enum E { ");
            for i in 0..k {
                schema.push_str(&format!("V{}{}", if c.bool(30) { i % 3 } else { i }, sep(i)));
            }
            schema.push_str("}\n");
        }
        10 => {
            label = "same-name-operations";
            for i in 0..k {
                exec.push_str(if i % 4 == 3 { "{ s }\n" } else { "query Q { s }\n" });
            }
        }
        11 => {
            label = "unused-fragments";
            for i in 0..k {
                exec.push_str(&format!("fragment G{} on Query {{ s }}\n", if i % 7 == 6 { 0 } else { i }));
            }
            exec.push_str("{ s }\n");
        }
        12 => {
            label = "undefined-fields";
            exec.push_str("{ ");
            for i in 0..k {
                exec.push_str(&format!("nope{i}{}", sep(i)));
            }
            exec.push_str("}\n");
        }
        13 => {
            label = "many-spreads";
            exec.push_str("fragment G on Query { s }\n{ ");
            for i in 0..k {
                exec.push_str("...G");
                exec.push_str(sep(i));
            }
            exec.push_str("}\n");
            valid = true;
        }
        14 => {
            label = "many-types";
            for i in 0..k {
                schema.push_str(&format!("type A{i} implements N {{ a: Query, x{i}: A{} }}\n", i / 2));
            }
            valid = true;
        }
        15 => {
            label = "field-arguments-definitions";
            schema.push_str("type W { f(");
            for i in 0..k {
                schema.push_str(&format!("p{}: Int{}", i % 11, sep(i)));
            }
            schema.push_str("): Int }\n");
        }
        16 => {
            label = "implements-list";
            schema.push_str("type W implements ");
            for i in 0..k {
                schema.push_str(if i == 0 { "N" } else if i % 2 == 0 { " & N" } else { " & Missing" });
                if i % 8 == 7 {
                    schema.push('\n');
                }
            }
            schema.push_str(" { a: Query }\n");
        }
        _ => {
            label = "orphan-extensions";
            for i in 0..k {
                schema.push_str(&format!("extend type Ghost{} {{ x: Int }}\n", i % 4));
            }
        }
    }
    Adv { schema, exec, family: "siblings", shape: format!("siblings/{label}"), n: k, cyclic: false, expect_err: None, otherwise_valid: valid }
}

// ------------------------------------------------------------------------------------------------
// introspection depth (MAX_LISTS_DEPTH = 3)

pub fn introspection_nesting(c: &mut Choices) -> Adv {
    let d = pick_len(c, LIMIT_INTROSPECTION_LISTS, 40);
    let via_fragment = c.bool(100);
    let mut body = String::new();
    for _ in 0..d {
        body.push_str("fields { type { ");
    }
    body.push_str("name");
    for _ in 0..d {
        body.push_str(" } }");
    }
    let exec = if via_fragment {
        format!("fragment T on __Type {{ {body} }}\n{{ __schema {{ types {{ ...T }} }} }}\n")
    } else {
        format!("{{ __schema {{ types {{ {body} }} }} }}\n")
    };
    Adv {
        schema: BASE_SCHEMA.to_string(),
        exec,
        family: "introspection-nesting",
        shape: format!("introspection-nesting/{}", len_class(d + 1, LIMIT_INTROSPECTION_LISTS)),
        n: d,
        cyclic: false,
        expect_err: None,
        otherwise_valid: true,
    }
}

// ------------------------------------------------------------------------------------------------

/// Decorate a text with what diagnostics rendering has to cope with: multi-byte characters before
/// the error positions, CRLF / CR line ends, a BOM, tabs, very long lines.
pub fn decorate(c: &mut Choices, text: &str) -> String {
    match c.weighted(&[60, 8, 8, 8, 8, 8]) {
        0 => text.to_string(),
        1 => format!("\u{FEFF}# é中🚀\u{2028}\n{text}"),
        2 => text.replace('\n', "\r\n"),
        3 => text.replace('\n', "\r"),
        4 => text.replace('\n', " # 🚀é\n").replace(' ', "\t"),
        // everything on one line: only for short texts (rendering cost grows with line length)
        _ => {
            if text.len() <= 1500 {
                text.replace('\n', " ")
            } else {
                text.to_string()
            }
        }
    }
}

pub fn adversary(c: &mut Choices, thorough: bool) -> Adv {
    let chain_max = if thorough { 1200 } else { 600 };
    let wide_max = if thorough { 12_000 } else { 3_000 };
    let total_depth = if thorough { 48_000 } else { 10_000 };
    match c.weighted(&[17, 6, 3, 14, 6, 12, 8, 8, 5, 10, 9, 2]) {
        0 => fragments(c, chain_max),
        1 => fragments_times_fields(c, total_depth),
        2 => fragment_ladder(c),
        3 => directives(c, chain_max),
        4 => directive_type_chain(c, chain_max),
        5 => input_objects(c, chain_max),
        6 => nested_values(c, if thorough { 1200 } else { 1100 }),
        7 => interfaces(c, chain_max),
        8 => unions(c, chain_max),
        9 => selection_nesting(c, if thorough { 1200 } else { 1100 }),
        10 => siblings(c, wide_max),
        _ => introspection_nesting(c),
    }
}

#[cfg(test)]
mod tests {
    use super::*;

    #[test]
    fn empty_stream_gives_smallest_shapes() {
        let mut c = Choices::new(&[]);
        let a = adversary(&mut c, false);
        assert_eq!(a.family, "fragment-chain");
        assert_eq!(a.n, 1);
        assert!(a.expect_err.is_none());
    }

    #[test]
    fn every_byte_vector_decodes() {
        for seed in 0..400u32 {
            let bytes: Vec<u8> = (0..64).map(|i| (seed.wrapping_mul(2654435761).wrapping_add(i * 40503) >> 7) as u8).collect();
            let mut c = Choices::new(&bytes);
            let a = adversary(&mut c, seed % 2 == 0);
            assert!(!a.full().is_empty());
            assert!(a.n >= 1);
        }
    }
}
