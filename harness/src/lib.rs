pub mod choices;
pub mod runner;
pub mod refmodel;
pub mod gen;
pub mod props;
pub mod apollo;
pub mod fuzzapi;
