//! Parallel case runner: worker processes, crash attribution, shrinking, known findings,
//! evidence. See DESIGN.md sections 2 and 3.

use crate::choices::{fnv, hex, unhex};
use proptest::strategy::{Strategy, ValueTree};
use proptest::test_runner::{Config, RngAlgorithm, TestRng, TestRunner};
use serde_json::{json, Map, Value};
use std::collections::{BTreeMap, BTreeSet};
use std::io::Write;
use std::panic::{catch_unwind, AssertUnwindSafe};
use std::process::{Command, Stdio};
use std::sync::atomic::{AtomicU64, Ordering};
use std::sync::{Arc, Mutex};
use std::time::{Duration, Instant};

/// Root of the verification tree (evidence, known findings, regressions). `VERIF_ROOT` may be
/// overridden for development in a scratch worktree.
pub fn verif_root() -> String {
    std::env::var("VERIF_ROOT").unwrap_or_else(|_| "/verif".to_string())
}

#[derive(Clone, Copy, PartialEq, Eq, Debug)]
pub enum Tier {
    Quick,
    Thorough,
}

impl Tier {
    pub fn name(self) -> &'static str {
        match self {
            Tier::Quick => "quick",
            Tier::Thorough => "thorough",
        }
    }
    pub fn parse(s: &str) -> Tier {
        if s == "thorough" {
            Tier::Thorough
        } else {
            Tier::Quick
        }
    }
}

#[derive(Debug, Clone)]
pub enum Outcome {
    Pass,
    Fail { sig: String, detail: String },
}

impl Outcome {
    pub fn fail(sig: impl Into<String>, detail: impl Into<String>) -> Outcome {
        Outcome::Fail {
            sig: sig.into(),
            detail: detail.into(),
        }
    }
}

/// Per-case context filled in by the check.
pub struct Ctx {
    pub tier: Tier,
    /// replay mode: checks may print more
    pub strict: bool,
    pub nontrivial: bool,
    pub classes: Vec<String>,
    /// human-readable rendering of the case (also the key for distinctness unless `key` set)
    pub sample: Option<String>,
    pub key: Option<u64>,
    /// cases the check decided not to evaluate (counted, with reason)
    pub skipped: Option<&'static str>,
    /// extra sub-evaluations performed inside this case (e.g. offsets probed)
    pub sub_evals: u64,
    /// signatures listed in KNOWN_FINDINGS.txt for this property (so a check that finds several
    /// independent failures in one case can report an unlisted one first)
    pub known: Arc<Vec<String>>,
    /// replaying a known-finding repro: the signature that entry expects
    pub expect: Option<String>,
    /// index of the case within its stage (stages with `fresh_blocks` derive per-process parameters from it)
    pub index: u64,
}

impl Ctx {
    pub fn new(tier: Tier, strict: bool) -> Ctx {
        Ctx {
            tier,
            strict,
            nontrivial: false,
            classes: Vec::new(),
            sample: None,
            key: None,
            skipped: None,
            sub_evals: 0,
            known: current_known(),
            expect: EXPECT_SIG.get().cloned(),
            index: 0,
        }
    }
    /// From several independent failures of one case pick the first whose signature is not a
    /// listed known finding; if all are known, the first.
    pub fn pick_failure(&self, mut fails: Vec<(String, String)>) -> Outcome {
        if fails.is_empty() {
            return Outcome::Pass;
        }
        let idx = fails
            .iter()
            .position(|(s, _)| !self.known.contains(s))
            .or_else(|| self.expect.as_ref().and_then(|e| fails.iter().position(|(s, _)| s == e)))
            .unwrap_or(0);
        let (sig, detail) = fails.swap_remove(idx);
        Outcome::Fail { sig, detail }
    }
    pub fn class(&mut self, c: impl Into<String>) {
        self.classes.push(c.into());
    }
    pub fn set_sample(&mut self, s: impl Into<String>) {
        self.sample = Some(s.into());
    }
    pub fn skip(&mut self, why: &'static str) -> Outcome {
        self.skipped = Some(why);
        Outcome::Pass
    }
}

static EXPECT_SIG: std::sync::OnceLock<String> = std::sync::OnceLock::new();
pub fn set_expect(sig: &str) {
    let _ = EXPECT_SIG.set(sig.to_string());
}
static KNOWN_SIGS: std::sync::OnceLock<Arc<Vec<String>>> = std::sync::OnceLock::new();

fn current_known() -> Arc<Vec<String>> {
    KNOWN_SIGS.get().cloned().unwrap_or_else(|| Arc::new(vec![]))
}

/// Called once per process, before any case runs.
pub fn set_known_for(prop: &str) {
    let _ = KNOWN_SIGS.set(Arc::new(load_known(prop).into_iter().map(|k| k.sig).collect()));
}

pub type CheckFn = fn(&[u8], &mut Ctx) -> Outcome;
pub type IndexFn = fn(u64, &mut Ctx) -> Outcome;
pub type CountFn = fn(Tier) -> u64;

pub enum StageKind {
    /// random byte-choice vectors of length 0..=max_len driven by proptest
    Random {
        check: CheckFn,
        cases: CountFn,
        max_len: fn(Tier) -> usize,
    },
    /// complete enumeration of a finite space 0..total
    Enumerated { check: IndexFn, total: CountFn },
}

pub struct Stage {
    pub name: &'static str,
    pub kind: StageKind,
    /// `Some(b)`: the stage is cut into blocks of exactly `b` consecutive cases (whatever the number of
    /// workers) and every block runs in a fresh worker process, so a check may do something once per
    /// process (derived from `ctx.index / b`) before its cases: "what did this process do first" then is
    /// part of the case and replays from the saved index.
    pub block: Option<u64>,
}

/// A custom stage run in the parent process (multi-process / schedule / Miri checks).
pub struct CustomReport {
    pub evaluations: u64,
    pub nontrivial_keys: BTreeSet<u64>,
    pub classes: BTreeMap<String, u64>,
    pub samples: Vec<Value>,
    pub failures: Vec<Failure>,
    pub notes: Vec<String>,
    pub inconclusive: Option<String>,
}

impl CustomReport {
    pub fn new() -> Self {
        CustomReport {
            evaluations: 0,
            nontrivial_keys: BTreeSet::new(),
            classes: BTreeMap::new(),
            samples: vec![],
            failures: vec![],
            notes: vec![],
            inconclusive: None,
        }
    }
}

pub struct RunCfg {
    pub tier: Tier,
    pub seed: u64,
    pub prop: &'static str,
    pub exe: String,
}

pub type CustomFn = fn(&RunCfg) -> CustomReport;

pub struct Prop {
    pub id: &'static str,
    pub title: &'static str,
    /// how cases are generated and what makes one non-trivial / distinct
    pub rule: &'static str,
    pub stages: Vec<Stage>,
    pub custom: Option<CustomFn>,
    pub stack_kib: usize,
    pub assumptions: &'static [&'static str],
    /// per-case watchdog seconds
    pub case_timeout_s: u64,
    /// optional oracle over a raw text case (hand-written regressions / known-finding repros:
    /// replay files of the form {"text": "..."})
    pub text_check: Option<fn(&str, &mut Ctx) -> Outcome>,
}

impl Prop {
    pub fn new(id: &'static str, title: &'static str, rule: &'static str) -> Prop {
        Prop {
            id,
            title,
            rule,
            stages: vec![],
            custom: None,
            stack_kib: 2048,
            assumptions: &[],
            case_timeout_s: 30,
            text_check: None,
        }
    }
    pub fn text(mut self, f: fn(&str, &mut Ctx) -> Outcome) -> Prop {
        self.text_check = Some(f);
        self
    }
    pub fn random(
        mut self,
        name: &'static str,
        check: CheckFn,
        cases: CountFn,
        max_len: fn(Tier) -> usize,
    ) -> Prop {
        self.stages.push(Stage {
            name,
            kind: StageKind::Random {
                check,
                cases,
                max_len,
            },
            block: None,
        });
        self
    }
    pub fn enumerated(mut self, name: &'static str, check: IndexFn, total: CountFn) -> Prop {
        self.stages.push(Stage {
            name,
            kind: StageKind::Enumerated { check, total },
            block: None,
        });
        self
    }
    /// The stage added last runs in fresh worker processes of exactly `b` cases each (see `Stage::block`).
    pub fn fresh_blocks(mut self, b: u64) -> Prop {
        if let Some(st) = self.stages.last_mut() {
            st.block = Some(b.max(1));
        }
        self
    }
    pub fn custom(mut self, f: CustomFn) -> Prop {
        self.custom = Some(f);
        self
    }
    pub fn assumptions(mut self, a: &'static [&'static str]) -> Prop {
        self.assumptions = a;
        self
    }
    pub fn stack_kib(mut self, k: usize) -> Prop {
        self.stack_kib = k;
        self
    }
    pub fn case_timeout(mut self, s: u64) -> Prop {
        self.case_timeout_s = s;
        self
    }
}

#[derive(Clone, Debug)]
pub struct Failure {
    pub stage: String,
    pub index: u64,
    pub bytes: Option<Vec<u8>>,
    pub sig: String,
    pub detail: String,
    pub rendered: String,
    pub shrunk: bool,
}

impl Failure {
    pub fn to_json(&self, prop: &str) -> Value {
        json!({
            "property": prop,
            "stage": self.stage,
            "index": self.index,
            "hex": self.bytes.as_ref().map(|b| hex(b)),
            "sig": self.sig,
            "detail": self.detail,
            "rendered": self.rendered,
            "shrunk": self.shrunk,
        })
    }
    pub fn from_json(v: &Value) -> Failure {
        Failure {
            stage: v["stage"].as_str().unwrap_or("").to_string(),
            index: v["index"].as_u64().unwrap_or(0),
            bytes: v["hex"].as_str().map(unhex),
            sig: v["sig"].as_str().unwrap_or("").to_string(),
            detail: v["detail"].as_str().unwrap_or("").to_string(),
            rendered: v["rendered"].as_str().unwrap_or("").to_string(),
            shrunk: v["shrunk"].as_bool().unwrap_or(false),
        }
    }
}

// ------------------------------------------------------------------------------------------------
// Known findings

#[derive(Clone, Debug)]
pub struct Known {
    pub prop: String,
    pub sig: String,
    pub what: String,
    pub repro: String,
}

pub fn load_known(prop: &str) -> Vec<Known> {
    let path = format!("{}/KNOWN_FINDINGS.txt", verif_root());
    let mut out = vec![];
    let Ok(text) = std::fs::read_to_string(&path) else {
        return out;
    };
    for line in text.lines() {
        let line = line.trim();
        if !line.starts_with("known:") {
            continue;
        }
        // known: property=<id> sig=<sig> :: <what> :: repro=<path>
        let rest = line["known:".len()..].trim();
        let parts: Vec<&str> = rest.split(" :: ").collect();
        if parts.len() < 3 {
            continue;
        }
        let head = parts[0];
        let Some(p) = head
            .split_whitespace()
            .find_map(|t| t.strip_prefix("property="))
        else {
            continue;
        };
        if p != prop {
            continue;
        }
        let Some(sigpos) = head.find("sig=") else {
            continue;
        };
        let sig = head[sigpos + 4..].trim().to_string();
        let repro = parts[2].trim().trim_start_matches("repro=").to_string();
        out.push(Known {
            prop: p.to_string(),
            sig,
            what: parts[1].trim().to_string(),
            repro,
        });
    }
    out
}

// ------------------------------------------------------------------------------------------------
// Running one case with panic capture

thread_local! {
    static LAST_PANIC: std::cell::RefCell<Option<(String, String)>> = const { std::cell::RefCell::new(None) };
}

pub fn install_panic_hook() {
    std::panic::set_hook(Box::new(|info| {
        let msg = if let Some(s) = info.payload().downcast_ref::<&str>() {
            s.to_string()
        } else if let Some(s) = info.payload().downcast_ref::<String>() {
            s.clone()
        } else {
            "<non-string panic>".to_string()
        };
        let loc = info
            .location()
            .map(|l| format!("{}:{}", l.file(), l.line()))
            .unwrap_or_default();
        LAST_PANIC.with(|p| *p.borrow_mut() = Some((msg, loc)));
    }));
}

/// Normalise a panic message into a root-cause signature: digits collapsed, quoted text dropped.
pub fn normalise_panic(msg: &str, loc: &str) -> String {
    let mut s = String::new();
    let mut last_hash = false;
    let chars: Vec<char> = msg.chars().take(160).collect();
    for (i, &c) in chars.iter().enumerate() {
        let lone_digit = c.is_ascii_digit()
            && !(i > 0 && chars[i - 1].is_ascii_digit())
            && !chars.get(i + 1).map(|d| d.is_ascii_digit()).unwrap_or(false);
        if lone_digit {
            s.push(c);
            last_hash = false;
        } else if c.is_ascii_digit() {
            if !last_hash {
                s.push('#');
                last_hash = true;
            }
        } else if c == '\n' {
            s.push(' ');
            last_hash = false;
        } else {
            s.push(c);
            last_hash = false;
        }
    }
    // keep the file (not line) of the panic location; strip registry prefixes
    let file = loc.rsplit_once(':').map(|x| x.0).unwrap_or(loc);
    let file = if let Some(i) = file.find("/crates/") {
        &file[i + 1..]
    } else if let Some(i) = file.find("/registry/src/") {
        let r = &file[i + 14..];
        r.split_once('/').map(|x| x.1).unwrap_or(r)
    } else {
        file
    };
    format!("{} @{}", s.trim(), file)
}

// Crash phase tags: a check announces what it is about to call (`phase("Schema::validate")`) so that
// a worker killed by a signal (stack overflow, abort) is attributed to that call and not merely to
// the case: the signature becomes `<ID>|crash|<phase>|<status>`. The tag goes to a side file of the
// worker's trace file (`VERIF_PHASE_FILE`), which the parent reads after the child died.
static PHASE_FILE: std::sync::OnceLock<Mutex<Option<std::fs::File>>> = std::sync::OnceLock::new();

pub fn set_phase_file(path: &str) {
    let f = std::fs::OpenOptions::new().create(true).write(true).truncate(true).open(path).ok();
    let _ = PHASE_FILE.set(Mutex::new(f));
}

/// Announce the call that is about to run ("" clears it). Cheap: one positioned write.
pub fn phase(tag: &str) {
    if let Some(m) = PHASE_FILE.get() {
        if let Ok(mut g) = m.lock() {
            if let Some(f) = g.as_mut() {
                use std::io::{Seek, SeekFrom};
                let _ = f.seek(SeekFrom::Start(0));
                let _ = f.write_all(format!("{:<64}", truncate(tag, 60)).as_bytes());
            }
        }
    }
}

fn read_phase(path: &str) -> String {
    let t = std::fs::read_to_string(path).unwrap_or_default();
    let _ = std::fs::remove_file(path);
    t.trim().to_string()
}

fn crash_sig(prop: &str, phase: &str, status: &str) -> String {
    if phase.is_empty() {
        format!("{}|crash|{}", prop, status)
    } else {
        format!("{}|crash|{}|{}", prop, phase, status)
    }
}

/// Run `f`, converting a panic into `Outcome::Fail` with a `panic|...` signature.
pub fn guarded<F: FnOnce() -> Outcome>(prop: &str, f: F) -> Outcome {
    LAST_PANIC.with(|p| *p.borrow_mut() = None);
    match catch_unwind(AssertUnwindSafe(f)) {
        Ok(o) => o,
        Err(_) => {
            let (msg, loc) = LAST_PANIC
                .with(|p| p.borrow_mut().take())
                .unwrap_or_else(|| ("<unknown panic>".into(), String::new()));
            Outcome::Fail {
                sig: format!("{}|panic|{}", prop, normalise_panic(&msg, &loc)),
                detail: format!("panic: {} at {}", msg, loc),
            }
        }
    }
}

/// Catch a panic inside a check and describe it; for checks that want to tag the entry point.
pub fn catch<R, F: FnOnce() -> R>(f: F) -> Result<R, (String, String)> {
    LAST_PANIC.with(|p| *p.borrow_mut() = None);
    match catch_unwind(AssertUnwindSafe(f)) {
        Ok(r) => Ok(r),
        Err(_) => Err(LAST_PANIC
            .with(|p| p.borrow_mut().take())
            .unwrap_or_else(|| ("<unknown panic>".into(), String::new()))),
    }
}

// ------------------------------------------------------------------------------------------------
// Case generation through proptest

fn case_seed(seed: u64, prop: &str, stage: usize, index: u64) -> [u8; 32] {
    let mut s = [0u8; 32];
    let a = fnv(format!("{}|{}|{}|{}", seed, prop, stage, index).as_bytes());
    let b = fnv(format!("b{}|{}|{}|{}", index, stage, prop, seed).as_bytes());
    let c = a.rotate_left(17) ^ b.wrapping_mul(0x9E3779B97F4A7C15);
    let d = b.rotate_left(29) ^ a.wrapping_mul(0xC2B2AE3D27D4EB4F);
    s[0..8].copy_from_slice(&a.to_le_bytes());
    s[8..16].copy_from_slice(&b.to_le_bytes());
    s[16..24].copy_from_slice(&c.to_le_bytes());
    s[24..32].copy_from_slice(&d.to_le_bytes());
    s
}

fn byte_strategy(max_len: usize) -> impl Strategy<Value = Vec<u8>> {
    use proptest::prelude::*;
    // three shapes of choice vector: uniform bytes; sparse (mostly the simplest choice);
    // short uniform. All are `vec(u8)`, so proptest shrinks them the same way.
    let uniform = proptest::collection::vec(any::<u8>(), 0..=max_len);
    let sparse = proptest::collection::vec(
        prop_oneof![3 => Just(0u8), 2 => any::<u8>(), 1 => 200u8..=255u8],
        0..=max_len,
    );
    let short = proptest::collection::vec(any::<u8>(), 0..=(max_len / 8).max(4));
    prop_oneof![6 => uniform, 2 => sparse, 2 => short]
}

pub fn gen_case(seed: u64, prop: &str, stage: usize, index: u64, max_len: usize) -> Vec<u8> {
    let rng = TestRng::from_seed(RngAlgorithm::ChaCha, &case_seed(seed, prop, stage, index));
    let mut runner = TestRunner::new_with_rng(
        Config {
            failure_persistence: None,
            ..Config::default()
        },
        rng,
    );
    byte_strategy(max_len)
        .new_tree(&mut runner)
        .expect("vec strategy cannot fail")
        .current()
}

/// Shrink with proptest's value tree (simplify/complicate), keeping the same signature.
fn shrink_case(
    seed: u64,
    prop: &'static str,
    stage: usize,
    index: u64,
    max_len: usize,
    check: CheckFn,
    tier: Tier,
    want_sig: &str,
) -> Vec<u8> {
    let rng = TestRng::from_seed(RngAlgorithm::ChaCha, &case_seed(seed, prop, stage, index));
    let mut runner = TestRunner::new_with_rng(
        Config {
            failure_persistence: None,
            ..Config::default()
        },
        rng,
    );
    let mut tree = byte_strategy(max_len).new_tree(&mut runner).unwrap();
    let fails = |bytes: &[u8]| -> bool {
        let mut ctx = Ctx::new(tier, false);
        ctx.index = index;
        matches!(guarded(prop, || check(bytes, &mut ctx)), Outcome::Fail { sig, .. } if sig == want_sig)
    };
    let mut best = tree.current();
    let mut iters = 0;
    let deadline = Instant::now() + Duration::from_secs(60);
    // standard proptest shrink loop
    'outer: while tree.simplify() {
        loop {
            iters += 1;
            if iters > 20_000 || Instant::now() > deadline {
                break 'outer;
            }
            let cur = tree.current();
            if fails(&cur) {
                best = cur;
                break;
            }
            if !tree.complicate() {
                break 'outer;
            }
        }
    }
    // extra deterministic passes on the byte vector: block deletion and zeroing
    let mut cur = best;
    let mut improved = true;
    while improved && Instant::now() < deadline {
        improved = false;
        let mut size = (cur.len() / 2).max(1);
        while size >= 1 {
            let mut i = 0;
            while i + size <= cur.len() {
                let mut cand = cur.clone();
                cand.drain(i..i + size);
                if fails(&cand) {
                    cur = cand;
                    improved = true;
                } else {
                    i += size;
                }
                if Instant::now() > deadline {
                    break;
                }
            }
            if size == 1 {
                break;
            }
            size /= 2;
        }
        for i in 0..cur.len() {
            if cur[i] != 0 {
                for v in [0u8, cur[i] / 2, cur[i].saturating_sub(1)] {
                    if v < cur[i] {
                        let mut cand = cur.clone();
                        cand[i] = v;
                        if fails(&cand) {
                            cur = cand;
                            improved = true;
                            break;
                        }
                    }
                }
            }
        }
        // drop trailing zeros (equivalent to exhaustion)
        while cur.last() == Some(&0) {
            let mut cand = cur.clone();
            cand.pop();
            if fails(&cand) {
                cur = cand;
            } else {
                break;
            }
        }
    }
    cur
}

// ------------------------------------------------------------------------------------------------
// Worker

pub struct WorkerArgs {
    pub prop: &'static Prop,
    pub stage: usize,
    pub seed: u64,
    pub tier: Tier,
    pub start: u64,
    pub end: u64,
    pub trace: Option<String>,
    pub no_shrink: bool,
}

struct WorkerAcc {
    evals: u64,
    sub_evals: u64,
    skipped: BTreeMap<String, u64>,
    keys: BTreeSet<u64>,
    classes: BTreeMap<String, u64>,
    samples: BTreeMap<String, Value>,
    known: BTreeMap<String, (u64, String)>,
    failures: Vec<Failure>,
}

/// Runs cases `start..end` of a stage in this process; prints one JSON object on stdout.
pub fn worker_main(a: WorkerArgs) -> i32 {
    install_panic_hook();
    set_known_for(a.prop.id);
    let known: Vec<String> = load_known(a.prop.id).into_iter().map(|k| k.sig).collect();
    let progress = Arc::new(AtomicU64::new(u64::MAX));
    let started = Arc::new(Mutex::new(Instant::now()));
    let done = Arc::new(AtomicU64::new(0));
    let result: Arc<Mutex<Option<Value>>> = Arc::new(Mutex::new(None));

    let prop = a.prop;
    let stage_idx = a.stage;
    let (seed, tier, start, end) = (a.seed, a.tier, a.start, a.end);
    let trace = a.trace.clone();
    let no_shrink = a.no_shrink;
    let p2 = progress.clone();
    let s2 = started.clone();
    let d2 = done.clone();
    let r2 = result.clone();
    let handle = std::thread::Builder::new()
        .name("cases".into())
        .stack_size(prop.stack_kib * 1024)
        .spawn(move || {
            let mut acc = WorkerAcc {
                evals: 0,
                sub_evals: 0,
                skipped: BTreeMap::new(),
                keys: BTreeSet::new(),
                classes: BTreeMap::new(),
                samples: BTreeMap::new(),
                known: BTreeMap::new(),
                failures: vec![],
            };
            let mut trace_file = trace
                .as_ref()
                .and_then(|p| std::fs::OpenOptions::new().create(true).write(true).truncate(true).open(p).ok());
            let stage = &prop.stages[stage_idx];
            if let Some(t) = trace.as_ref() {
                set_phase_file(&format!("{}.phase", t));
            }
            let already_shrunk: Vec<String> = std::env::var("VERIF_SHRUNK_SIGS").map(|s| s.split('\n').filter(|x| !x.is_empty()).map(|x| x.to_string()).collect()).unwrap_or_default();
            for index in start..end {
                phase("");
                p2.store(index, Ordering::SeqCst);
                *s2.lock().unwrap() = Instant::now();
                if let Some(f) = trace_file.as_mut() {
                    use std::io::{Seek, SeekFrom};
                    let _ = f.seek(SeekFrom::Start(0));
                    let _ = f.write_all(format!("{:020}", index).as_bytes());
                }
                let mut ctx = Ctx::new(tier, false);
                ctx.index = index;
                let (outcome, bytes) = match &stage.kind {
                    StageKind::Random { check, max_len, .. } => {
                        let bytes = gen_case(seed, prop.id, stage_idx, index, max_len(tier));
                        (guarded(prop.id, || check(&bytes, &mut ctx)), Some(bytes))
                    }
                    StageKind::Enumerated { check, .. } => {
                        (guarded(prop.id, || check(index, &mut ctx)), None)
                    }
                };
                acc.evals += 1;
                acc.sub_evals += ctx.sub_evals;
                if let Some(why) = ctx.skipped {
                    *acc.skipped.entry(why.to_string()).or_insert(0) += 1;
                }
                for c in &ctx.classes {
                    *acc.classes.entry(c.clone()).or_insert(0) += 1;
                }
                match outcome {
                    Outcome::Pass => {
                        if ctx.nontrivial && ctx.skipped.is_none() {
                            let key = ctx.key.unwrap_or_else(|| match (&ctx.sample, &bytes) {
                                (Some(s), _) => fnv(s.as_bytes()),
                                (None, Some(b)) => fnv(b),
                                (None, None) => index,
                            });
                            acc.keys.insert(key);
                            let cls = ctx.classes.first().cloned().unwrap_or_default();
                            if acc.samples.len() < 24 && !acc.samples.contains_key(&cls) {
                                if let Some(s) = &ctx.sample {
                                    acc.samples.insert(
                                        cls.clone(),
                                        json!({"stage": stage.name, "index": index, "class": cls, "case": truncate(s, 600)}),
                                    );
                                }
                            }
                        }
                    }
                    Outcome::Fail { sig, detail } => {
                        if known.iter().any(|k| *k == sig) {
                            if ctx.nontrivial {
                                acc.keys.insert(ctx.key.unwrap_or_else(|| match (&ctx.sample, &bytes) {
                                    (Some(s), _) => fnv(s.as_bytes()),
                                    (None, Some(b)) => fnv(b),
                                    (None, None) => index,
                                }));
                            }
                            let e = acc.known.entry(sig.clone()).or_insert((0, String::new()));
                            e.0 += 1;
                            if e.1.is_empty() {
                                e.1 = truncate(ctx.sample.as_deref().unwrap_or(""), 300);
                            }
                            continue;
                        }
                        // unknown failure: shrink (random stages), then report — once per signature
                        if acc.failures.iter().any(|f| f.sig == sig) {
                            continue;
                        }
                        // signatures another worker of this run already shrank: report, do not shrink again
                        let no_shrink = no_shrink || already_shrunk.iter().any(|x| *x == sig);
                        let mut fail = Failure {
                            stage: stage.name.to_string(),
                            index,
                            bytes: bytes.clone(),
                            sig: sig.clone(),
                            detail,
                            rendered: ctx.sample.clone().unwrap_or_default(),
                            shrunk: false,
                        };
                        if let (StageKind::Random { check, max_len, .. }, false) = (&stage.kind, no_shrink) {
                            let small = shrink_case(seed, prop.id, stage_idx, index, max_len(tier), *check, tier, &sig);
                            let mut c2 = Ctx::new(tier, false);
                            c2.index = index;
                            if let Outcome::Fail { sig: s2, detail: d2 } = guarded(prop.id, || check(&small, &mut c2)) {
                                if s2 == sig {
                                    fail.bytes = Some(small);
                                    fail.detail = d2;
                                    fail.rendered = c2.sample.clone().unwrap_or_default();
                                    fail.shrunk = true;
                                }
                            }
                        }
                        // only keep one failure per signature per worker
                        if !acc.failures.iter().any(|f| f.sig == fail.sig) {
                            acc.failures.push(fail);
                        }
                        if acc.failures.len() >= 5 {
                            break;
                        }
                    }
                }
            }
            let v = json!({
                "evals": acc.evals,
                "sub_evals": acc.sub_evals,
                "skipped": acc.skipped,
                "keys": acc.keys.iter().map(|k| format!("{:x}", k)).collect::<Vec<_>>(),
                "classes": acc.classes,
                "samples": acc.samples.values().cloned().collect::<Vec<_>>(),
                "known": acc.known.iter().map(|(k, v)| (k.clone(), json!({"count": v.0, "example": v.1}))).collect::<Map<String, Value>>(),
                "failures": acc.failures.iter().map(|f| f.to_json(prop.id)).collect::<Vec<_>>(),
            });
            *r2.lock().unwrap() = Some(v);
            d2.store(1, Ordering::SeqCst);
        })
        .expect("spawn case thread");

    // watchdog loop
    // A case is reported as hanging when it has been running for more than the timeout of wall time AND
    // this process burnt at least half of that as CPU time since the case started (so a worker that is
    // merely starved on a loaded machine is not reported), or after ten times the timeout regardless
    // (a deadlock burns no CPU). Either way the verdict is INCONCLUSIVE, never a violation.
    let timeout = Duration::from_secs(prop.case_timeout_s);
    let mut seen_idx = u64::MAX;
    let mut cpu_at_change = process_cpu_seconds();
    loop {
        std::thread::sleep(Duration::from_millis(50));
        if done.load(Ordering::SeqCst) == 1 {
            break;
        }
        if handle.is_finished() {
            break;
        }
        let cur = progress.load(Ordering::SeqCst);
        if cur != seen_idx {
            seen_idx = cur;
            cpu_at_change = process_cpu_seconds();
        }
        let st = *started.lock().unwrap();
        let wall = st.elapsed();
        if wall > timeout
            && (wall > timeout * 10 || process_cpu_seconds() - cpu_at_change >= timeout.as_secs_f64() / 2.0)
        {
            let idx = progress.load(Ordering::SeqCst);
            println!("{}", json!({"hang": idx}));
            let _ = std::io::stdout().flush();
            return 3;
        }
    }
    let _ = handle.join();
    let v = result.lock().unwrap().take();
    match v {
        Some(v) => {
            println!("{}", v);
            0
        }
        None => 4,
    }
}

/// CPU time (user + system) consumed by this process so far, from /proc/self/stat; 0 if unavailable.
fn process_cpu_seconds() -> f64 {
    let Ok(stat) = std::fs::read_to_string("/proc/self/stat") else { return 0.0 };
    // the command name (field 2) may contain spaces: fields are counted after the closing parenthesis
    let Some(rest) = stat.rsplit_once(')').map(|x| x.1) else { return 0.0 };
    let f: Vec<&str> = rest.split_whitespace().collect();
    // rest starts at field 3 (state): utime is field 14, stime field 15
    let ut: f64 = f.get(11).and_then(|x| x.parse().ok()).unwrap_or(0.0);
    let stt: f64 = f.get(12).and_then(|x| x.parse().ok()).unwrap_or(0.0);
    (ut + stt) / 100.0
}

pub fn truncate(s: &str, n: usize) -> String {
    if s.len() <= n {
        return s.to_string();
    }
    let mut end = n;
    while !s.is_char_boundary(end) {
        end -= 1;
    }
    format!("{}…[{} bytes]", &s[..end], s.len())
}

// ------------------------------------------------------------------------------------------------
// Parent

struct Chunk {
    stage: usize,
    start: u64,
    end: u64,
}

struct Merged {
    evals: u64,
    sub_evals: u64,
    skipped: BTreeMap<String, u64>,
    keys: BTreeSet<u64>,
    classes: BTreeMap<String, u64>,
    samples: Vec<Value>,
    known: BTreeMap<String, (u64, String)>,
    failures: Vec<Failure>,
    inconclusive: Vec<String>,
    per_stage: BTreeMap<String, u64>,
    notes: Vec<String>,
}

fn merge_worker(m: &mut Merged, v: &Value, stage_name: &str) {
    let e = v["evals"].as_u64().unwrap_or(0);
    m.evals += e;
    *m.per_stage.entry(stage_name.to_string()).or_insert(0) += e;
    m.sub_evals += v["sub_evals"].as_u64().unwrap_or(0);
    if let Some(o) = v["skipped"].as_object() {
        for (k, c) in o {
            *m.skipped.entry(k.clone()).or_insert(0) += c.as_u64().unwrap_or(0);
        }
    }
    if let Some(a) = v["keys"].as_array() {
        for k in a {
            if let Some(s) = k.as_str() {
                if let Ok(x) = u64::from_str_radix(s, 16) {
                    m.keys.insert(x);
                }
            }
        }
    }
    if let Some(o) = v["classes"].as_object() {
        for (k, c) in o {
            *m.classes.entry(k.clone()).or_insert(0) += c.as_u64().unwrap_or(0);
        }
    }
    if let Some(a) = v["samples"].as_array() {
        for s in a {
            let cls = s["class"].as_str().unwrap_or("");
            if m.samples.len() < 12 && !m.samples.iter().any(|x| x["class"].as_str() == Some(cls)) {
                m.samples.push(s.clone());
            }
        }
    }
    if let Some(o) = v["known"].as_object() {
        for (k, c) in o {
            let e = m.known.entry(k.clone()).or_insert((0, String::new()));
            e.0 += c["count"].as_u64().unwrap_or(0);
            if e.1.is_empty() {
                e.1 = c["example"].as_str().unwrap_or("").to_string();
            }
        }
    }
    if let Some(a) = v["failures"].as_array() {
        for f in a {
            let f = Failure::from_json(f);
            if f.shrunk {
                if let Ok(mut v) = SHRUNK_SIGS.lock() {
                    if !v.contains(&f.sig) {
                        v.push(f.sig.clone());
                    }
                }
            }
            // keep one failure per signature, preferring a shrunk one
            match m.failures.iter().position(|x| x.sig == f.sig) {
                None => m.failures.push(f),
                Some(i) if f.shrunk && !m.failures[i].shrunk => m.failures[i] = f,
                Some(_) => {}
            }
        }
    }
}

fn work_dir() -> String {
    let d = format!("{}/.work", verif_root());
    let _ = std::fs::create_dir_all(&d);
    d
}

enum WorkerResult {
    Ok(Value),
    Hang(u64),
    Crash { index: Option<u64>, status: String, phase: String },
}

/// Signatures for which some worker of this run already produced a shrunk failure.
static SHRUNK_SIGS: Mutex<Vec<String>> = Mutex::new(Vec::new());

fn run_worker(cfg: &RunCfg, stage: usize, start: u64, end: u64, no_shrink: bool) -> WorkerResult {
    let trace = format!("{}/trace-{}-{}-{}-{}", work_dir(), cfg.prop, stage, start, std::process::id());
    let mut cmd = Command::new(&cfg.exe);
    cmd.arg("worker")
        .arg("--prop").arg(cfg.prop)
        .arg("--stage").arg(stage.to_string())
        .arg("--seed").arg(cfg.seed.to_string())
        .arg("--tier").arg(cfg.tier.name())
        .arg("--start").arg(start.to_string())
        .arg("--end").arg(end.to_string())
        .arg("--trace").arg(&trace)
        .env("VERIF_SHRUNK_SIGS", SHRUNK_SIGS.lock().map(|v| v.join("\n")).unwrap_or_default())
        .stdin(Stdio::null())
        .stdout(Stdio::piped())
        .stderr(Stdio::null());
    if no_shrink {
        cmd.arg("--no-shrink");
    }
    let out = match cmd.output() {
        Ok(o) => o,
        Err(e) => {
            return WorkerResult::Crash { index: None, status: format!("spawn failed: {}", e), phase: String::new() }
        }
    };
    let text = String::from_utf8_lossy(&out.stdout);
    let last = text.lines().last().unwrap_or("");
    let parsed: Option<Value> = serde_json::from_str(last).ok();
    let idx = std::fs::read_to_string(&trace).ok().and_then(|s| s.trim().parse::<u64>().ok());
    let _ = std::fs::remove_file(&trace);
    let phase = read_phase(&format!("{}.phase", trace));
    match (out.status.code(), parsed) {
        (Some(0), Some(v)) => WorkerResult::Ok(v),
        (Some(3), Some(v)) if v.get("hang").is_some() => WorkerResult::Hang(v["hang"].as_u64().unwrap_or(0)),
        _ => WorkerResult::Crash { index: idx, status: format!("{:?}", out.status), phase },
    }
}

pub struct RunSummary {
    pub exit: i32,
}

pub fn run_property(prop: &'static Prop, tier: Tier, seed: u64, exe: &str) -> RunSummary {
    let t0 = Instant::now();
    let cfg = RunCfg { tier, seed, prop: prop.id, exe: exe.to_string() };
    let known = load_known(prop.id);
    let mut merged = Merged {
        evals: 0,
        sub_evals: 0,
        skipped: BTreeMap::new(),
        keys: BTreeSet::new(),
        classes: BTreeMap::new(),
        samples: vec![],
        known: BTreeMap::new(),
        failures: vec![],
        inconclusive: vec![],
        per_stage: BTreeMap::new(),
        notes: vec![],
    };
    let mut lines: Vec<String> = vec![];

    // 1. replay known-finding repros and regressions (strict, in a child each)
    let mut known_alive: Vec<&Known> = vec![];
    for k in &known {
        let path = format!("{}/{}", verif_root(), k.repro);
        match replay_in_child(&cfg, &path, Some(&k.sig)) {
            ReplayResult::Fail(sig, _) if sig == k.sig => known_alive.push(k),
            ReplayResult::Fail(sig, _) if known.iter().any(|x| x.sig == sig) => {
                lines.push(format!("note: repro {} of known finding {} now fails with the (also listed) signature {}", k.repro, k.sig, sig));
            }
            ReplayResult::Fail(sig, detail) => {
                // the repro now fails differently: that is a new violation
                merged.failures.push(Failure {
                    stage: "known-repro".into(), index: 0, bytes: None, sig, detail,
                    rendered: format!("repro {}", k.repro), shrunk: false,
                });
            }
            ReplayResult::Pass => {
                lines.push(format!("note: known finding no longer reproduces: {} ({})", k.sig, k.repro));
            }
            ReplayResult::Error(e) => merged.inconclusive.push(format!("replay {}: {}", k.repro, e)),
        }
    }
    let mut regressions = 0u64;
    let regdir = format!("{}/regressions/{}", verif_root(), prop.id);
    if let Ok(rd) = std::fs::read_dir(&regdir) {
        let mut files: Vec<_> = rd.filter_map(|e| e.ok()).map(|e| e.path()).filter(|p| p.extension().map(|x| x == "json").unwrap_or(false)).collect();
        files.sort();
        for p in files {
            regressions += 1;
            match replay_in_child(&cfg, p.to_str().unwrap(), None) {
                ReplayResult::Pass => {}
                ReplayResult::Fail(sig, detail) => {
                    if known.iter().any(|k| k.sig == sig) { continue; }
                    if !merged.failures.iter().any(|f| f.sig == sig) {
                        let j: Value = std::fs::read_to_string(&p).ok().and_then(|s| serde_json::from_str(&s).ok()).unwrap_or(Value::Null);
                        let mut f = Failure::from_json(&j);
                        f.sig = sig; f.detail = detail; f.stage = format!("regression:{}", f.stage);
                        merged.failures.push(f);
                    }
                }
                ReplayResult::Error(e) => merged.inconclusive.push(format!("replay {}: {}", p.display(), e)),
            }
        }
    }

    // 2. random / enumerated stages over a pool of worker processes
    let jobs: usize = std::env::var("VERIF_JOBS").ok().and_then(|s| s.parse().ok()).unwrap_or(16);
    let mut chunks: Vec<Chunk> = vec![];
    for (si, st) in prop.stages.iter().enumerate() {
        let total = match &st.kind {
            StageKind::Random { cases, .. } => cases(tier),
            StageKind::Enumerated { total, .. } => total(tier),
        };
        if total == 0 { continue; }
        let nchunks = ((jobs * 3) as u64).min(total).max(1);
        let per = st.block.unwrap_or_else(|| total.div_ceil(nchunks));
        let mut s = 0;
        while s < total {
            let e = (s + per).min(total);
            chunks.push(Chunk { stage: si, start: s, end: e });
            s = e;
        }
    }
    let queue = Arc::new(Mutex::new(chunks));
    let merged = Arc::new(Mutex::new(merged));
    let cfg = Arc::new(cfg);
    let mut handles = vec![];
    for _ in 0..jobs {
        let queue = queue.clone();
        let merged = merged.clone();
        let cfg = cfg.clone();
        handles.push(std::thread::spawn(move || loop {
            let chunk = { queue.lock().unwrap().pop() };
            let Some(chunk) = chunk else { break };
            let stage_name = prop.stages[chunk.stage].name;
            let mut start = chunk.start;
            let mut crashes = 0;
            while start < chunk.end {
                match run_worker(&cfg, chunk.stage, start, chunk.end, false) {
                    WorkerResult::Ok(v) => {
                        merge_worker(&mut merged.lock().unwrap(), &v, stage_name);
                        break;
                    }
                    WorkerResult::Hang(idx) => {
                        // re-run the case alone: only a case that trips the watchdog twice is inconclusive
                        match run_worker(&cfg, chunk.stage, idx, idx + 1, true) {
                            WorkerResult::Ok(v) => {
                                let mut m = merged.lock().unwrap();
                                merge_worker(&mut m, &v, stage_name);
                                m.notes.push(format!("watchdog tripped at stage={} index={} but the case completes when re-run alone (machine load)", stage_name, idx));
                            }
                            _ => {
                                merged.lock().unwrap().inconclusive.push(format!("watchdog: stage={} index={} exceeded {}s (twice)", stage_name, idx, prop.case_timeout_s));
                            }
                        }
                        // the cases before idx are lost from the counts; continue after it
                        start = idx + 1;
                    }
                    WorkerResult::Crash { index, status, .. } => {
                        crashes += 1;
                        let Some(idx) = index else {
                            merged.lock().unwrap().inconclusive.push(format!("worker died without trace: {}", status));
                            break;
                        };
                        // confirm alone
                        match run_worker(&cfg, chunk.stage, idx, idx + 1, true) {
                            WorkerResult::Crash { status: st2, phase: ph2, .. } => {
                                let bytes = match &prop.stages[chunk.stage].kind {
                                    StageKind::Random { max_len, .. } => Some(gen_case(cfg.seed, prop.id, chunk.stage, idx, max_len(cfg.tier))),
                                    _ => None,
                                };
                                let sig = crash_sig(prop.id, &ph2, &st2);
                                let known_sigs: Vec<String> = load_known(prop.id).into_iter().map(|k| k.sig).collect();
                                let mut m = merged.lock().unwrap();
                                if known_sigs.contains(&sig) {
                                    let e = m.known.entry(sig).or_insert((0, String::new()));
                                    e.0 += 1;
                                } else if !m.failures.iter().any(|f| f.sig == sig) {
                                    m.failures.push(Failure {
                                        stage: stage_name.to_string(), index: idx, bytes, sig,
                                        detail: format!("worker process died ({}) while running this case; reproduced alone", st2),
                                        rendered: String::new(), shrunk: false,
                                    });
                                }
                            }
                            WorkerResult::Ok(v) => {
                                // did not reproduce alone: merge it and note
                                let mut m = merged.lock().unwrap();
                                merge_worker(&mut m, &v, stage_name);
                                m.inconclusive.push(format!("worker died ({}) at stage={} index={} but the case passes alone", status, stage_name, idx));
                            }
                            WorkerResult::Hang(_) => {
                                merged.lock().unwrap().inconclusive.push(format!("watchdog on re-run: stage={} index={}", stage_name, idx));
                            }
                        }
                        // re-run the part before idx without the crashing case is not needed for
                        // soundness (those cases passed or the worker would have reported); they
                        // are simply not counted. Continue after the crashing case.
                        start = idx + 1;
                        if crashes > 20 { break; }
                    }
                }
            }
        }));
    }
    for h in handles {
        let _ = h.join();
    }
    let mut merged = Arc::try_unwrap(merged).ok().expect("threads joined").into_inner().unwrap();
    let cfg = Arc::try_unwrap(cfg).ok().expect("threads joined");

    // 3. custom stage
    let mut notes: Vec<String> = std::mem::take(&mut merged.notes);
    if let Some(custom) = prop.custom {
        let rep = custom(&cfg);
        merged.evals += rep.evaluations;
        *merged.per_stage.entry("custom".into()).or_insert(0) += rep.evaluations;
        merged.keys.extend(rep.nontrivial_keys.iter().cloned());
        for (k, v) in rep.classes { *merged.classes.entry(k).or_insert(0) += v; }
        for s in rep.samples { if merged.samples.len() < 16 { merged.samples.push(s); } }
        let known_sigs: Vec<String> = known.iter().map(|k| k.sig.clone()).collect();
        for f in rep.failures {
            if known_sigs.contains(&f.sig) {
                merged.known.entry(f.sig.clone()).or_insert((0, f.rendered.clone())).0 += 1;
            } else if !merged.failures.iter().any(|x| x.sig == f.sig) {
                merged.failures.push(f);
            }
        }
        notes.extend(rep.notes);
        if let Some(i) = rep.inconclusive { merged.inconclusive.push(i); }
    }

    // 4. report
    let wall = t0.elapsed().as_secs_f64();
    let mut exit = 0;
    for k in &known_alive {
        println!("KNOWN-FINDING: property={} {} [sig={}]", prop.id, k.what, k.sig);
    }
    for l in &lines { println!("{}", l); }
    let replay_dir = format!("{}/replays/{}", verif_root(), prop.id);
    for f in &merged.failures {
        let _ = std::fs::create_dir_all(&replay_dir);
        let name = format!("{}/{:016x}.json", replay_dir, fnv(f.sig.as_bytes()));
        let _ = std::fs::write(&name, serde_json::to_string_pretty(&f.to_json(prop.id)).unwrap());
        println!("VIOLATION property={} replay={}", prop.id, name);
        println!("  sig: {}", f.sig);
        println!("  detail: {}", truncate(&f.detail, 1500));
        if !f.rendered.is_empty() { println!("  case: {}", truncate(&f.rendered, 1500)); }
        exit = 1;
    }
    if exit == 0 && !merged.inconclusive.is_empty() {
        for i in &merged.inconclusive { println!("INCONCLUSIVE property={} {}", prop.id, i); }
        exit = 2;
    }
    let exhaustive = prop.custom.is_none()
        && !prop.stages.is_empty()
        && prop.stages.iter().all(|s| matches!(s.kind, StageKind::Enumerated { .. }));
    if merged.samples.is_empty() {
        merged.samples.push(json!({"note": "no non-trivial sample rendered in this run"}));
    }
    let evidence = json!({
        "property_id": prop.id,
        "tier": tier.name(),
        "seed": seed,
        "level": "exploration",
        "coverage": {
            "evaluations": merged.evals,
            "distinct_nontrivial": merged.keys.len(),
            "rule": prop.rule,
            "samples": merged.samples,
            "classes": merged.classes,
            "per_stage_evaluations": merged.per_stage,
            "sub_evaluations": merged.sub_evals,
            "skipped": merged.skipped,
            "known_findings_excluded": merged.known.iter().map(|(k, v)| (k.clone(), json!({"count": v.0, "example": v.1}))).collect::<Map<String, Value>>(),
            "known_findings_reproduced": known_alive.iter().map(|k| k.sig.clone()).collect::<Vec<_>>(),
            "regressions_replayed": regressions,
            "exhaustive": exhaustive,
            "inconclusive": merged.inconclusive,
            "notes": notes,
        },
        "assumptions": prop.assumptions,
        "wall_s": (wall * 100.0).round() / 100.0,
        "violations": merged.failures.len(),
    });
    let evdir = format!("{}/evidence", verif_root());
    let _ = std::fs::create_dir_all(&evdir);
    let _ = std::fs::write(format!("{}/{}.json", evdir, prop.id), serde_json::to_string_pretty(&evidence).unwrap() + "\n");
    println!(
        "{} {} tier={} seed={} evaluations={} distinct_nontrivial={} known_excluded={} violations={} wall={:.1}s",
        if exit == 0 { "OK" } else if exit == 1 { "FAIL" } else { "INCONCLUSIVE" },
        prop.id, tier.name(), seed, merged.evals, merged.keys.len(),
        merged.known.values().map(|v| v.0).sum::<u64>(), merged.failures.len(), wall
    );
    RunSummary { exit }
}

// ------------------------------------------------------------------------------------------------
// Replay

pub enum ReplayResult {
    Pass,
    Fail(String, String),
    Error(String),
}

fn replay_in_child(cfg: &RunCfg, path: &str, expect: Option<&str>) -> ReplayResult {
    let mut cmd = Command::new(&cfg.exe);
    if let Some(e) = expect {
        cmd.arg("replay-raw").arg("--expect").arg(e);
    } else {
        cmd.arg("replay-raw");
    }
    let phase_path = format!("{}/phase-replay-{}-{:016x}", work_dir(), std::process::id(), fnv(path.as_bytes()));
    let out = cmd
        .arg("--prop").arg(cfg.prop)
        .arg("--tier").arg(cfg.tier.name())
        .arg("--file").arg(path)
        .env("VERIF_PHASE_FILE", &phase_path)
        .stdin(Stdio::null())
        .stderr(Stdio::null())
        .output();
    let phase = read_phase(&phase_path);
    let out = match out { Ok(o) => o, Err(e) => return ReplayResult::Error(e.to_string()) };
    let text = String::from_utf8_lossy(&out.stdout);
    let last = text.lines().last().unwrap_or("");
    match serde_json::from_str::<Value>(last) {
        Ok(v) => {
            if v["outcome"] == "pass" { ReplayResult::Pass }
            else if v["outcome"] == "fail" {
                ReplayResult::Fail(v["sig"].as_str().unwrap_or("").to_string(), v["detail"].as_str().unwrap_or("").to_string())
            } else { ReplayResult::Error(format!("bad replay output: {}", last)) }
        }
        Err(_) => {
            if out.status.code().is_none() || out.status.code() == Some(134) || out.status.code() == Some(139) {
                ReplayResult::Fail(crash_sig(cfg.prop, &phase, &format!("{:?}", out.status)), format!("process died: {:?} (phase {:?})", out.status, phase))
            } else {
                ReplayResult::Error(format!("replay child exit {:?}: {}", out.status, truncate(&text, 200)))
            }
        }
    }
}

/// Runs one saved case in this process (on a thread with the property's stack size) and prints
/// a JSON verdict line. Used by the parent and by `check --replay`.
pub fn replay_raw(prop: &'static Prop, tier: Tier, path: &str) -> (i32, Value) {
    install_panic_hook();
    if let Ok(p) = std::env::var("VERIF_PHASE_FILE") {
        set_phase_file(&p);
    }
    set_known_for(prop.id);
    let Ok(text) = std::fs::read_to_string(path) else {
        return (4, json!({"outcome": "error", "detail": format!("cannot read {}", path)}));
    };
    let Ok(j) = serde_json::from_str::<Value>(&text) else {
        return (4, json!({"outcome": "error", "detail": "bad json"}));
    };
    if let (Some(text), Some(tc)) = (j["text"].as_str(), prop.text_check) {
        let text = text.to_string();
        let pid = prop.id;
        let res = std::thread::Builder::new()
            .stack_size(prop.stack_kib * 1024)
            .spawn(move || {
                let mut ctx = Ctx::new(tier, true);
                let o = guarded(pid, || tc(&text, &mut ctx));
                (o, ctx.sample.or(Some(text)))
            })
            .unwrap()
            .join();
        return match res {
            Ok((Outcome::Pass, sample)) => (0, json!({"outcome": "pass", "case": sample})),
            Ok((Outcome::Fail { sig, detail }, sample)) => (1, json!({"outcome": "fail", "sig": sig, "detail": detail, "case": sample})),
            Err(_) => (4, json!({"outcome": "error", "detail": "replay thread panicked"})),
        };
    }
    let stage_name = j["stage"].as_str().unwrap_or("").trim_start_matches("regression:").to_string();
    let stage = prop.stages.iter().find(|s| s.name == stage_name).or_else(|| prop.stages.first());
    let Some(stage) = stage else {
        return (4, json!({"outcome": "error", "detail": "property has no stages"}));
    };
    let bytes = j["hex"].as_str().map(unhex);
    let index = j["index"].as_u64().unwrap_or(0);
    let pid = prop.id;
    let res = std::thread::Builder::new()
        .stack_size(prop.stack_kib * 1024)
        .spawn(move || {
            let mut ctx = Ctx::new(tier, true);
            ctx.index = index;
            let o = match (&stage.kind, bytes) {
                (StageKind::Random { check, .. }, Some(b)) => guarded(pid, || check(&b, &mut ctx)),
                (StageKind::Enumerated { check, .. }, _) => guarded(pid, || check(index, &mut ctx)),
                _ => Outcome::fail("replay|bad-file", "random stage without hex"),
            };
            (o, ctx.sample)
        })
        .unwrap()
        .join();
    match res {
        Ok((Outcome::Pass, sample)) => (0, json!({"outcome": "pass", "case": sample})),
        Ok((Outcome::Fail { sig, detail }, sample)) => (1, json!({"outcome": "fail", "sig": sig, "detail": detail, "case": sample})),
        Err(_) => (4, json!({"outcome": "error", "detail": "replay thread panicked"})),
    }
}

// ------------------------------------------------------------------------------------------------
// Fuzz-stage support (see fuzzapi.rs, /verif/fuzz, tools/fuzz_stage.sh)

fn find_stage(prop: &'static Prop, name: &str) -> Option<(usize, &'static Stage)> {
    prop.stages
        .iter()
        .enumerate()
        .find(|(_, s)| s.name == name)
        .or_else(|| prop.stages.iter().enumerate().find(|(_, s)| matches!(s.kind, StageKind::Random { .. })))
}

/// Seed corpus for a fuzz campaign: the first `n` generated cases of a random stage as raw files,
/// plus the byte vectors of saved regressions / known repros / replays of that stage.
pub fn write_corpus(prop: &'static Prop, stage_name: &str, seed: u64, n: u64, out: &str) -> i32 {
    let _ = std::fs::create_dir_all(out);
    if stage_name == "@text" {
        // text mode: the repository's own test inputs plus saved {"text":...} files
        let mut k = 0u64;
        for dir in ["regressions", "known", "replays"] {
            let d = format!("{}/{}/{}", verif_root(), dir, prop.id);
            if let Ok(rd) = std::fs::read_dir(&d) {
                let mut files: Vec<_> = rd.flatten().map(|e| e.path()).collect();
                files.sort();
                for f in files {
                    if let Ok(j) = std::fs::read_to_string(&f).map_err(|_| ()).and_then(|s| serde_json::from_str::<Value>(&s).map_err(|_| ())) {
                        if let Some(t) = j["text"].as_str() {
                            let _ = std::fs::write(format!("{}/saved-{}", out, k), t);
                            k += 1;
                        }
                    }
                }
            }
        }
        println!("{}", k);
        return 0;
    }
    let Some((si, st)) = find_stage(prop, stage_name) else { return 4 };
    let StageKind::Random { max_len, .. } = &st.kind else { return 4 };
    let ml = max_len(Tier::Thorough);
    for i in 0..n {
        let b = gen_case(seed, prop.id, si, i, ml);
        let _ = std::fs::write(format!("{}/gen-{}", out, i), &b);
    }
    let mut k = 0;
    for dir in ["regressions", "known", "replays"] {
        let d = format!("{}/{}/{}", verif_root(), dir, prop.id);
        if let Ok(rd) = std::fs::read_dir(&d) {
            let mut files: Vec<_> = rd.flatten().map(|e| e.path()).collect();
            files.sort();
            for f in files {
                if let Ok(j) = std::fs::read_to_string(&f).map_err(|_| ()).and_then(|s| serde_json::from_str::<Value>(&s).map_err(|_| ())) {
                    if j["stage"].as_str().map(|s| s.trim_start_matches("regression:") == st.name).unwrap_or(false) {
                        if let Some(h) = j["hex"].as_str() {
                            let _ = std::fs::write(format!("{}/saved-{}", out, k), unhex(h));
                            k += 1;
                        }
                    }
                }
            }
        }
    }
    println!("{}", n + k);
    0
}

/// Deciding step for a fuzzer-found input: re-run the raw input in the standard build, in a child
/// process on the property's stack size. Exit 0: passes or is a listed known finding; 1: confirmed
/// (VIOLATION line printed, replay file written under replays/<ID>/).
pub fn confirm_raw(prop: &'static Prop, tier: Tier, stage_name: &str, raw: &str, exe: &str) -> i32 {
    install_panic_hook();
    set_known_for(prop.id);
    let Ok(bytes) = std::fs::read(raw) else {
        eprintln!("cannot read {}", raw);
        return 4;
    };
    let known: Vec<String> = load_known(prop.id).into_iter().map(|k| k.sig).collect();
    let cfg = RunCfg { tier, seed: 0, prop: prop.id, exe: exe.to_string() };
    let h = fnv(&bytes);
    let tmp = format!("{}/confirm-{:016x}.json", work_dir(), h);
    let file_json = |b: &[u8], sig: &str, detail: &str| -> Value {
        if stage_name == "@text" {
            json!({"property": prop.id, "text": String::from_utf8_lossy(b), "sig": sig, "detail": detail, "found_by": "libFuzzer"})
        } else {
            let st = find_stage(prop, stage_name).map(|x| x.1.name).unwrap_or("");
            json!({"property": prop.id, "stage": st, "index": 0, "hex": hex(b), "sig": sig, "detail": detail, "found_by": "libFuzzer"})
        }
    };
    if stage_name == "@text" && std::str::from_utf8(&bytes).is_err() {
        println!("CONFIRM property={} input is not UTF-8: ignored", prop.id);
        return 0;
    }
    let _ = std::fs::write(&tmp, file_json(&bytes, "", "").to_string());
    let res = replay_in_child(&cfg, &tmp, None);
    let _ = std::fs::remove_file(&tmp);
    match res {
        ReplayResult::Pass => {
            println!("CONFIRM property={} input {} passes in the standard build (not a violation)", prop.id, raw);
            0
        }
        ReplayResult::Error(e) => {
            println!("CONFIRM property={} replay error: {}", prop.id, e);
            2
        }
        ReplayResult::Fail(sig, detail) => {
            if known.contains(&sig) {
                println!("CONFIRM property={} input {} is the known finding {}", prop.id, raw, sig);
                return 0;
            }
            // shrink by block deletion / zeroing while the signature stays the same (children, so a
            // crash cannot take this process down)
            let mut cur = bytes.clone();
            let deadline = Instant::now() + Duration::from_secs(60);
            let fails = |b: &[u8]| -> bool {
                let t = format!("{}/confirm-{:016x}-s.json", work_dir(), fnv(b));
                let _ = std::fs::write(&t, file_json(b, "", "").to_string());
                let r = replay_in_child(&cfg, &t, None);
                let _ = std::fs::remove_file(&t);
                matches!(r, ReplayResult::Fail(s, _) if s == sig)
            };
            let mut size = (cur.len() / 2).max(1);
            while size >= 1 && Instant::now() < deadline {
                let mut i = 0;
                while i + size <= cur.len() && Instant::now() < deadline {
                    let mut cand = cur.clone();
                    cand.drain(i..i + size);
                    if (stage_name != "@text" || std::str::from_utf8(&cand).is_ok()) && fails(&cand) {
                        cur = cand;
                    } else {
                        i += size;
                    }
                }
                if size == 1 {
                    break;
                }
                size /= 2;
            }
            let dir = format!("{}/replays/{}", verif_root(), prop.id);
            let _ = std::fs::create_dir_all(&dir);
            let path = format!("{}/fuzz-{:016x}.json", dir, fnv(&cur));
            let _ = std::fs::write(&path, serde_json::to_string_pretty(&file_json(&cur, &sig, &detail)).unwrap() + "\n");
            println!("detail: {}", truncate(&detail, 1500));
            println!("VIOLATION property={} replay={}", prop.id, path);
            1
        }
    }
}
