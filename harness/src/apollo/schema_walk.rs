//! Order-sensitive observation of `apollo_compiler::Schema` / `ExecutableDocument` (C12, C13).
//!
//! `Schema`'s `==` compares `IndexMap`s / `IndexSet`s, which ignores order. The walk below lists
//! every ordered collection explicitly (one line per collection, names in iteration order) and one
//! line per leaf fact (keyed by NAME, not by index, so a reordering shows up only on the
//! collection line). No oracle logic lives here.

use apollo_compiler::ast;
use apollo_compiler::schema::{self, ExtendedType};
use apollo_compiler::{ExecutableDocument, Node, Schema};
use std::collections::BTreeMap;

#[derive(Clone, Debug, PartialEq)]
pub struct Line {
    /// what kind of fact this is (goes into failure signatures)
    pub kind: &'static str,
    /// unique path of the fact
    pub path: String,
    pub value: String,
}

#[derive(Clone, Debug)]
pub struct Diff {
    pub kind: &'static str,
    pub path: String,
    pub left: Option<String>,
    pub right: Option<String>,
}

fn push(out: &mut Vec<Line>, kind: &'static str, path: String, value: String) {
    out.push(Line { kind, path, value });
}

fn desc(d: &Option<Node<str>>) -> String {
    match d {
        None => "-".to_string(),
        Some(s) => format!("{:?}", &**s),
    }
}

fn ast_dirs(d: &ast::DirectiveList) -> String {
    d.iter().map(|x| x.to_string()).collect::<Vec<_>>().join(" ")
}

fn schema_dirs(d: &schema::DirectiveList) -> String {
    d.iter().map(|x| x.node.to_string()).collect::<Vec<_>>().join(" ")
}

fn input_value(out: &mut Vec<Line>, kinds: [&'static str; 4], path: &str, v: &ast::InputValueDefinition) {
    push(out, kinds[0], format!("{path}.type"), v.ty.to_string());
    push(out, kinds[1], format!("{path}.default"), v.default_value.as_ref().map(|d| d.to_string()).unwrap_or_else(|| "-".into()));
    push(out, kinds[2], format!("{path}.directives"), ast_dirs(&v.directives));
    push(out, kinds[3], format!("{path}.description"), desc(&v.description));
}

fn fields(out: &mut Vec<Line>, tn: &str, fs: &apollo_compiler::collections::IndexMap<apollo_compiler::Name, schema::Component<ast::FieldDefinition>>) {
    push(out, "fields", format!("{tn}.fields"), fs.keys().map(|k| k.to_string()).collect::<Vec<_>>().join(","));
    for (fname, f) in fs {
        let p = format!("{tn}.{fname}");
        push(out, "field-type", format!("{p}.type"), f.ty.to_string());
        push(out, "field-directives", format!("{p}.directives"), ast_dirs(&f.directives));
        push(out, "field-description", format!("{p}.description"), desc(&f.description));
        push(out, "arguments", format!("{p}.args"), f.arguments.iter().map(|a| a.name.to_string()).collect::<Vec<_>>().join(","));
        for (i, a) in f.arguments.iter().enumerate() {
            // duplicate argument names are possible in schemas that build; disambiguate by occurrence
            let dup = f.arguments[..i].iter().filter(|b| b.name == a.name).count();
            let ap = if dup == 0 { format!("{p}({})", a.name) } else { format!("{p}({}#{})", a.name, dup) };
            input_value(out, ["argument-type", "argument-default", "argument-directives", "argument-description"], &ap, a);
        }
    }
}

/// Every ordered collection and every leaf fact of a schema.
pub fn walk_schema(s: &Schema) -> Vec<Line> {
    let mut out = vec![];
    // schema definition
    let sd = &s.schema_definition;
    push(&mut out, "schema-description", "<schema>.description".into(), desc(&sd.description));
    push(&mut out, "schema-directives", "<schema>.directives".into(), schema_dirs(&sd.directives));
    for (k, r) in [("query", &sd.query), ("mutation", &sd.mutation), ("subscription", &sd.subscription)] {
        push(&mut out, "root-operation", format!("<schema>.{k}"), r.as_ref().map(|n| n.name.to_string()).unwrap_or_else(|| "-".into()));
    }
    // directive definitions
    push(&mut out, "directive-definitions", "<directive-definitions>".into(), s.directive_definitions.keys().map(|k| k.to_string()).collect::<Vec<_>>().join(","));
    for (name, d) in &s.directive_definitions {
        let p = format!("@{name}");
        push(&mut out, "directive-definition", format!("{p}.head"), format!("repeatable={} on {}", d.repeatable, d.locations.iter().map(|l| l.to_string()).collect::<Vec<_>>().join("|")));
        push(&mut out, "directive-description", format!("{p}.description"), desc(&d.description));
        push(&mut out, "directive-arguments", format!("{p}.args"), d.arguments.iter().map(|a| a.name.to_string()).collect::<Vec<_>>().join(","));
        for (i, a) in d.arguments.iter().enumerate() {
            let dup = d.arguments[..i].iter().filter(|b| b.name == a.name).count();
            let ap = if dup == 0 { format!("{p}({})", a.name) } else { format!("{p}({}#{})", a.name, dup) };
            input_value(&mut out, ["directive-argument-type", "directive-argument-default", "directive-argument-directives", "directive-argument-description"], &ap, a);
        }
    }
    // types
    push(&mut out, "types", "<types>".into(), s.types.keys().map(|k| k.to_string()).collect::<Vec<_>>().join(","));
    for (name, ty) in &s.types {
        let tn = format!("type {name}");
        let kind = match ty {
            ExtendedType::Scalar(_) => "scalar",
            ExtendedType::Object(_) => "object",
            ExtendedType::Interface(_) => "interface",
            ExtendedType::Union(_) => "union",
            ExtendedType::Enum(_) => "enum",
            ExtendedType::InputObject(_) => "input",
        };
        push(&mut out, "type-kind", format!("{tn}.kind"), kind.into());
        push(&mut out, "type-description", format!("{tn}.description"), ty.description().map(|d| format!("{:?}", &**d)).unwrap_or_else(|| "-".into()));
        push(&mut out, "type-directives", format!("{tn}.directives"), schema_dirs(ty.directives()));
        match ty {
            ExtendedType::Scalar(_) => {}
            ExtendedType::Object(o) => {
                push(&mut out, "implements", format!("{tn}.implements"), o.implements_interfaces.iter().map(|n| n.name.to_string()).collect::<Vec<_>>().join(","));
                fields(&mut out, &tn, &o.fields);
            }
            ExtendedType::Interface(o) => {
                push(&mut out, "implements", format!("{tn}.implements"), o.implements_interfaces.iter().map(|n| n.name.to_string()).collect::<Vec<_>>().join(","));
                fields(&mut out, &tn, &o.fields);
            }
            ExtendedType::Union(u) => {
                push(&mut out, "members", format!("{tn}.members"), u.members.iter().map(|n| n.name.to_string()).collect::<Vec<_>>().join(","));
            }
            ExtendedType::Enum(e) => {
                push(&mut out, "values", format!("{tn}.values"), e.values.keys().map(|k| k.to_string()).collect::<Vec<_>>().join(","));
                for (vn, v) in &e.values {
                    push(&mut out, "value-directives", format!("{tn}.{vn}.directives"), ast_dirs(&v.directives));
                    push(&mut out, "value-description", format!("{tn}.{vn}.description"), desc(&v.description));
                }
            }
            ExtendedType::InputObject(i) => {
                push(&mut out, "input-fields", format!("{tn}.fields"), i.fields.keys().map(|k| k.to_string()).collect::<Vec<_>>().join(","));
                for (fname, f) in &i.fields {
                    input_value(&mut out, ["input-field-type", "input-field-default", "input-field-directives", "input-field-description"], &format!("{tn}.{fname}"), f);
                }
            }
        }
    }
    out
}

/// Operation and fragment names in order (the bodies are compared through serialization / `==`).
pub fn walk_executable(d: &ExecutableDocument) -> Vec<Line> {
    let mut out = vec![];
    push(
        &mut out,
        "anonymous-operation",
        "anonymous".into(),
        d.operations.anonymous.as_ref().map(|o| o.operation_type.to_string()).unwrap_or_else(|| "-".into()),
    );
    push(&mut out, "operations", "operations".into(), d.operations.named.keys().map(|k| k.to_string()).collect::<Vec<_>>().join(","));
    for (n, o) in &d.operations.named {
        push(&mut out, "operation-type", format!("op {n}"), o.operation_type.to_string());
    }
    push(&mut out, "fragments", "fragments".into(), d.fragments.keys().map(|k| k.to_string()).collect::<Vec<_>>().join(","));
    for (n, f) in &d.fragments {
        push(&mut out, "fragment-type-condition", format!("fragment {n}"), f.type_condition().to_string());
    }
    out
}

/// Facts that differ between two walks, in the order of `a` (then facts only in `b`).
pub fn diff(a: &[Line], b: &[Line]) -> Vec<Diff> {
    let mut out = vec![];
    let bm: BTreeMap<&str, &Line> = b.iter().map(|l| (l.path.as_str(), l)).collect();
    let am: BTreeMap<&str, &Line> = a.iter().map(|l| (l.path.as_str(), l)).collect();
    // paths are unique by construction; a duplicate would silently mask facts
    if am.len() != a.len() || bm.len() != b.len() {
        out.push(Diff { kind: "harness-duplicate-path", path: "<walk>".into(), left: None, right: None });
    }
    for l in a {
        match bm.get(l.path.as_str()) {
            None => out.push(Diff { kind: l.kind, path: l.path.clone(), left: Some(l.value.clone()), right: None }),
            Some(r) if r.value != l.value => out.push(Diff { kind: l.kind, path: l.path.clone(), left: Some(l.value.clone()), right: Some(r.value.clone()) }),
            _ => {}
        }
    }
    for r in b {
        if !am.contains_key(r.path.as_str()) {
            out.push(Diff { kind: r.kind, path: r.path.clone(), left: None, right: Some(r.value.clone()) });
        }
    }
    out
}

// ------------------------------------------------------------------------------------------------
// Order facts in the vocabulary of `refmodel::order` (same paths, same canonical rendering of
// directive applications), so that the built schema can be compared with the order the SOURCE
// document implies. Only observation: the expected side never sees apollo values.

fn canon_value(v: &ast::Value) -> String {
    match v {
        ast::Value::Int(i) => match i.as_str().parse::<i64>() {
            Ok(i) => i.to_string(),
            Err(_) => "<int>".into(),
        },
        ast::Value::Boolean(b) => b.to_string(),
        ast::Value::Null => "null".into(),
        ast::Value::Enum(e) => e.to_string(),
        ast::Value::Variable(n) => format!("${n}"),
        ast::Value::Float(_) => "<float>".into(),
        ast::Value::String(_) => "<string>".into(),
        ast::Value::List(_) => "<list>".into(),
        ast::Value::Object(_) => "<object>".into(),
    }
}

fn canon_directive(d: &ast::Directive) -> String {
    if d.arguments.is_empty() {
        return format!("@{}", d.name);
    }
    let args: Vec<String> = d.arguments.iter().map(|a| format!("{}: {}", a.name, canon_value(&a.value))).collect();
    format!("@{}({})", d.name, args.join(", "))
}

fn canon_ast_dirs(d: &ast::DirectiveList) -> String {
    d.iter().map(|x| canon_directive(x)).collect::<Vec<_>>().join(" ")
}

fn canon_schema_dirs(d: &schema::DirectiveList) -> String {
    d.iter().map(|x| canon_directive(&x.node)).collect::<Vec<_>>().join(" ")
}

fn order_args(out: &mut Vec<(String, String)>, owner: &str, args: &[Node<ast::InputValueDefinition>]) {
    out.push((format!("{owner}.args"), args.iter().map(|a| a.name.to_string()).collect::<Vec<_>>().join(",")));
    for (i, a) in args.iter().enumerate() {
        let dup = args[..i].iter().filter(|b| b.name == a.name).count();
        let ap = if dup == 0 { format!("{owner}({})", a.name) } else { format!("{owner}({}#{})", a.name, dup) };
        out.push((format!("{ap}.directives"), canon_ast_dirs(&a.directives)));
    }
}

/// `(path, value)` of every ordered collection; `skip_type` / `skip_directive` name the entries
/// that are left out of the `<types>` / `<directive-definitions>` lists (built-ins).
pub fn order_facts(s: &Schema, skip_type: &dyn Fn(&str) -> bool, skip_directive: &dyn Fn(&str) -> bool) -> Vec<(String, String)> {
    let mut out: Vec<(String, String)> = vec![];
    out.push(("<types>".into(), s.types.keys().filter(|k| !skip_type(k.as_str())).map(|k| k.to_string()).collect::<Vec<_>>().join(",")));
    for (name, ty) in &s.types {
        let tn = format!("type {name}");
        out.push((format!("{tn}.directives"), canon_schema_dirs(ty.directives())));
        let implements = |i: &apollo_compiler::collections::IndexSet<schema::ComponentName>| i.iter().map(|n| n.name.to_string()).collect::<Vec<_>>().join(",");
        let mut fields = |fs: &apollo_compiler::collections::IndexMap<apollo_compiler::Name, schema::Component<ast::FieldDefinition>>| {
            out.push((format!("{tn}.fields"), fs.keys().map(|k| k.to_string()).collect::<Vec<_>>().join(",")));
            for (fname, f) in fs {
                let p = format!("{tn}.{fname}");
                out.push((format!("{p}.directives"), canon_ast_dirs(&f.directives)));
                order_args(&mut out, &p, &f.arguments);
            }
        };
        match ty {
            ExtendedType::Scalar(_) => {}
            ExtendedType::Object(o) => {
                let i = implements(&o.implements_interfaces);
                fields(&o.fields);
                out.push((format!("{tn}.implements"), i));
            }
            ExtendedType::Interface(o) => {
                let i = implements(&o.implements_interfaces);
                fields(&o.fields);
                out.push((format!("{tn}.implements"), i));
            }
            ExtendedType::Union(u) => out.push((format!("{tn}.members"), u.members.iter().map(|n| n.name.to_string()).collect::<Vec<_>>().join(","))),
            ExtendedType::Enum(e) => {
                out.push((format!("{tn}.values"), e.values.keys().map(|k| k.to_string()).collect::<Vec<_>>().join(",")));
                for (vn, v) in &e.values {
                    out.push((format!("{tn}.{vn}.directives"), canon_ast_dirs(&v.directives)));
                }
            }
            ExtendedType::InputObject(i) => {
                out.push((format!("{tn}.fields"), i.fields.keys().map(|k| k.to_string()).collect::<Vec<_>>().join(",")));
                for (fname, f) in &i.fields {
                    out.push((format!("{tn}.{fname}.directives"), canon_ast_dirs(&f.directives)));
                }
            }
        }
    }
    out.push((
        "<directive-definitions>".into(),
        s.directive_definitions.keys().filter(|k| !skip_directive(k.as_str())).map(|k| k.to_string()).collect::<Vec<_>>().join(","),
    ));
    for (name, d) in &s.directive_definitions {
        order_args(&mut out, &format!("@{name}"), &d.arguments);
    }
    let sd = &s.schema_definition;
    out.push(("<schema>.directives".into(), canon_schema_dirs(&sd.directives)));
    for (k, r) in [("query", &sd.query), ("mutation", &sd.mutation), ("subscription", &sd.subscription)] {
        out.push((format!("<schema>.{k}"), r.as_ref().map(|n| n.name.to_string()).unwrap_or_else(|| "-".into())));
    }
    out
}

/// Diagnostic messages without file / line information.
pub fn messages(errors: &apollo_compiler::validation::DiagnosticList) -> Vec<String> {
    errors.iter().map(|d| d.error.to_string()).collect()
}

/// Message with every back-quoted name replaced, for signatures.
pub fn normalise_message(m: &str) -> String {
    if m.starts_with("adding ") && m.contains(", but `") {
        return "type-extension-kind-mismatch".into();
    }
    let mut out = String::new();
    let mut in_tick = false;
    for ch in m.chars() {
        if ch == '`' {
            in_tick = !in_tick;
            if in_tick {
                out.push('_');
            }
            continue;
        }
        if !in_tick {
            out.push(ch);
        }
    }
    let out: String = out.chars().take(80).collect();
    out
}
