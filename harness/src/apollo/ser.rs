//! Serialization configurations shared by the round-trip properties.
use crate::choices::Choices;
use apollo_compiler::ast::Serialize;

#[derive(Clone, Debug)]
pub struct SerCfg {
    /// None = default configuration untouched; Some(None) = no_indent; Some(Some(p)) = indent_prefix(p)
    pub indent: Option<Option<String>>,
    pub level: usize,
}

impl SerCfg {
    pub fn label(&self) -> String {
        match &self.indent {
            None => format!("default+{}", self.level),
            Some(None) => format!("no_indent+{}", self.level),
            Some(Some(p)) => format!("prefix{:?}+{}", p, self.level),
        }
    }
}

pub const PREFIXES: &[&str] = &["", " ", "  ", "\t", " \t", "    ", "\t\t"];

pub fn gen_cfg(c: &mut Choices) -> SerCfg {
    let indent = match c.weighted(&[35, 30, 35]) {
        0 => None,
        1 => Some(None),
        _ => Some(Some(c.pick(PREFIXES).to_string())),
    };
    let level = if c.bool(90) { c.range(1, 3) } else { 0 };
    SerCfg { indent, level }
}

pub fn render<T>(s: Serialize<'_, T>, cfg: &SerCfg) -> String
where
    for<'a> Serialize<'a, T>: std::fmt::Display,
{
    let mut s = s;
    let prefix;
    match &cfg.indent {
        None => {}
        Some(None) => s = s.no_indent(),
        Some(Some(p)) => {
            prefix = p.clone();
            // `indent_prefix` borrows for the lifetime of the Serialize value
            let leaked: &'static str = Box::leak(prefix.into_boxed_str());
            s = s.indent_prefix(leaked);
        }
    }
    if cfg.level > 0 {
        s = s.initial_indent_level(cfg.level);
    }
    s.to_string()
}
