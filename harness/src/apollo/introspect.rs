//! Observation adapter over apollo-compiler's introspection API (no oracle logic here).
use apollo_compiler::introspection;
use apollo_compiler::request::coerce_variable_values;
use apollo_compiler::response::JsonMap;
use apollo_compiler::validation::Valid;
use apollo_compiler::ExecutableDocument;
use apollo_compiler::Schema;

/// `Schema::parse_and_validate`; the error is the rendered diagnostics.
pub fn schema(sdl: &str) -> Result<Valid<Schema>, String> {
    Schema::parse_and_validate(sdl, "schema.graphql").map_err(|e| e.errors.to_string())
}

#[derive(Debug)]
pub enum DepthObs {
    /// the operation text does not validate against the schema (the check never applies)
    Invalid(String),
    NoOperation,
    Verdict { ok: bool, message: String },
}

/// `introspection::check_max_depth` on the first (anonymous or only) operation of `op_text`.
pub fn check_max_depth(schema: &Valid<Schema>, op_text: &str) -> DepthObs {
    let doc = match ExecutableDocument::parse_and_validate(schema, op_text, "op.graphql") {
        Ok(d) => d,
        Err(e) => return DepthObs::Invalid(e.errors.to_string()),
    };
    let Ok(op) = doc.operations.get(None) else {
        return DepthObs::NoOperation;
    };
    match introspection::check_max_depth(&doc, op) {
        Ok(()) => DepthObs::Verdict { ok: true, message: String::new() },
        Err(e) => DepthObs::Verdict { ok: false, message: e.to_graphql_error(&doc.sources).message },
    }
}

#[derive(Debug)]
pub enum ExecObs {
    /// the query does not validate against the schema
    Invalid(String),
    NoOperation,
    /// `coerce_variable_values` or `partial_execute` returned a request error
    RequestError(String),
    /// the serialised `ExecutionResponse` (`{"errors": [...]?, "data": ...}`)
    Response(serde_json::Value),
}

/// Parse + validate `query` against `schema`, then run `introspection::partial_execute` with
/// no variables and serialise the response.
pub fn partial_execute(schema: &Valid<Schema>, query: &str) -> ExecObs {
    let doc = match ExecutableDocument::parse_and_validate(schema, query, "query.graphql") {
        Ok(d) => d,
        Err(e) => return ExecObs::Invalid(e.errors.to_string()),
    };
    let Ok(op) = doc.operations.get(None) else {
        return ExecObs::NoOperation;
    };
    let vars = match coerce_variable_values(schema, op, &JsonMap::default()) {
        Ok(v) => v,
        Err(e) => return ExecObs::RequestError(e.to_graphql_error(&doc.sources).message),
    };
    let implementers = schema.implementers_map();
    match introspection::partial_execute(schema, &implementers, &doc, op, &vars) {
        Ok(resp) => match serde_json::to_value(&resp) {
            Ok(v) => ExecObs::Response(v),
            Err(e) => ExecObs::RequestError(format!("response does not serialise: {e}")),
        },
        Err(e) => ExecObs::RequestError(e.to_graphql_error(&doc.sources).message),
    }
}
