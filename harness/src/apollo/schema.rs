//! Adapter over apollo-compiler's schema entry points (observation only; no oracle logic).
use apollo_compiler::validation::{DiagnosticList, Valid};
use apollo_compiler::Schema;

/// Normalise a diagnostic message into a root-cause kind: quoted / back-quoted text dropped,
/// digits collapsed.
pub fn normalise_message(msg: &str) -> String {
    let mut out = String::new();
    let mut quote: Option<char> = None;
    for c in msg.chars().take(200) {
        match quote {
            Some(q) => {
                if c == q {
                    quote = None;
                    out.push('_');
                }
            }
            None => {
                if c == '`' || c == '"' {
                    quote = Some(c);
                } else if c.is_ascii_digit() {
                    if !out.ends_with('#') {
                        out.push('#');
                    }
                } else if c == '\n' {
                    out.push(' ');
                } else {
                    out.push(c);
                }
            }
        }
    }
    out.trim().to_string()
}

/// Sorted, de-duplicated kinds of the diagnostics (the internal error name where apollo has
/// one, the normalised message otherwise) and the full rendered messages.
pub fn diagnostic_kinds(errors: &DiagnosticList) -> (Vec<String>, String) {
    let mut kinds: Vec<String> = vec![];
    let mut text = String::new();
    for d in errors.iter() {
        let msg = d.error.to_string();
        let kind = match d.error.unstable_error_name() {
            Some(n) => n.to_string(),
            None => normalise_message(&msg),
        };
        if !kinds.contains(&kind) {
            kinds.push(kind);
        }
        if text.len() < 2000 {
            text.push_str(&msg);
            text.push_str("; ");
        }
    }
    kinds.sort();
    (kinds, text)
}

pub struct Rejected {
    pub kinds: Vec<String>,
    pub messages: String,
}

pub fn parse_and_validate(text: &str) -> Result<Valid<Schema>, Rejected> {
    match Schema::parse_and_validate(text, "s.graphql") {
        Ok(s) => Ok(s),
        Err(e) => {
            let (kinds, messages) = diagnostic_kinds(&e.errors);
            Err(Rejected { kinds, messages })
        }
    }
}
