//! Walks over apollo_compiler::ast documents (observation only).
use apollo_compiler::ast::{self, Definition, Selection, Value};
use apollo_compiler::{Name, Node};

/// Every string carried by the document, in source order, with a label of where it sits:
/// descriptions (`desc:<kind>`) and string values (`value:<context>`).
pub fn collect_strings(doc: &ast::Document) -> Vec<(String, String)> {
    let mut out = vec![];
    for def in &doc.definitions {
        definition(def, &mut out);
    }
    out
}

fn desc(d: &Option<Node<str>>, kind: &str, out: &mut Vec<(String, String)>) {
    if let Some(d) = d {
        out.push((format!("desc:{}", kind), d.to_string()));
    }
}

fn value(v: &Value, ctx: &str, out: &mut Vec<(String, String)>) {
    match v {
        Value::String(s) => out.push((format!("value:{}", ctx), s.clone())),
        Value::List(items) => {
            for i in items {
                value(i, &format!("{}[]", ctx), out);
            }
        }
        Value::Object(fields) => {
            for (_, x) in fields {
                value(x, &format!("{}{{}}", ctx), out);
            }
        }
        _ => {}
    }
}

fn directives(ds: &ast::DirectiveList, out: &mut Vec<(String, String)>) {
    for d in ds.iter() {
        for a in &d.arguments {
            value(&a.value, "directive-arg", out);
        }
    }
}

fn input_value(i: &ast::InputValueDefinition, kind: &str, out: &mut Vec<(String, String)>) {
    desc(&i.description, kind, out);
    if let Some(d) = &i.default_value {
        value(d, "default", out);
    }
    directives(&i.directives, out);
}

fn fields(fs: &[Node<ast::FieldDefinition>], out: &mut Vec<(String, String)>) {
    for f in fs {
        desc(&f.description, "field", out);
        for a in &f.arguments {
            input_value(a, "argument", out);
        }
        directives(&f.directives, out);
    }
}

fn selections(sels: &[Selection], out: &mut Vec<(String, String)>) {
    for s in sels {
        match s {
            Selection::Field(f) => {
                for a in &f.arguments {
                    value(&a.value, "arg", out);
                }
                directives(&f.directives, out);
                selections(&f.selection_set, out);
            }
            Selection::FragmentSpread(s) => directives(&s.directives, out),
            Selection::InlineFragment(i) => {
                directives(&i.directives, out);
                selections(&i.selection_set, out);
            }
        }
    }
}

fn definition(def: &Definition, out: &mut Vec<(String, String)>) {
    match def {
        Definition::OperationDefinition(o) => {
            for v in &o.variables {
                if let Some(d) = &v.default_value {
                    value(d, "var-default", out);
                }
                directives(&v.directives, out);
            }
            directives(&o.directives, out);
            selections(&o.selection_set, out);
        }
        Definition::FragmentDefinition(f) => {
            directives(&f.directives, out);
            selections(&f.selection_set, out);
        }
        Definition::DirectiveDefinition(d) => {
            desc(&d.description, "directive", out);
            for a in &d.arguments {
                input_value(a, "argument", out);
            }
        }
        Definition::SchemaDefinition(s) => {
            desc(&s.description, "schema", out);
            directives(&s.directives, out);
        }
        Definition::ScalarTypeDefinition(t) => {
            desc(&t.description, "type", out);
            directives(&t.directives, out);
        }
        Definition::ObjectTypeDefinition(t) => {
            desc(&t.description, "type", out);
            directives(&t.directives, out);
            fields(&t.fields, out);
        }
        Definition::InterfaceTypeDefinition(t) => {
            desc(&t.description, "type", out);
            directives(&t.directives, out);
            fields(&t.fields, out);
        }
        Definition::UnionTypeDefinition(t) => {
            desc(&t.description, "type", out);
            directives(&t.directives, out);
        }
        Definition::EnumTypeDefinition(t) => {
            desc(&t.description, "type", out);
            directives(&t.directives, out);
            for v in &t.values {
                desc(&v.description, "enum-value", out);
                directives(&v.directives, out);
            }
        }
        Definition::InputObjectTypeDefinition(t) => {
            desc(&t.description, "type", out);
            directives(&t.directives, out);
            for f in &t.fields {
                input_value(f, "input-field", out);
            }
        }
        Definition::SchemaExtension(s) => directives(&s.directives, out),
        Definition::ScalarTypeExtension(t) => directives(&t.directives, out),
        Definition::ObjectTypeExtension(t) => {
            directives(&t.directives, out);
            fields(&t.fields, out);
        }
        Definition::InterfaceTypeExtension(t) => {
            directives(&t.directives, out);
            fields(&t.fields, out);
        }
        Definition::UnionTypeExtension(t) => directives(&t.directives, out),
        Definition::EnumTypeExtension(t) => {
            directives(&t.directives, out);
            for v in &t.values {
                desc(&v.description, "enum-value", out);
                directives(&v.directives, out);
            }
        }
        Definition::InputObjectTypeExtension(t) => {
            directives(&t.directives, out);
            for f in &t.fields {
                input_value(f, "input-field", out);
            }
        }
    }
}

#[allow(dead_code)]
fn _unused(_: &Name) {}
