//! Walks over apollo_compiler::ast documents (observation only).
use apollo_compiler::ast::{self, Definition, Selection, Value};
use apollo_compiler::{Name, Node};

/// Every string carried by the document, in source order, with a label of where it sits:
/// descriptions (`desc:<kind>`) and string values (`value:<context>`).
pub fn collect_strings(doc: &ast::Document) -> Vec<(String, String)> {
    let mut out = vec![];
    for def in &doc.definitions {
        definition(def, &mut out);
    }
    out
}

fn desc(d: &Option<Node<str>>, kind: &str, out: &mut Vec<(String, String)>) {
    if let Some(d) = d {
        out.push((format!("desc:{}", kind), d.to_string()));
    }
}

fn value(v: &Value, ctx: &str, out: &mut Vec<(String, String)>) {
    match v {
        Value::String(s) => out.push((format!("value:{}", ctx), s.clone())),
        Value::List(items) => {
            for i in items {
                value(i, &format!("{}[]", ctx), out);
            }
        }
        Value::Object(fields) => {
            for (_, x) in fields {
                value(x, &format!("{}{{}}", ctx), out);
            }
        }
        _ => {}
    }
}

fn directives(ds: &ast::DirectiveList, out: &mut Vec<(String, String)>) {
    for d in ds.iter() {
        for a in &d.arguments {
            value(&a.value, "directive-arg", out);
        }
    }
}

fn input_value(i: &ast::InputValueDefinition, kind: &str, out: &mut Vec<(String, String)>) {
    desc(&i.description, kind, out);
    if let Some(d) = &i.default_value {
        value(d, "default", out);
    }
    directives(&i.directives, out);
}

fn fields(fs: &[Node<ast::FieldDefinition>], out: &mut Vec<(String, String)>) {
    for f in fs {
        desc(&f.description, "field", out);
        for a in &f.arguments {
            input_value(a, "argument", out);
        }
        directives(&f.directives, out);
    }
}

fn selections(sels: &[Selection], out: &mut Vec<(String, String)>) {
    for s in sels {
        match s {
            Selection::Field(f) => {
                for a in &f.arguments {
                    value(&a.value, "arg", out);
                }
                directives(&f.directives, out);
                selections(&f.selection_set, out);
            }
            Selection::FragmentSpread(s) => directives(&s.directives, out),
            Selection::InlineFragment(i) => {
                directives(&i.directives, out);
                selections(&i.selection_set, out);
            }
        }
    }
}

fn definition(def: &Definition, out: &mut Vec<(String, String)>) {
    match def {
        Definition::OperationDefinition(o) => {
            for v in &o.variables {
                if let Some(d) = &v.default_value {
                    value(d, "var-default", out);
                }
                directives(&v.directives, out);
            }
            directives(&o.directives, out);
            selections(&o.selection_set, out);
        }
        Definition::FragmentDefinition(f) => {
            directives(&f.directives, out);
            selections(&f.selection_set, out);
        }
        Definition::DirectiveDefinition(d) => {
            desc(&d.description, "directive", out);
            for a in &d.arguments {
                input_value(a, "argument", out);
            }
        }
        Definition::SchemaDefinition(s) => {
            desc(&s.description, "schema", out);
            directives(&s.directives, out);
        }
        Definition::ScalarTypeDefinition(t) => {
            desc(&t.description, "type", out);
            directives(&t.directives, out);
        }
        Definition::ObjectTypeDefinition(t) => {
            desc(&t.description, "type", out);
            directives(&t.directives, out);
            fields(&t.fields, out);
        }
        Definition::InterfaceTypeDefinition(t) => {
            desc(&t.description, "type", out);
            directives(&t.directives, out);
            fields(&t.fields, out);
        }
        Definition::UnionTypeDefinition(t) => {
            desc(&t.description, "type", out);
            directives(&t.directives, out);
        }
        Definition::EnumTypeDefinition(t) => {
            desc(&t.description, "type", out);
            directives(&t.directives, out);
            for v in &t.values {
                desc(&v.description, "enum-value", out);
                directives(&v.directives, out);
            }
        }
        Definition::InputObjectTypeDefinition(t) => {
            desc(&t.description, "type", out);
            directives(&t.directives, out);
            for f in &t.fields {
                input_value(f, "input-field", out);
            }
        }
        Definition::SchemaExtension(s) => directives(&s.directives, out),
        Definition::ScalarTypeExtension(t) => directives(&t.directives, out),
        Definition::ObjectTypeExtension(t) => {
            directives(&t.directives, out);
            fields(&t.fields, out);
        }
        Definition::InterfaceTypeExtension(t) => {
            directives(&t.directives, out);
            fields(&t.fields, out);
        }
        Definition::UnionTypeExtension(t) => directives(&t.directives, out),
        Definition::EnumTypeExtension(t) => {
            directives(&t.directives, out);
            for v in &t.values {
                desc(&v.description, "enum-value", out);
                directives(&v.directives, out);
            }
        }
        Definition::InputObjectTypeExtension(t) => {
            directives(&t.directives, out);
            for f in &t.fields {
                input_value(f, "input-field", out);
            }
        }
    }
}

#[allow(dead_code)]
fn _unused(_: &Name) {}

// ------------------------------------------------------------------------------------------------
// Locations of every Name and Node of an ast::Document

#[derive(Debug, Clone)]
pub struct Loc {
    pub label: String,
    /// Some(text) for names
    pub name: Option<String>,
    /// (file id is not exposed; start, end) when a location is present
    pub span: Option<(apollo_compiler::parser::FileId, usize, usize)>,
}

pub struct LocWalk {
    pub out: Vec<Loc>,
}

impl LocWalk {
    fn name(&mut self, label: &str, n: &Name) {
        self.out.push(Loc { label: label.to_string(), name: Some(n.to_string()), span: n.location().map(|l| (l.file_id(), l.offset(), l.end_offset())) });
    }
    fn node<T: ?Sized>(&mut self, label: &str, n: &Node<T>) {
        self.out.push(Loc { label: label.to_string(), name: None, span: n.location().map(|l| (l.file_id(), l.offset(), l.end_offset())) });
    }
    fn ty(&mut self, t: &ast::Type) {
        match t {
            ast::Type::Named(n) | ast::Type::NonNullNamed(n) => self.name("type-ref", n),
            ast::Type::List(i) | ast::Type::NonNullList(i) => self.ty(i),
        }
    }
    fn value(&mut self, v: &Node<Value>) {
        self.node("value", v);
        match &**v {
            Value::Enum(n) => self.name("enum-value-ref", n),
            Value::Variable(n) => self.name("variable-ref", n),
            Value::List(items) => {
                for i in items {
                    self.value(i);
                }
            }
            Value::Object(fields) => {
                for (k, x) in fields {
                    self.name("object-field-name", k);
                    self.value(x);
                }
            }
            _ => {}
        }
    }
    fn directives(&mut self, ds: &ast::DirectiveList) {
        for d in ds.iter() {
            self.node("directive", d);
            self.name("directive-name", &d.name);
            for a in &d.arguments {
                self.node("argument", a);
                self.name("argument-name", &a.name);
                self.value(&a.value);
            }
        }
    }
    fn desc(&mut self, d: &Option<Node<str>>) {
        if let Some(d) = d {
            self.node("description", d);
        }
    }
    fn input_value(&mut self, i: &Node<ast::InputValueDefinition>) {
        self.node("input-value-definition", i);
        self.desc(&i.description);
        self.name("input-value-name", &i.name);
        self.node("type", &i.ty);
        self.ty(&i.ty);
        if let Some(d) = &i.default_value {
            self.value(d);
        }
        self.directives(&i.directives);
    }
    fn fields(&mut self, fs: &[Node<ast::FieldDefinition>]) {
        for f in fs {
            self.node("field-definition", f);
            self.desc(&f.description);
            self.name("field-definition-name", &f.name);
            for a in &f.arguments {
                self.input_value(a);
            }
            self.ty(&f.ty);
            self.directives(&f.directives);
        }
    }
    fn selections(&mut self, sels: &[Selection]) {
        for s in sels {
            match s {
                Selection::Field(f) => {
                    self.node("field", f);
                    if let Some(a) = &f.alias {
                        self.name("alias", a);
                    }
                    self.name("field-name", &f.name);
                    for a in &f.arguments {
                        self.node("argument", a);
                        self.name("argument-name", &a.name);
                        self.value(&a.value);
                    }
                    self.directives(&f.directives);
                    self.selections(&f.selection_set);
                }
                Selection::FragmentSpread(s) => {
                    self.node("fragment-spread", s);
                    self.name("fragment-spread-name", &s.fragment_name);
                    self.directives(&s.directives);
                }
                Selection::InlineFragment(i) => {
                    self.node("inline-fragment", i);
                    if let Some(t) = &i.type_condition {
                        self.name("type-condition", t);
                    }
                    self.directives(&i.directives);
                    self.selections(&i.selection_set);
                }
            }
        }
    }
    fn roots(&mut self, roots: &[Node<(ast::OperationType, ast::NamedType)>]) {
        for r in roots {
            self.node("root-operation", r);
            self.name("root-operation-type", &r.1);
        }
    }

    pub fn document(doc: &ast::Document) -> Vec<Loc> {
        let mut w = LocWalk { out: vec![] };
        for def in &doc.definitions {
            match def {
                Definition::OperationDefinition(o) => {
                    w.node("operation", o);
                    if let Some(n) = &o.name {
                        w.name("operation-name", n);
                    }
                    for v in &o.variables {
                        w.node("variable-definition", v);
                        w.name("variable-name", &v.name);
                        w.node("type", &v.ty);
                        w.ty(&v.ty);
                        if let Some(d) = &v.default_value {
                            w.value(d);
                        }
                        w.directives(&v.directives);
                    }
                    w.directives(&o.directives);
                    w.selections(&o.selection_set);
                }
                Definition::FragmentDefinition(f) => {
                    w.node("fragment", f);
                    w.name("fragment-name", &f.name);
                    w.name("type-condition", &f.type_condition);
                    w.directives(&f.directives);
                    w.selections(&f.selection_set);
                }
                Definition::DirectiveDefinition(d) => {
                    w.node("directive-definition", d);
                    w.desc(&d.description);
                    w.name("directive-definition-name", &d.name);
                    for a in &d.arguments {
                        w.input_value(a);
                    }
                }
                Definition::SchemaDefinition(s) => {
                    w.node("schema-definition", s);
                    w.desc(&s.description);
                    w.directives(&s.directives);
                    w.roots(&s.root_operations);
                }
                Definition::SchemaExtension(s) => {
                    w.node("schema-extension", s);
                    w.directives(&s.directives);
                    w.roots(&s.root_operations);
                }
                Definition::ScalarTypeDefinition(t) => {
                    w.node("type-definition", t);
                    w.desc(&t.description);
                    w.name("type-name", &t.name);
                    w.directives(&t.directives);
                }
                Definition::ScalarTypeExtension(t) => {
                    w.node("type-extension", t);
                    w.name("type-name", &t.name);
                    w.directives(&t.directives);
                }
                Definition::ObjectTypeDefinition(t) => {
                    w.node("type-definition", t);
                    w.desc(&t.description);
                    w.name("type-name", &t.name);
                    for i in &t.implements_interfaces {
                        w.name("implements", i);
                    }
                    w.directives(&t.directives);
                    w.fields(&t.fields);
                }
                Definition::ObjectTypeExtension(t) => {
                    w.node("type-extension", t);
                    w.name("type-name", &t.name);
                    for i in &t.implements_interfaces {
                        w.name("implements", i);
                    }
                    w.directives(&t.directives);
                    w.fields(&t.fields);
                }
                Definition::InterfaceTypeDefinition(t) => {
                    w.node("type-definition", t);
                    w.desc(&t.description);
                    w.name("type-name", &t.name);
                    for i in &t.implements_interfaces {
                        w.name("implements", i);
                    }
                    w.directives(&t.directives);
                    w.fields(&t.fields);
                }
                Definition::InterfaceTypeExtension(t) => {
                    w.node("type-extension", t);
                    w.name("type-name", &t.name);
                    for i in &t.implements_interfaces {
                        w.name("implements", i);
                    }
                    w.directives(&t.directives);
                    w.fields(&t.fields);
                }
                Definition::UnionTypeDefinition(t) => {
                    w.node("type-definition", t);
                    w.desc(&t.description);
                    w.name("type-name", &t.name);
                    w.directives(&t.directives);
                    for m in &t.members {
                        w.name("union-member", m);
                    }
                }
                Definition::UnionTypeExtension(t) => {
                    w.node("type-extension", t);
                    w.name("type-name", &t.name);
                    w.directives(&t.directives);
                    for m in &t.members {
                        w.name("union-member", m);
                    }
                }
                Definition::EnumTypeDefinition(t) => {
                    w.node("type-definition", t);
                    w.desc(&t.description);
                    w.name("type-name", &t.name);
                    w.directives(&t.directives);
                    for v in &t.values {
                        w.node("enum-value-definition", v);
                        w.desc(&v.description);
                        w.name("enum-value-name", &v.value);
                        w.directives(&v.directives);
                    }
                }
                Definition::EnumTypeExtension(t) => {
                    w.node("type-extension", t);
                    w.name("type-name", &t.name);
                    w.directives(&t.directives);
                    for v in &t.values {
                        w.node("enum-value-definition", v);
                        w.desc(&v.description);
                        w.name("enum-value-name", &v.value);
                        w.directives(&v.directives);
                    }
                }
                Definition::InputObjectTypeDefinition(t) => {
                    w.node("type-definition", t);
                    w.desc(&t.description);
                    w.name("type-name", &t.name);
                    w.directives(&t.directives);
                    for f in &t.fields {
                        w.input_value(f);
                    }
                }
                Definition::InputObjectTypeExtension(t) => {
                    w.node("type-extension", t);
                    w.name("type-name", &t.name);
                    w.directives(&t.directives);
                    for f in &t.fields {
                        w.input_value(f);
                    }
                }
            }
        }
        w.out
    }
}
