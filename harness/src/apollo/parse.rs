//! Adapters over apollo-parser's syntax tree (observation only; no oracle logic).
use apollo_parser::cst::CstNode;
use apollo_parser::{Parser, SyntaxElement, SyntaxNode, SyntaxTree};

#[derive(Clone, Copy, Debug, PartialEq, Eq)]
pub enum Entry {
    Document,
    SelectionSet,
    Type,
}

impl Entry {
    pub fn name(self) -> &'static str {
        match self {
            Entry::Document => "parse",
            Entry::SelectionSet => "parse_selection_set",
            Entry::Type => "parse_type",
        }
    }
    pub const ALL: [Entry; 3] = [Entry::Document, Entry::SelectionSet, Entry::Type];
}

pub struct Parsed {
    pub root: SyntaxNode,
    pub errors: Vec<ParseError>,
    pub recursion_high: usize,
    pub recursion_limit: usize,
    pub token_high: usize,
    pub token_limit: usize,
}

#[derive(Clone, Debug)]
pub struct ParseError {
    pub message: String,
    pub index: usize,
    pub len: usize,
    pub is_limit: bool,
    pub is_eof: bool,
}

fn collect<T: CstNode>(tree: &SyntaxTree<T>, root: SyntaxNode) -> Parsed {
    Parsed {
        root,
        errors: tree
            .errors()
            .map(|e| ParseError { message: e.message().to_string(), index: e.index(), len: e.data().len(), is_limit: e.is_limit(), is_eof: e.is_eof() })
            .collect(),
        recursion_high: tree.recursion_limit().high,
        recursion_limit: tree.recursion_limit().limit,
        token_high: tree.token_limit().high,
        token_limit: tree.token_limit().limit,
    }
}

pub fn parse(entry: Entry, src: &str, token_limit: Option<usize>, recursion_limit: Option<usize>) -> Parsed {
    let mut p = Parser::new(src);
    if let Some(t) = token_limit {
        p = p.token_limit(t);
    }
    if let Some(r) = recursion_limit {
        p = p.recursion_limit(r);
    }
    match entry {
        Entry::Document => {
            let t = p.parse();
            let root = t.document().syntax().clone();
            collect(&t, root)
        }
        Entry::SelectionSet => {
            let t = p.parse_selection_set();
            let root = t.field_set().syntax().clone();
            collect(&t, root)
        }
        Entry::Type => {
            let t = p.parse_type();
            let root = t.ty().syntax().clone();
            collect(&t, root)
        }
    }
}

pub struct Walk {
    pub nodes: usize,
    pub tokens: usize,
    pub leaf_text: String,
    /// first structural problem found (range tiling / char boundaries)
    pub problem: Option<String>,
    pub max_depth: usize,
}

/// Full traversal (iterative: the harness must not add recursion of its own): counts,
/// concatenated leaf text, tiling and char-boundary checks.
pub fn walk(root: &SyntaxNode, src: &str) -> Walk {
    use rowan::WalkEvent;
    let mut w = Walk { nodes: 0, tokens: 0, leaf_text: String::new(), problem: None, max_depth: 0 };
    let mut depth = 0usize;
    for ev in root.preorder_with_tokens() {
        match ev {
            WalkEvent::Enter(SyntaxElement::Node(n)) => {
                depth += 1;
                w.nodes += 1;
                w.max_depth = w.max_depth.max(depth);
                let r = n.text_range();
                let (s, e) = (usize::from(r.start()), usize::from(r.end()));
                if w.problem.is_none() && (e > src.len() || !src.is_char_boundary(s) || !src.is_char_boundary(e)) {
                    w.problem = Some(format!("node {:?} range {}..{} not on char boundaries of the input", n.kind(), s, e));
                }
                if w.problem.is_none() {
                    let mut at = s;
                    for ch in n.children_with_tokens() {
                        let cr = ch.text_range();
                        let (cs, ce) = (usize::from(cr.start()), usize::from(cr.end()));
                        if cs != at {
                            w.problem = Some(format!("child of {:?} starts at {} but previous sibling ended at {}", n.kind(), cs, at));
                            break;
                        }
                        at = ce;
                    }
                    if w.problem.is_none() && at != e {
                        w.problem = Some(format!("children of {:?} end at {} but the node ends at {}", n.kind(), at, e));
                    }
                }
            }
            WalkEvent::Enter(SyntaxElement::Token(t)) => {
                w.tokens += 1;
                let cr = t.text_range();
                let (cs, ce) = (usize::from(cr.start()), usize::from(cr.end()));
                if w.problem.is_none() && (ce > src.len() || !src.is_char_boundary(cs) || !src.is_char_boundary(ce)) {
                    w.problem = Some(format!("token {:?} range {}..{} not on char boundaries of the input", t.kind(), cs, ce));
                }
                w.leaf_text.push_str(t.text());
            }
            WalkEvent::Leave(SyntaxElement::Node(_)) => depth -= 1,
            WalkEvent::Leave(SyntaxElement::Token(_)) => {}
        }
    }
    w
}

/// (KIND, name) of each top-level definition of a parsed document, e.g. ("OBJECT_TYPE_DEFINITION", Some("A")).
pub fn top_level(root: &SyntaxNode) -> Vec<(String, Option<String>)> {
    use apollo_parser::SyntaxKind as S;
    let mut out = vec![];
    for d in root.children() {
        if d.kind() == S::ERROR {
            continue;
        }
        let kind = format!("{:?}", d.kind());
        let mut name = None;
        for ch in d.children() {
            if ch.kind() == S::NAME {
                name = ident_of(&ch);
                break;
            }
            if ch.kind() == S::FRAGMENT_NAME {
                name = ch.children().find(|x| x.kind() == S::NAME).and_then(|x| ident_of(&x));
                break;
            }
        }
        out.push((kind, name));
    }
    out
}

pub fn screaming(camel: &str) -> String {
    let mut s = String::new();
    for (i, c) in camel.chars().enumerate() {
        if c.is_ascii_uppercase() && i > 0 {
            s.push('_');
        }
        s.push(c.to_ascii_uppercase());
    }
    s
}

fn ident_of(name_node: &SyntaxNode) -> Option<String> {
    name_node
        .children_with_tokens()
        .filter_map(|e| e.into_token())
        .find(|t| t.kind() == apollo_parser::SyntaxKind::IDENT)
        .map(|t| t.text().to_string())
}
