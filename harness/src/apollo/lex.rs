//! Thin adapters over apollo-parser's lexer output.
use apollo_parser::{Lexer, TokenKind};

#[derive(Debug, Clone)]
pub struct Item {
    pub ok: bool,
    pub kind: Option<TokenKind>,
    pub start: usize,
    pub len: usize,
    pub limit: bool,
    pub message: String,
}

/// All items (tokens and errors) in iteration order. Stops after `cap` items (a lexer that
/// yields more than `len + 2` items is not terminating properly).
pub fn items(src: &str, limit: Option<usize>, cap: usize) -> (Vec<Item>, bool) {
    let mut lx = Lexer::new(src);
    if let Some(l) = limit {
        lx = lx.with_limit(l);
    }
    let mut out = vec![];
    for it in lx {
        if out.len() >= cap {
            return (out, true);
        }
        match it {
            Ok(t) => out.push(Item { ok: true, kind: Some(t.kind()), start: t.index(), len: t.data().len(), limit: false, message: String::new() }),
            Err(e) => out.push(Item { ok: false, kind: None, start: e.index(), len: e.data().len(), limit: e.is_limit(), message: e.message().to_string() }),
        }
    }
    (out, false)
}
