pub mod lex;
pub mod parse;
pub mod schema_walk;
