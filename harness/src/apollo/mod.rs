pub mod lex;
pub mod parse;
