pub mod lex;
pub mod parse;
pub mod introspect;
