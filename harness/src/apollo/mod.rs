pub mod lex;
pub mod parse;
pub mod astwalk;
pub mod ser;
pub mod schema;
pub mod introspect;
pub mod schema_walk;
pub mod exec;
