pub mod lex;
