//! Observation adapter over `apollo_compiler::resolvers`: serves a resolver world
//! (`gen::worlds::World`, plain data) through `ObjectValue` (sync) and `AsyncObjectValue`
//! (async, with futures and streams that stay pending a scheduled number of polls), records the
//! resolver call log, and runs `Execution::execute_sync` / `execute_async` (the latter under a
//! hand-rolled single-threaded poll loop). No oracle logic in here.

use crate::gen::worlds::World;
use crate::refmodel::coerce::Json;
use crate::refmodel::executor::{path_string, CallRecord, Outcome, Path, Seg};
use apollo_compiler::resolvers::{AsyncObjectValue, AsyncResolvedValue, Execution, FieldError, ObjectValue, ResolveInfo, ResolvedValue};
use apollo_compiler::response::{ExecutionResponse, JsonMap as AJsonMap, JsonValue as AJson, ResponseDataPathSegment};
use apollo_compiler::validation::Valid;
use apollo_compiler::{ExecutableDocument, Schema};
use futures::future::BoxFuture;
use futures::stream::BoxStream;
use futures::Stream;
use std::future::Future;
use std::pin::Pin;
use std::sync::atomic::{AtomicBool, AtomicUsize, Ordering};
use std::sync::{Arc, Mutex};
use std::task::{Context, Poll, Wake, Waker};

pub fn to_apollo(v: &Json) -> AJson {
    match v {
        Json::Null => AJson::Null,
        Json::Bool(b) => AJson::Bool(*b),
        Json::Number(n) => AJson::Number(n.clone()),
        Json::String(s) => AJson::String(s.as_str().into()),
        Json::Array(a) => AJson::Array(a.iter().map(to_apollo).collect()),
        Json::Object(o) => AJson::Object(o.iter().map(|(k, v)| (k.as_str().into(), to_apollo(v))).collect()),
    }
}

pub fn from_apollo(v: &AJson) -> Json {
    match v {
        AJson::Null => Json::Null,
        AJson::Bool(b) => Json::Bool(*b),
        AJson::Number(n) => Json::Number(n.clone()),
        AJson::String(s) => Json::String(s.as_str().to_string()),
        AJson::Array(a) => Json::Array(a.iter().map(from_apollo).collect()),
        AJson::Object(o) => Json::Object(o.iter().map(|(k, v)| (k.as_str().to_string(), from_apollo(v))).collect()),
    }
}

pub fn from_apollo_map(m: &AJsonMap) -> serde_json::Map<String, Json> {
    m.iter().map(|(k, v)| (k.as_str().to_string(), from_apollo(v))).collect()
}

/// What happened, in order.
#[derive(Clone, Debug, PartialEq)]
pub enum Event {
    /// `resolve_field` was called
    Call(CallRecord),
    /// the future returned by the call at this path completed
    Resolved(Path),
    /// a list stream yielded the item at this path (or ended: `None` index = end of `path`'s list)
    Item(Path),
    ListEnd(Path),
}

impl Event {
    pub fn path(&self) -> &Path {
        match self {
            Event::Call(c) => &c.path,
            Event::Resolved(p) | Event::Item(p) | Event::ListEnd(p) => p,
        }
    }
}

#[derive(Default)]
pub struct Recorder {
    pub events: Mutex<Vec<Event>>,
    /// resolver calls that do not fit the world (unknown position, other field or type)
    pub problems: Mutex<Vec<String>>,
}

impl Recorder {
    fn event(&self, e: Event) {
        self.events.lock().unwrap().push(e);
    }
    pub fn calls(&self) -> Vec<CallRecord> {
        self.events.lock().unwrap().iter().filter_map(|e| if let Event::Call(c) = e { Some(c.clone()) } else { None }).collect()
    }
}

fn lookup<'w>(world: &'w World, rec: &Recorder, type_name: &str, parent: &Path, info: &ResolveInfo<'_>) -> (Path, Option<&'w Outcome>) {
    let key = info.field_selections()[0].response_key().as_str().to_string();
    let mut path = parent.clone();
    path.push(Seg::Key(key));
    let args = from_apollo_map(info.arguments());
    rec.event(Event::Call(CallRecord { object_type: type_name.to_string(), field: info.field_name().to_string(), path: path.clone(), args }));
    let k = path_string(&path);
    match world.table.get(&k) {
        None => {
            rec.problems.lock().unwrap().push(format!("resolver called for {}.{} at {}, a position no conforming execution resolves", type_name, info.field_name(), k));
            (path, None)
        }
        Some(e) => {
            if e.field != info.field_name() || e.object_type != type_name {
                rec.problems.lock().unwrap().push(format!("resolver called for {}.{} at {}, where the reference resolves {}.{}", type_name, info.field_name(), k, e.object_type, e.field));
            }
            (path, Some(&e.outcome))
        }
    }
}

fn field_error() -> FieldError {
    FieldError { message: "world: error".into() }
}

// ------------------------------------------------------------------------------------------------
// Sync

pub struct SyncObj<'w> {
    pub world: &'w World,
    pub rec: &'w Recorder,
    pub type_name: String,
    pub path: Path,
}

fn sync_value<'w>(world: &'w World, rec: &'w Recorder, o: &'w Outcome, path: Path) -> Result<ResolvedValue<'w>, FieldError> {
    Ok(match o {
        Outcome::Error => return Err(field_error()),
        Outcome::Leaf(j) => ResolvedValue::Leaf(to_apollo(j)),
        Outcome::Object(t) => ResolvedValue::Object(Box::new(SyncObj { world, rec, type_name: t.clone(), path })),
        Outcome::List(items) => ResolvedValue::List(Box::new(items.iter().enumerate().map(move |(i, item)| {
            let mut p = path.clone();
            p.push(Seg::Index(i));
            sync_value(world, rec, item, p)
        }))),
    })
}

impl<'w> ObjectValue for SyncObj<'w> {
    fn type_name(&self) -> &str {
        &self.type_name
    }
    fn resolve_field<'a>(&'a self, info: &'a ResolveInfo<'a>) -> Result<ResolvedValue<'a>, FieldError> {
        let (path, outcome) = lookup(self.world, self.rec, &self.type_name, &self.path, info);
        match outcome {
            None => Ok(ResolvedValue::null()),
            Some(o) => sync_value(self.world, self.rec, o, path),
        }
    }
}

// ------------------------------------------------------------------------------------------------
// Async

/// Pending counts per future / stream poll, by ordinal of creation.
pub struct Schedule {
    pub ks: Vec<u8>,
    next: AtomicUsize,
    /// total number of `Pending` returned by leaf futures and streams
    pub pendings: AtomicUsize,
}

impl Schedule {
    pub fn new(ks: Vec<u8>) -> Schedule {
        Schedule { ks, next: AtomicUsize::new(0), pendings: AtomicUsize::new(0) }
    }
    fn take(&self) -> u8 {
        let i = self.next.fetch_add(1, Ordering::SeqCst);
        self.ks.get(i).copied().unwrap_or(0)
    }
    pub fn used(&self) -> usize {
        self.next.load(Ordering::SeqCst)
    }
}

/// Returns `Pending` (after waking itself) `k` times, then `Ready`.
struct Delay<'w> {
    k: u8,
    sched: &'w Schedule,
}

impl<'w> Future for Delay<'w> {
    type Output = ();
    fn poll(mut self: Pin<&mut Self>, cx: &mut Context<'_>) -> Poll<()> {
        if self.k > 0 {
            self.k -= 1;
            self.sched.pendings.fetch_add(1, Ordering::SeqCst);
            cx.waker().wake_by_ref();
            Poll::Pending
        } else {
            Poll::Ready(())
        }
    }
}

pub struct AsyncObj<'w> {
    pub world: &'w World,
    pub rec: &'w Recorder,
    pub sched: &'w Schedule,
    pub type_name: String,
    pub path: Path,
}

struct ItemStream<'w> {
    world: &'w World,
    rec: &'w Recorder,
    sched: &'w Schedule,
    items: &'w [Outcome],
    path: Path,
    index: usize,
    /// pending polls left before the current item (or the end) is yielded; None = not drawn yet
    k: Option<u8>,
}

impl<'w> Stream for ItemStream<'w> {
    type Item = Result<AsyncResolvedValue<'w>, FieldError>;
    fn poll_next(mut self: Pin<&mut Self>, cx: &mut Context<'_>) -> Poll<Option<Self::Item>> {
        let k = match self.k {
            Some(k) => k,
            None => self.sched.take(),
        };
        if k > 0 {
            self.k = Some(k - 1);
            self.sched.pendings.fetch_add(1, Ordering::SeqCst);
            cx.waker().wake_by_ref();
            return Poll::Pending;
        }
        self.k = None;
        if self.index >= self.items.len() {
            self.rec.event(Event::ListEnd(self.path.clone()));
            return Poll::Ready(None);
        }
        let i = self.index;
        self.index += 1;
        let mut p = self.path.clone();
        p.push(Seg::Index(i));
        self.rec.event(Event::Item(p.clone()));
        Poll::Ready(Some(async_value(self.world, self.rec, self.sched, &self.items[i], p)))
    }
}

fn async_value<'w>(world: &'w World, rec: &'w Recorder, sched: &'w Schedule, o: &'w Outcome, path: Path) -> Result<AsyncResolvedValue<'w>, FieldError> {
    Ok(match o {
        Outcome::Error => return Err(field_error()),
        Outcome::Leaf(j) => AsyncResolvedValue::Leaf(to_apollo(j)),
        Outcome::Object(t) => AsyncResolvedValue::Object(Box::new(AsyncObj { world, rec, sched, type_name: t.clone(), path })),
        Outcome::List(items) => {
            let s: BoxStream<'w, _> = Box::pin(ItemStream { world, rec, sched, items, path, index: 0, k: None });
            AsyncResolvedValue::List(s)
        }
    })
}

impl<'w> AsyncObjectValue for AsyncObj<'w> {
    fn type_name(&self) -> &str {
        &self.type_name
    }
    fn resolve_field<'a>(&'a self, info: &'a ResolveInfo<'a>) -> BoxFuture<'a, Result<AsyncResolvedValue<'a>, FieldError>> {
        let (path, outcome) = lookup(self.world, self.rec, &self.type_name, &self.path, info);
        let k = self.sched.take();
        let (world, rec, sched) = (self.world, self.rec, self.sched);
        Box::pin(async move {
            Delay { k, sched }.await;
            rec.event(Event::Resolved(path.clone()));
            match outcome {
                None => Ok(AsyncResolvedValue::null()),
                Some(o) => async_value(world, rec, sched, o, path),
            }
        })
    }
}

// ------------------------------------------------------------------------------------------------
// Running

#[derive(Clone, Debug)]
pub struct Observed {
    /// `Json::Null` for `data: null`
    pub data: Json,
    pub error_paths: Vec<Path>,
    pub error_messages: Vec<String>,
    pub events: Vec<Event>,
    pub problems: Vec<String>,
}

fn convert_path(p: &[ResponseDataPathSegment]) -> Path {
    p.iter()
        .map(|s| match s {
            ResponseDataPathSegment::Field(n) => Seg::Key(n.as_str().to_string()),
            ResponseDataPathSegment::ListIndex(i) => Seg::Index(*i),
        })
        .collect()
}

fn observed(resp: ExecutionResponse, rec: Recorder) -> Observed {
    Observed {
        data: match &resp.data {
            None => Json::Null,
            Some(m) => Json::Object(from_apollo_map(m)),
        },
        error_paths: resp.errors.iter().map(|e| convert_path(&e.path)).collect(),
        error_messages: resp.errors.iter().map(|e| e.message.clone()).collect(),
        events: rec.events.into_inner().unwrap(),
        problems: rec.problems.into_inner().unwrap(),
    }
}

/// `Execution::new(..).raw_variable_values(..).execute_sync(..)`; `Err` is a request error.
pub fn execute_sync(schema: &Valid<Schema>, doc: &Valid<ExecutableDocument>, variables: &AJsonMap, world: &World, root_type: &str) -> Result<Observed, String> {
    let rec = Recorder::default();
    let resp = {
        let root = SyncObj { world, rec: &rec, type_name: root_type.to_string(), path: vec![] };
        Execution::new(schema, doc).raw_variable_values(variables).execute_sync(&root)
    };
    match resp {
        Ok(r) => Ok(observed(r, rec)),
        Err(e) => Err(e.message().to_string()),
    }
}

struct FlagWaker(AtomicBool);

impl Wake for FlagWaker {
    fn wake(self: Arc<Self>) {
        self.0.store(true, Ordering::SeqCst);
    }
    fn wake_by_ref(self: &Arc<Self>) {
        self.0.store(true, Ordering::SeqCst);
    }
}

#[derive(Clone, Debug)]
pub enum AsyncRun {
    Done { observed: Observed, polls: usize, pendings: usize, futures: usize },
    RequestError(String),
    /// the top-level future returned `Pending` although nothing had been woken
    LostWakeup { polls: usize, pendings: usize },
    /// more polls than pending leaf polls can explain
    NoProgress { polls: usize },
}

/// `execute_async` under a single-threaded poll loop: after every `Pending` the loop checks that
/// its waker was woken since the poll began (the leaf futures wake themselves before returning
/// `Pending`), so a dropped wake-up is reported instead of hanging.
pub fn execute_async(schema: &Valid<Schema>, doc: &Valid<ExecutableDocument>, variables: &AJsonMap, world: &World, root_type: &str, ks: Vec<u8>) -> AsyncRun {
    let rec = Recorder::default();
    let sched = Schedule::new(ks);
    let budget: usize = sched.ks.iter().map(|k| *k as usize).sum::<usize>() + 8;
    let result = {
        let root = AsyncObj { world, rec: &rec, sched: &sched, type_name: root_type.to_string(), path: vec![] };
        let exec = Execution::new(schema, doc).raw_variable_values(variables);
        let mut fut = Box::pin(exec.execute_async(&root));
        let flag = Arc::new(FlagWaker(AtomicBool::new(false)));
        let waker = Waker::from(flag.clone());
        let mut cx = Context::from_waker(&waker);
        let mut polls = 0usize;
        loop {
            flag.0.store(false, Ordering::SeqCst);
            polls += 1;
            match fut.as_mut().poll(&mut cx) {
                Poll::Ready(r) => break Ok((r, polls)),
                Poll::Pending => {
                    if !flag.0.load(Ordering::SeqCst) {
                        break Err(AsyncRun::LostWakeup { polls, pendings: sched.pendings.load(Ordering::SeqCst) });
                    }
                    if polls > budget {
                        break Err(AsyncRun::NoProgress { polls });
                    }
                }
            }
        }
    };
    match result {
        Err(r) => r,
        Ok((Err(e), _)) => AsyncRun::RequestError(e.message().to_string()),
        Ok((Ok(resp), polls)) => {
            let pendings = sched.pendings.load(Ordering::SeqCst);
            let futures = sched.used();
            AsyncRun::Done { observed: observed(resp, rec), polls, pendings, futures }
        }
    }
}
