//! The single source of randomness for every generator: a byte "choice stream".
//!
//! Every decoder is total (an exhausted stream yields 0 = the simplest alternative) and
//! monotone (`(b * n) >> 8`, never `%`), so every byte vector decodes to a well-formed case
//! and shrinking the byte vector (delete / lower bytes) shrinks the structured case.

#[derive(Clone)]
pub struct Choices<'a> {
    data: &'a [u8],
    pos: usize,
    /// number of draws made after the stream was exhausted
    pub overdraw: usize,
}

impl<'a> Choices<'a> {
    pub fn new(data: &'a [u8]) -> Self {
        Choices {
            data,
            pos: 0,
            overdraw: 0,
        }
    }

    pub fn exhausted(&self) -> bool {
        self.pos >= self.data.len()
    }

    pub fn remaining(&self) -> usize {
        self.data.len().saturating_sub(self.pos)
    }

    pub fn pos(&self) -> usize {
        self.pos
    }

    #[inline]
    pub fn byte(&mut self) -> u8 {
        if self.pos < self.data.len() {
            let b = self.data[self.pos];
            self.pos += 1;
            b
        } else {
            self.overdraw += 1;
            0
        }
    }

    /// Uniform-ish choice in `0..n` (n ≥ 1). Uses one byte for n ≤ 256, two bytes otherwise.
    #[inline]
    pub fn choose(&mut self, n: usize) -> usize {
        if n <= 1 {
            return 0;
        }
        if n <= 256 {
            (self.byte() as usize * n) >> 8
        } else {
            let hi = self.byte() as usize;
            let lo = self.byte() as usize;
            let v = (hi << 8) | lo;
            let n = n.min(65536);
            (v * n) >> 16
        }
    }

    /// Inclusive range.
    pub fn range(&mut self, lo: usize, hi: usize) -> usize {
        if hi <= lo {
            return lo;
        }
        lo + self.choose(hi - lo + 1)
    }

    /// A small length skewed towards small values: geometric-like. `max` inclusive.
    pub fn small(&mut self, max: usize) -> usize {
        if max == 0 {
            return 0;
        }
        let b = self.byte() as usize;
        // 0: 25 %, then decreasing
        let v = match b {
            0..=63 => 0,
            64..=127 => 1,
            128..=175 => 2,
            176..=207 => 3,
            208..=227 => 4,
            228..=239 => 5,
            240..=247 => 6,
            248..=251 => 8,
            252..=253 => 12,
            254 => 20,
            _ => 40,
        };
        v.min(max)
    }

    /// True with probability p/256 (0 for an exhausted stream).
    pub fn bool(&mut self, p: u32) -> bool {
        let b = self.byte() as u32;
        // high bytes are "true" so that zeroed/exhausted streams give false
        b >= 256 - p.min(256)
    }

    pub fn coin(&mut self) -> bool {
        self.bool(128)
    }

    /// Weighted choice; the first alternative is the simplest one.
    pub fn weighted(&mut self, w: &[u32]) -> usize {
        let total: u32 = w.iter().sum();
        if total == 0 {
            return 0;
        }
        let v = if total <= 256 {
            (self.byte() as u32 * total) >> 8
        } else {
            let hi = self.byte() as u32;
            let lo = self.byte() as u32;
            (((hi << 8) | lo) as u64 * total as u64 >> 16) as u32
        };
        let mut acc = 0;
        for (i, x) in w.iter().enumerate() {
            acc += x;
            if v < acc {
                return i;
            }
        }
        w.len() - 1
    }

    pub fn pick<T: Copy>(&mut self, xs: &[T]) -> T {
        xs[self.choose(xs.len())]
    }

    pub fn u16(&mut self) -> u16 {
        ((self.byte() as u16) << 8) | self.byte() as u16
    }

    pub fn u32(&mut self) -> u32 {
        ((self.u16() as u32) << 16) | self.u16() as u32
    }

    pub fn u64(&mut self) -> u64 {
        ((self.u32() as u64) << 32) | self.u32() as u64
    }

    /// Take up to `n` raw bytes.
    pub fn bytes(&mut self, n: usize) -> Vec<u8> {
        let take = n.min(self.remaining());
        let v = self.data[self.pos..self.pos + take].to_vec();
        self.pos += take;
        v
    }

    pub fn rest(&mut self) -> &'a [u8] {
        let r = &self.data[self.pos.min(self.data.len())..];
        self.pos = self.data.len();
        r
    }
}

/// FNV-1a, used for distinct-case counting (stable across processes).
pub fn fnv(bytes: &[u8]) -> u64 {
    let mut h: u64 = 0xcbf29ce484222325;
    for b in bytes {
        h ^= *b as u64;
        h = h.wrapping_mul(0x100000001b3);
    }
    h
}

pub fn hex(bytes: &[u8]) -> String {
    let mut s = String::with_capacity(bytes.len() * 2);
    for b in bytes {
        s.push_str(&format!("{:02x}", b));
    }
    s
}

pub fn unhex(s: &str) -> Vec<u8> {
    let s = s.trim();
    (0..s.len() / 2)
        .filter_map(|i| u8::from_str_radix(&s[2 * i..2 * i + 2], 16).ok())
        .collect()
}
