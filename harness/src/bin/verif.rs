use vh::runner::{self, Tier};

fn arg(args: &[String], name: &str) -> Option<String> {
    args.iter().position(|a| a == name).and_then(|i| args.get(i + 1)).cloned()
}

fn main() {
    let args: Vec<String> = std::env::args().collect();
    let cmd = args.get(1).map(|s| s.as_str()).unwrap_or("");
    let exe = std::env::current_exe().unwrap().to_string_lossy().to_string();
    let props = vh::props::all();
    let find = |id: &str| -> &'static runner::Prop {
        let props: &'static Vec<runner::Prop> = Box::leak(Box::new(vh::props::all()));
        props.iter().find(|p| p.id == id).unwrap_or_else(|| {
            eprintln!("unknown property {}", id);
            std::process::exit(4)
        })
    };
    match cmd {
        "list" => {
            for p in &props {
                println!("{} {}", p.id, p.title);
            }
        }
        "run" => {
            let id = arg(&args, "--prop").expect("--prop");
            let tier = Tier::parse(
                &arg(&args, "--tier")
                    .or_else(|| std::env::var("VERIF_TIER").ok())
                    .unwrap_or_else(|| "quick".into()),
            );
            let seed = arg(&args, "--seed")
                .or_else(|| std::env::var("VERIF_SEED").ok())
                .and_then(|s| s.trim().parse::<u64>().ok())
                .unwrap_or(20260921);
            let s = runner::run_property(find(&id), tier, seed, &exe);
            std::process::exit(s.exit);
        }
        "worker" => {
            let id = arg(&args, "--prop").expect("--prop");
            let a = runner::WorkerArgs {
                prop: find(&id),
                stage: arg(&args, "--stage").unwrap().parse().unwrap(),
                seed: arg(&args, "--seed").unwrap().parse().unwrap(),
                tier: Tier::parse(&arg(&args, "--tier").unwrap()),
                start: arg(&args, "--start").unwrap().parse().unwrap(),
                end: arg(&args, "--end").unwrap().parse().unwrap(),
                trace: arg(&args, "--trace"),
                no_shrink: args.iter().any(|a| a == "--no-shrink"),
            };
            std::process::exit(runner::worker_main(a));
        }
        "replay-raw" | "replay" => {
            let id = arg(&args, "--prop").expect("--prop");
            let tier = Tier::parse(&arg(&args, "--tier").unwrap_or_else(|| "quick".into()));
            let file = arg(&args, "--file").expect("--file");
            if let Some(e) = arg(&args, "--expect") {
                runner::set_expect(&e);
            }
            let (code, v) = runner::replay_raw(find(&id), tier, &file);
            if cmd == "replay" {
                if let Some(c) = v["case"].as_str() {
                    println!("case:\n{}", c);
                }
                if code == 1 {
                    println!("detail: {}", v["detail"].as_str().unwrap_or(""));
                    println!("VIOLATION property={} replay={}", id, file);
                } else if code == 0 {
                    println!("PASS property={} replay={}", id, file);
                }
            }
            println!("{}", v);
            std::process::exit(code);
        }
        "dump" => {
            // debugging aid: print apollo-parser's view of a text
            let text = arg(&args, "--text").unwrap_or_default();
            let rl = arg(&args, "--rl").and_then(|s| s.parse().ok());
            let tl = arg(&args, "--tl").and_then(|s| s.parse().ok());
            let p = vh::apollo::parse::parse(vh::apollo::parse::Entry::Document, &text, tl, rl);
            println!("recursion high={} limit={}; token high={} limit={}", p.recursion_high, p.recursion_limit, p.token_high, p.token_limit);
            println!("tree text: {:?}", p.root.text().to_string());
            for e in &p.errors {
                println!("error @{}+{} {:?} limit={} eof={}", e.index, e.len, e.message, e.is_limit, e.is_eof);
            }
            if args.iter().any(|a| a == "--tree") {
                println!("{:#?}", p.root);
            }
            println!("reference: {:?}", vh::refmodel::parser::parse_document(&text).map(|d| d.defs.len()));
        }
        "calib-schema" => {
            // development aid: generated valid-by-construction schemas must validate in apollo
            let n: u64 = arg(&args, "--n").and_then(|s| s.parse().ok()).unwrap_or(2000);
            let mut bad = 0;
            for i in 0..n {
                let bytes = vh::runner::gen_case(1, "calib", 0, i, 600);
                let mut c = vh::choices::Choices::new(&bytes);
                let mut d = vh::gen::schema::schema(&mut c, &vh::gen::schema::Opts::default());
                if i % 2 == 0 {
                    vh::gen::schema::split_extensions(&mut c, &mut d);
                }
                let text = vh::refmodel::printer::print_document(&d);
                if let Err(e) = apollo_compiler::Schema::parse_and_validate(&text, "s.graphql") {
                    bad += 1;
                    if bad <= 5 {
                        println!("---- case {}\n{}\n{}", i, text, e.errors);
                    }
                }
            }
            println!("{} of {} rejected", bad, n);
        }
        "stages" => {
            let id = arg(&args, "--prop").expect("--prop");
            let p = find(&id);
            for s in &p.stages {
                if let runner::StageKind::Random { max_len, .. } = &s.kind {
                    println!("{} {}", s.name, max_len(Tier::Thorough));
                }
            }
            if p.text_check.is_some() {
                println!("@text 4096");
            }
        }
        "corpus" => {
            let id = arg(&args, "--prop").expect("--prop");
            let seed = arg(&args, "--seed").or_else(|| std::env::var("VERIF_SEED").ok()).and_then(|s| s.trim().parse::<u64>().ok()).unwrap_or(20260921);
            let n = arg(&args, "--n").and_then(|s| s.parse().ok()).unwrap_or(200);
            std::process::exit(runner::write_corpus(find(&id), &arg(&args, "--stage").unwrap_or_default(), seed, n, &arg(&args, "--out").expect("--out")));
        }
        "confirm" => {
            let id = arg(&args, "--prop").expect("--prop");
            let tier = Tier::parse(&arg(&args, "--tier").unwrap_or_else(|| "thorough".into()));
            std::process::exit(runner::confirm_raw(find(&id), tier, &arg(&args, "--stage").unwrap_or_default(), &arg(&args, "--raw").expect("--raw"), &exe));
        }
        "aux" => {
            // auxiliary child entry points used by custom stages
            let id = arg(&args, "--prop").expect("--prop");
            std::process::exit(vh::props::aux(&id, &args));
        }
        _ => {
            eprintln!("usage: verif list | run --prop ID [--tier quick|thorough] [--seed N] | replay --prop ID --file F");
            std::process::exit(4);
        }
    }
}
