//! C30 under Miri: `cargo +nightly miri run --bin c30_miri -- h:<hex> t:<hex> ...` runs the C30
//! interpreter (src/props/c30.rs) over the given histories (`h` single-threaded, `t` threaded).
fn main() {
    let args: Vec<String> = std::env::args().skip(1).collect();
    std::process::exit(vh::props::c30::miri_main(&args));
}
