//! C32 apollo-smith generates valid documents deterministically.
use crate::apollo::schema::diagnostic_kinds;
use crate::choices::{fnv, hex, Choices};
use crate::gen::schema as gs;
use crate::refmodel::ast::{Definition, OpType, SchemaDef, TypeKind};
use crate::refmodel::printer;
use crate::runner::{catch, normalise_panic, truncate, Ctx, Outcome, Prop, Tier};
use apollo_compiler::{ast, ExecutableDocument, Schema};
use apollo_smith::DocumentBuilder;
use arbitrary::Unstructured;

pub fn prop() -> Prop {
    Prop::new(
        "C32",
        "apollo-smith generates valid documents deterministically",
        "Stage documents: a byte string of 0..16 KiB decoded from the choice stream (raw choice bytes; uniform, \
         low-entropy or sparse bytes expanded from a seed by a fixed xorshift; a short block repeated) -> \
         DocumentBuilder::new(u).build(): Err (input exhausted) or a document whose String parses with \
         ast::Document::parse without any syntax error and passes to_mixed_validate(); building twice from the same bytes \
         gives the identical outcome and string. Stage operations: a schema valid by construction (gen::schema, with a \
         schema definition appended when it has none) printed, parsed with apollo_parser, converted with \
         apollo_smith::Document::try_from, then DocumentBuilder::with_document(u, doc) + operation_definition(): Err, \
         None, or an operation whose String validates against that schema (ExecutableDocument::parse_and_validate); \
         twice gives the same string. No panic. Non-trivial: the generated document / operation has a fragment spread \
         or a field with arguments (documents) or a nested selection or arguments (operations); distinct by generated text.",
    )
    .random(
        "documents",
        check_document,
        |t| if t == Tier::Quick { 12_000 } else { 300_000 },
        |t| if t == Tier::Quick { 600 } else { 900 },
    )
    .random(
        "operations",
        check_operation,
        |t| if t == Tier::Quick { 24_000 } else { 600_000 },
        |t| if t == Tier::Quick { 700 } else { 1000 },
    )
    .case_timeout(60)
    .assumptions(&[
        "default DocumentBuilder maximums (50 definitions of each kind)",
        "schemas for the operations stage come from the harness's valid-by-construction generator and are used only when apollo-compiler itself validates them; a FromError from Document::try_from is counted, not judged (the property speaks about parsed schemas)",
        "determinism is checked within one process here (C22 compares processes)",
    ])
}

// ------------------------------------------------------------------------------------------------
// input bytes for `Unstructured`

struct XorShift(u64);
impl XorShift {
    fn next(&mut self) -> u64 {
        let mut x = self.0;
        x ^= x << 13;
        x ^= x >> 7;
        x ^= x << 17;
        self.0 = x;
        x
    }
}

/// Decodes the smith input from the choice stream. Returns (bytes, label).
pub fn smith_bytes(c: &mut Choices, max_len: usize) -> (Vec<u8>, &'static str) {
    let mode = c.weighted(&[20, 15, 10, 10, 10, 35]);
    if mode == 0 {
        // the remaining choice bytes as they are (libFuzzer-like: shrinks well)
        return (c.rest().to_vec(), "raw");
    }
    let len = match c.weighted(&[30, 40, 30]) {
        0 => c.range(0, 256),
        1 => c.range(0, 4096.min(max_len)),
        _ => c.range(0, max_len),
    };
    let mut rng = XorShift(c.u64() | 1);
    match mode {
        1 => ((0..len).map(|_| (rng.next() >> 24) as u8).collect(), "uniform"),
        2 => {
            // low entropy: a small alphabet of byte values
            let k = c.range(1, 6);
            let alphabet: Vec<u8> = (0..k).map(|_| c.byte()).collect();
            ((0..len).map(|_| alphabet[(rng.next() >> 24) as usize % alphabet.len()]).collect(), "low-entropy")
        }
        3 => {
            // mostly one value with sparse random bytes
            let base = c.pick(&[0u8, 0xFF, 1, 0x80]);
            let every = c.range(2, 64) as u64;
            ((0..len).map(|_| if (rng.next() >> 24) % every == 0 { (rng.next() >> 32) as u8 } else { base }).collect(), "sparse")
        }
        4 => {
            let blen = c.range(1, 64);
            let block: Vec<u8> = (0..blen).map(|_| c.byte()).collect();
            ((0..len).map(|i| block[i % block.len()]).collect(), "repeated-block")
        }
        _ => {
            // biased towards small byte values: small counts and short names, so that the input
            // lasts until the fragment and operation phases of the builder
            let p_small = c.range(40, 90) as u64;
            let small_max = c.pick(&[1u64, 2, 3, 7]);
            (
                (0..len)
                    .map(|_| {
                        let r = rng.next() >> 16;
                        if r % 100 < p_small {
                            ((r >> 8) % (small_max + 1)) as u8
                        } else {
                            (r >> 24) as u8
                        }
                    })
                    .collect(),
                "small-biased",
            )
        }
    }
}

fn panic_sig(entry: &str, msg: &str, loc: &str) -> String {
    // `todo!()` in DocumentBuilder::stack_ty (field of union / custom scalar / input type): the
    // message carries the type name
    if msg.starts_with("not yet implemented") && msg.contains("need to implement for union, scalar") {
        return format!("C32|panic|{}|stack_ty-todo", entry);
    }
    format!("C32|panic|{}|{}", entry, normalise_panic(msg, loc))
}

// ------------------------------------------------------------------------------------------------
// stage 1: whole documents

fn build_document(data: &[u8]) -> Result<Option<String>, (String, String)> {
    catch(|| {
        let mut u = Unstructured::new(data);
        crate::runner::phase("DocumentBuilder::build");
        let built = DocumentBuilder::new(&mut u).build();
        crate::runner::phase("");
        match built {
            Ok(doc) => Some(String::from(doc)),
            Err(_) => None,
        }
    })
}

fn selection_has_spread_or_args(sel: &[ast::Selection]) -> bool {
    sel.iter().any(|s| match s {
        ast::Selection::Field(f) => !f.arguments.is_empty() || selection_has_spread_or_args(&f.selection_set),
        ast::Selection::FragmentSpread(_) => true,
        ast::Selection::InlineFragment(i) => selection_has_spread_or_args(&i.selection_set),
    })
}

pub fn check_document(bytes: &[u8], ctx: &mut Ctx) -> Outcome {
    let mut c = Choices::new(bytes);
    let max = 16 * 1024;
    let (data, label) = smith_bytes(&mut c, max);
    ctx.class(format!("input/{}", label));
    ctx.class(match data.len() {
        0 => "len/0",
        1..=63 => "len/1-63",
        64..=1023 => "len/64-1023",
        1024..=4095 => "len/1k-4k",
        _ => "len/4k-16k",
    });
    ctx.set_sample(format!("smith input ({} bytes, {}): {}", data.len(), label, truncate(&hex(&data), 200)));
    let first = match build_document(&data) {
        Ok(r) => r,
        Err((msg, loc)) => {
            return Outcome::fail(panic_sig("DocumentBuilder::build", &msg, &loc), format!("DocumentBuilder::new(u).build() panicked: {} at {} on {} input bytes {}", msg, loc, data.len(), truncate(&hex(&data), 400)))
        }
    };
    let second = match build_document(&data) {
        Ok(r) => r,
        Err((msg, loc)) => return Outcome::fail(panic_sig("DocumentBuilder::build", &msg, &loc), format!("second build panicked: {} at {}", msg, loc)),
    };
    if first != second {
        return Outcome::fail(
            "C32|nondeterministic|document",
            format!("the same {} input bytes gave two different results:\n--- first\n{}\n--- second\n{}", data.len(), truncate(first.as_deref().unwrap_or("<Err>"), 1500), truncate(second.as_deref().unwrap_or("<Err>"), 1500)),
        );
    }
    let Some(text) = first else {
        ctx.class("build/exhausted");
        return Outcome::Pass;
    };
    ctx.class("build/document");
    ctx.key = Some(fnv(text.as_bytes()));
    ctx.set_sample(format!("# smith input: {} bytes, {}\n{}", data.len(), label, truncate(&text, 1500)));
    let doc = match catch(|| ast::Document::parse(text.as_str(), "smith.graphql")) {
        Err((msg, loc)) => return Outcome::fail(panic_sig("ast::Document::parse", &msg, &loc), format!("parsing the generated document panicked: {} at {}\n{}", msg, loc, truncate(&text, 3000))),
        Ok(Err(e)) => {
            let (kinds, msgs) = diagnostic_kinds(&e.errors);
            return Outcome::fail(
                format!("C32|unparseable-document|{}", kinds.first().cloned().unwrap_or_default()),
                format!("the generated document has syntax errors: {}\n{}", truncate(&msgs, 600), truncate(&text, 3000)),
            );
        }
        Ok(Ok(d)) => d,
    };
    let mut ops = 0;
    let mut frags = 0;
    let mut rich = false;
    for def in &doc.definitions {
        match def {
            ast::Definition::OperationDefinition(o) => {
                ops += 1;
                if selection_has_spread_or_args(&o.selection_set) {
                    rich = true;
                }
            }
            ast::Definition::FragmentDefinition(_) => frags += 1,
            _ => {}
        }
    }
    ctx.class(match ops {
        0 => "operations/0",
        1 => "operations/1",
        _ => "operations/2+",
    });
    if frags > 0 {
        ctx.class("has-fragments");
    }
    ctx.nontrivial = rich;
    match catch(|| doc.to_mixed_validate()) {
        Err((msg, loc)) => Outcome::fail(panic_sig("to_mixed_validate", &msg, &loc), format!("validating the generated document panicked: {} at {}\n{}", msg, loc, truncate(&text, 3000))),
        Ok(Ok(_)) => Outcome::Pass,
        Ok(Err(errors)) => {
            let (kinds, msgs) = diagnostic_kinds(&errors);
            let fails = kinds
                .iter()
                .map(|k| (format!("C32|invalid-document|{}", k), format!("the generated document does not validate ({}): {}\n{}", kinds.join(", "), truncate(&msgs, 800), truncate(&text, 4000))))
                .collect();
            ctx.pick_failure(fails)
        }
    }
}

// ------------------------------------------------------------------------------------------------
// stage 2: operations against a parsed schema

/// A schema valid by construction, with an explicit schema definition (apollo-smith only generates
/// operations when the document has one).
pub fn gen_schema_text(c: &mut Choices, tier: Tier) -> String {
    gen_schema(c, tier).0
}

/// Does some input object reach itself through input-object-typed fields (any wrapping)?
fn has_input_object_cycle(doc: &crate::refmodel::ast::Document) -> bool {
    use std::collections::{BTreeMap, BTreeSet};
    let mut edges: BTreeMap<&str, BTreeSet<&str>> = BTreeMap::new();
    for d in &doc.defs {
        if let Definition::Type(t) = d {
            if t.kind == TypeKind::InputObject {
                let e = edges.entry(t.name.as_str()).or_default();
                for f in &t.input_fields {
                    e.insert(f.ty.inner_name());
                }
            }
        }
    }
    let names: Vec<&str> = edges.keys().copied().collect();
    for start in names {
        let mut seen: BTreeSet<&str> = BTreeSet::new();
        let mut todo: Vec<&str> = edges[start].iter().copied().collect();
        while let Some(n) = todo.pop() {
            if n == start {
                return true;
            }
            if seen.insert(n) {
                if let Some(next) = edges.get(n) {
                    todo.extend(next.iter().copied());
                }
            }
        }
    }
    false
}

/// (schema text, some input object refers to itself)
pub fn gen_schema(c: &mut Choices, tier: Tier) -> (String, bool) {
    let opts = gs::Opts { max_types: if tier == Tier::Quick { 3 } else { 4 }, ..gs::Opts::default() };
    let mut doc = gs::schema(c, &opts);
    let has_schema_def = doc.defs.iter().any(|d| matches!(d, Definition::Schema(s) if !s.is_ext));
    if !has_schema_def {
        let mut roots = vec![];
        for (op, name) in [(OpType::Query, "Query"), (OpType::Mutation, "Mutation"), (OpType::Subscription, "Subscription")] {
            let exists = doc.defs.iter().any(|d| matches!(d, Definition::Type(t) if t.kind == TypeKind::Object && !t.is_ext && t.name == name));
            if exists {
                roots.push((op, name.to_string()));
            }
        }
        if !roots.is_empty() {
            doc.defs.push(Definition::Schema(SchemaDef { is_ext: false, description: None, directives: vec![], roots }));
        }
    }
    let cyclic = has_input_object_cycle(&doc);
    (printer::print_document(&doc), cyclic)
}

fn build_operation(schema_text: &str, data: &[u8]) -> Result<Result<Option<String>, String>, (String, String)> {
    catch(|| {
        let tree = apollo_parser::Parser::new(schema_text).parse();
        if tree.errors().len() > 0 {
            return Err("schema text has syntax errors".to_string());
        }
        let doc = match apollo_smith::Document::try_from(tree.document()) {
            Ok(d) => d,
            Err(e) => return Err(format!("from-error: {}", e)),
        };
        let mut u = Unstructured::new(data);
        let mut b = match DocumentBuilder::with_document(&mut u, doc) {
            Ok(b) => b,
            Err(_) => return Ok(None),
        };
        crate::runner::phase("with_document+operation_definition");
        let r = b.operation_definition();
        crate::runner::phase("");
        match r {
            Ok(Some(op)) => Ok(Some(String::from(op))),
            Ok(None) => Err("no-operation (None)".to_string()),
            Err(_) => Ok(None),
        }
    })
}

pub fn check_operation(bytes: &[u8], ctx: &mut Ctx) -> Outcome {
    let mut c = Choices::new(bytes);
    let (schema_text, input_cycle) = gen_schema(&mut c, ctx.tier);
    let (data, label) = smith_bytes(&mut c, 4096);
    if input_cycle && !ctx.strict {
        // known finding C32|crash: input_value_for_type never terminates on a self-referential
        // input object; a dead worker per case would cost most of the run, so these schemas are
        // counted and skipped in the search (the saved repro is still replayed on every run)
        ctx.class("schema/self-referential-input-object");
        return ctx.skip("schema has a self-referential input object (known finding: unbounded recursion in input_value_for_type)");
    }
    ctx.class(format!("input/{}", label));
    ctx.set_sample(format!("# smith input: {} bytes {}\n{}", data.len(), truncate(&hex(&data), 200), truncate(&schema_text, 1200)));
    let schema = match Schema::parse_and_validate(schema_text.as_str(), "schema.graphql") {
        Ok(s) => s,
        Err(_) => {
            ctx.class("schema-rejected-by-apollo");
            return ctx.skip("apollo-compiler rejects the generated schema (C14's subject)");
        }
    };
    let first = match build_operation(&schema_text, &data) {
        Ok(r) => r,
        Err((msg, loc)) => {
            return Outcome::fail(
                panic_sig("operation_definition", &msg, &loc),
                format!("with_document + operation_definition panicked: {} at {}\nsmith input: {}\n{}", msg, loc, truncate(&hex(&data), 400), truncate(&schema_text, 3000)),
            )
        }
    };
    let second = match build_operation(&schema_text, &data) {
        Ok(r) => r,
        Err((msg, loc)) => return Outcome::fail(panic_sig("operation_definition", &msg, &loc), format!("second run panicked: {} at {}", msg, loc)),
    };
    if first != second {
        return Outcome::fail("C32|nondeterministic|operation", format!("the same schema and bytes gave two different operations:\n{:?}\n{:?}", first, second));
    }
    let op_text = match first {
        Err(why) => {
            if why.starts_with("from-error") {
                ctx.class("from-error");
                return ctx.skip("apollo_smith::Document::try_from returned a FromError");
            }
            if why.starts_with("no-operation") {
                ctx.class("operation/none");
                return Outcome::Pass;
            }
            ctx.class("schema-syntax-error");
            return ctx.skip("generated schema text does not parse");
        }
        Ok(None) => {
            ctx.class("operation/exhausted");
            return Outcome::Pass;
        }
        Ok(Some(t)) => t,
    };
    ctx.class("operation/generated");
    ctx.key = Some(fnv(format!("{}\n{}", schema_text, op_text).as_bytes()));
    ctx.set_sample(format!("{}\n# generated operation:\n{}", truncate(&schema_text, 1200), truncate(&op_text, 600)));
    match catch(|| ExecutableDocument::parse_and_validate(&schema, op_text.as_str(), "op.graphql")) {
        Err((msg, loc)) => Outcome::fail(panic_sig("parse_and_validate", &msg, &loc), format!("validating the generated operation panicked: {} at {}", msg, loc)),
        Ok(Ok(doc)) => {
            let rich = doc.operations.iter().any(|o| {
                o.selection_set.selections.iter().any(|s| match s {
                    apollo_compiler::executable::Selection::Field(f) => !f.arguments.is_empty() || !f.selection_set.selections.is_empty(),
                    _ => true,
                })
            });
            ctx.nontrivial = rich;
            if rich {
                ctx.class("operation/nested-or-arguments");
            }
            Outcome::Pass
        }
        Ok(Err(e)) => {
            let (kinds, msgs) = diagnostic_kinds(&e.errors);
            let fails = kinds
                .iter()
                .map(|k| {
                    (
                        format!("C32|invalid-operation|{}", k),
                        format!("the generated operation is not valid against its schema ({}): {}\n--- operation\n{}\n--- schema\n{}", kinds.join(", "), truncate(&msgs, 800), truncate(&op_text, 2000), truncate(&schema_text, 3000)),
                    )
                })
                .collect();
            ctx.pick_failure(fails)
        }
    }
}

/// `verif aux --prop C32 idx <stage> <seed> <index> [--thorough]`: print the case the runner
/// generates and the verdict (development aid).
pub fn aux(args: &[String]) -> i32 {
    crate::runner::install_panic_hook();
    let Some(pos) = args.iter().position(|a| a == "idx") else {
        eprintln!("usage: aux --prop C32 idx <stage> <seed> <index>");
        return 4;
    };
    let stage: usize = args[pos + 1].parse().expect("stage");
    let seed: u64 = args[pos + 2].parse().expect("seed");
    let index: u64 = args[pos + 3].parse().expect("index");
    let tier = if args.iter().any(|a| a == "--thorough") { Tier::Thorough } else { Tier::Quick };
    let max_len = match (stage, tier) {
        (0, Tier::Quick) => 600,
        (0, _) => 900,
        (_, Tier::Quick) => 700,
        _ => 1000,
    };
    let bytes = crate::runner::gen_case(seed, "C32", stage, index, max_len);
    println!("hex={}", hex(&bytes));
    if args.iter().any(|a| a == "--no-run") {
        return 0;
    }
    let mut ctx = Ctx::new(tier, true);
    let o = if stage == 0 { check_document(&bytes, &mut ctx) } else { check_operation(&bytes, &mut ctx) };
    println!("{}", ctx.sample.clone().unwrap_or_default());
    println!("classes={:?} nontrivial={}", ctx.classes, ctx.nontrivial);
    println!("{:?}", o);
    0
}
