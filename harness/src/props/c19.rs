//! C19 Executable documents and field sets round-trip.
use super::c17::{self, SEP};
use crate::choices::Choices;
use crate::gen::operation::{self, OpOpts};
use crate::refmodel::ast as rast;
use crate::refmodel::printer::{print_document, print_selection_set};
use crate::refmodel::schema::RefSchema;
use crate::runner::{Ctx, Outcome, Prop, Tier};
use apollo_compiler::ast::Serialize;
use apollo_compiler::executable::{ExecutableDocument, FieldSet, Operation, Selection, SelectionSet};
use apollo_compiler::parser::Parser;
use apollo_compiler::Name;
use std::fmt::Display;

pub fn prop() -> Prop {
    Prop::new(
        "C19",
        "Executable documents and field sets round-trip",
        "Cases: (a) C17's schema + document pairs that apollo validates (valid by construction + validity-preserving \
         mutations; mutated pairs that fail validation are skipped); (b) field sets generated for a composite type of \
         the schema (braced or bare; aliases, arguments, directives, inline fragments; no variables, no named \
         fragments); (c) mixed texts: the definitions of the schema and of the document interleaved in an order chosen \
         by the stream. Each under a serialization configuration: default, no_indent, indent_prefix over space/tab \
         strings (incl. empty), initial_indent_level 0-3, or prefix+level. Oracle: print -> parse_and_validate again \
         is Ok and equal (PartialEq) to the original, and printing the re-parsed value gives the identical text. \
         Non-trivial: the case has a named fragment or an inline fragment with a type condition; distinct by text+config.",
    )
    .random("roundtrip", check, |t| if t == Tier::Quick { 400_000 } else { 1_500_000 }, |t| if t == Tier::Quick { 700 } else { 1000 })
    .case_timeout(120)
    .assumptions(&[
        "indent prefixes are whitespace-only strings (spaces/tabs), as the property states",
        "generated field sets / mixed texts that apollo does not validate in the first place are skipped (acceptance is C17's subject)",
        "mixed stage: the schema half is compared with PartialEq only (its text stability is C12's subject)",
    ])
}

#[derive(Clone, Debug)]
pub struct Cfg {
    pub no_indent: bool,
    pub prefix: Option<&'static str>,
    pub level: Option<usize>,
}

impl Cfg {
    pub fn decode(c: &mut Choices) -> Cfg {
        const P: [&str; 6] = ["  ", "", " ", "\t", "    ", " \t"];
        match c.choose(5) {
            0 => Cfg { no_indent: false, prefix: None, level: None },
            1 => Cfg { no_indent: true, prefix: None, level: None },
            2 => Cfg { no_indent: false, prefix: Some(c.pick(&P)), level: None },
            3 => Cfg { no_indent: false, prefix: None, level: Some(c.choose(4)) },
            _ => Cfg { no_indent: c.bool(40), prefix: Some(c.pick(&P)), level: Some(c.choose(4)) },
        }
    }
    pub fn label(&self) -> String {
        format!("{}{}{}", if self.no_indent { "no_indent" } else { "indent" }, if self.prefix.is_some() { "+prefix" } else { "" }, if self.level.is_some() { "+level" } else { "" })
    }
    pub fn apply<'a, T>(&self, mut s: Serialize<'a, T>) -> String
    where
        Serialize<'a, T>: Display,
    {
        // order as a user would chain them; no_indent after indent_prefix wins (it clears the prefix)
        if let Some(p) = self.prefix {
            s = s.indent_prefix(p);
        }
        if self.no_indent {
            s = s.no_indent();
        }
        if let Some(l) = self.level {
            s = s.initial_indent_level(l);
        }
        s.to_string()
    }
}

/// Kind of the first differing construct between two typed selection sets.
fn diff_set(a: &SelectionSet, b: &SelectionSet) -> Option<String> {
    if a.ty != b.ty {
        return Some("selection-set-type".into());
    }
    if a.selections.len() != b.selections.len() {
        return Some("selection-count".into());
    }
    for (x, y) in a.selections.iter().zip(b.selections.iter()) {
        match (x, y) {
            (Selection::Field(f), Selection::Field(g)) => {
                if f.alias != g.alias || f.name != g.name {
                    return Some("field/name".into());
                }
                if f.arguments != g.arguments {
                    return Some("field/arguments".into());
                }
                if f.directives != g.directives {
                    return Some("field/directives".into());
                }
                if f.definition != g.definition {
                    return Some("field/definition".into());
                }
                if let Some(d) = diff_set(&f.selection_set, &g.selection_set) {
                    return Some(format!("field/{}", d));
                }
            }
            (Selection::InlineFragment(f), Selection::InlineFragment(g)) => {
                if f.type_condition != g.type_condition {
                    return Some("inline-fragment/type-condition".into());
                }
                if f.directives != g.directives {
                    return Some("inline-fragment/directives".into());
                }
                if let Some(d) = diff_set(&f.selection_set, &g.selection_set) {
                    return Some(format!("inline-fragment/{}", d));
                }
            }
            (Selection::FragmentSpread(f), Selection::FragmentSpread(g)) => {
                if f != g {
                    return Some("fragment-spread".into());
                }
            }
            _ => return Some("selection-kind".into()),
        }
    }
    None
}

fn diff_op(a: &Operation, b: &Operation) -> Option<String> {
    if a.operation_type != b.operation_type || a.name != b.name {
        return Some("operation/head".into());
    }
    if a.variables != b.variables {
        return Some("operation/variables".into());
    }
    if a.directives != b.directives {
        return Some("operation/directives".into());
    }
    diff_set(&a.selection_set, &b.selection_set).map(|d| format!("operation/{}", d))
}

/// Root-cause part of a difference path: the construct kind at the difference (its last two
/// segments), so that the signature does not depend on how deeply the construct is nested.
fn tail2(path: &str) -> String {
    let segs: Vec<&str> = path.split('/').collect();
    segs[segs.len().saturating_sub(2)..].join("/")
}

fn diff_doc(a: &ExecutableDocument, b: &ExecutableDocument) -> String {
    match (&a.operations.anonymous, &b.operations.anonymous) {
        (Some(x), Some(y)) => {
            if let Some(d) = diff_op(x, y) {
                return d;
            }
        }
        (None, None) => {}
        _ => return "anonymous-operation-presence".into(),
    }
    if a.operations.named.len() != b.operations.named.len() {
        return "operation-count".into();
    }
    for (n, x) in &a.operations.named {
        match b.operations.named.get(n) {
            None => return "operation-missing".into(),
            Some(y) => {
                if let Some(d) = diff_op(x, y) {
                    return d;
                }
            }
        }
    }
    if a.fragments.len() != b.fragments.len() {
        return "fragment-count".into();
    }
    for (n, x) in &a.fragments {
        match b.fragments.get(n) {
            None => return "fragment-missing".into(),
            Some(y) => {
                if x.directives != y.directives {
                    return "fragment/directives".into();
                }
                if let Some(d) = diff_set(&x.selection_set, &y.selection_set) {
                    return format!("fragment/{}", d);
                }
            }
        }
    }
    "unlocated".into()
}

fn doc_roundtrip(schema_text: &str, doc_text: &str, cfg: &Cfg, ctx: &mut Ctx) -> Outcome {
    let schema = match c17::apollo_schema(schema_text) {
        Ok(s) => s,
        Err(_) => return ctx.skip("apollo rejects the schema"),
    };
    let d1 = match ExecutableDocument::parse_and_validate(&schema, doc_text, "q.graphql") {
        Ok(d) => d,
        Err(_) => return ctx.skip("document does not validate against the schema"),
    };
    let t1 = cfg.apply(d1.serialize());
    let tail = |t1: &str| format!("config {:?}\n--- printed\n{}\n--- schema\n{}\n--- original document\n{}", cfg, t1, schema_text, doc_text);
    let d2 = match ExecutableDocument::parse_and_validate(&schema, t1.as_str(), "q2.graphql") {
        Ok(d) => d,
        Err(e) => {
            let kinds = c17::diagnostic_kinds(&e.errors, None);
            return Outcome::fail(format!("C19|doc|reparse-fails|{}", kinds.join("+")), format!("the printed document does not validate:\n{}\n{}", e.errors, tail(&t1)));
        }
    };
    if *d1 != *d2 {
        let at = diff_doc(&d1, &d2);
        return Outcome::fail(format!("C19|doc|not-equal|{}", tail2(&at)), format!("re-parsed document differs at {}\n{}", at, tail(&t1)));
    }
    let t2 = cfg.apply(d2.serialize());
    if t1 != t2 {
        return Outcome::fail("C19|doc|second-print-differs", format!("second print:\n{}\n{}", t2, tail(&t1)));
    }
    Outcome::Pass
}

fn field_set_roundtrip(schema_text: &str, ty: &str, fs_text: &str, cfg: &Cfg, ctx: &mut Ctx) -> Outcome {
    let schema = match c17::apollo_schema(schema_text) {
        Ok(s) => s,
        Err(_) => return ctx.skip("apollo rejects the schema"),
    };
    let Ok(name) = Name::new(ty) else { return ctx.skip("type name") };
    let f1 = match FieldSet::parse_and_validate(&schema, name.clone(), fs_text, "fs.graphql") {
        Ok(f) => f,
        Err(_) => return ctx.skip("generated field set does not validate"),
    };
    let t1 = cfg.apply(f1.serialize());
    let tail = |t1: &str| format!("config {:?} type {}\n--- printed\n{}\n--- original field set\n{}\n--- schema\n{}", cfg, ty, t1, fs_text, schema_text);
    let f2 = match FieldSet::parse_and_validate(&schema, name, t1.as_str(), "fs2.graphql") {
        Ok(f) => f,
        Err(e) => {
            let kinds = c17::diagnostic_kinds(&e.errors, None);
            return Outcome::fail(format!("C19|fieldset|reparse-fails|{}", kinds.join("+")), format!("the printed field set does not validate:\n{}\n{}", e.errors, tail(&t1)));
        }
    };
    if f1.selection_set != f2.selection_set {
        let at = diff_set(&f1.selection_set, &f2.selection_set).unwrap_or_else(|| "unlocated".into());
        return Outcome::fail(format!("C19|fieldset|not-equal|{}", tail2(&at)), format!("re-parsed field set differs at {}\n{}", at, tail(&t1)));
    }
    let t2 = cfg.apply(f2.serialize());
    if t1 != t2 {
        return Outcome::fail("C19|fieldset|second-print-differs", format!("second print:\n{}\n{}", t2, tail(&t1)));
    }
    Outcome::Pass
}

fn mixed_roundtrip(text: &str, cfg: &Cfg, ctx: &mut Ctx) -> Outcome {
    let (s1, d1) = match Parser::new().parse_mixed_validate(text, "m.graphql") {
        Ok(x) => x,
        Err(_) => return ctx.skip("mixed text does not validate"),
    };
    let ts = cfg.apply(s1.serialize());
    let td = cfg.apply(d1.serialize());
    let t1 = format!("{}\n{}", ts, td);
    let tail = |t1: &str| format!("config {:?}\n--- printed\n{}\n--- original mixed text\n{}", cfg, t1, text);
    let (s2, d2) = match Parser::new().parse_mixed_validate(t1.as_str(), "m2.graphql") {
        Ok(x) => x,
        Err(e) => {
            let kinds = c17::diagnostic_kinds(&e, None);
            return Outcome::fail(format!("C19|mixed|reparse-fails|{}", kinds.join("+")), format!("the printed mixed text does not validate:\n{}\n{}", e, tail(&t1)));
        }
    };
    if *d1 != *d2 {
        let at = diff_doc(&d1, &d2);
        return Outcome::fail(format!("C19|mixed|document-not-equal|{}", tail2(&at)), format!("re-parsed document differs at {}\n{}", at, tail(&t1)));
    }
    if *s1 != *s2 {
        return Outcome::fail("C19|mixed|schema-not-equal", format!("re-parsed schema differs\n{}", tail(&t1)));
    }
    let td2 = cfg.apply(d2.serialize());
    if td != td2 {
        return Outcome::fail("C19|mixed|second-print-differs", format!("second print of the document:\n{}\n{}", td2, tail(&t1)));
    }
    Outcome::Pass
}

pub fn check(bytes: &[u8], ctx: &mut Ctx) -> Outcome {
    let mut c = Choices::new(bytes);
    let cfg = Cfg::decode(&mut c);
    let stage = c.weighted(&[50, 25, 25]);
    let shuffle = c.bytes(8);
    let braced = c.coin();
    let type_pick = c.byte();
    let case = c17::gen_case_mode(&mut c, c17::Mode::Neutral);
    let schema_text = print_document(&case.schema_doc);
    let doc_text = print_document(&case.doc);
    let key_cfg = format!("{:?}", cfg);
    match stage {
        1 => {
            let rs = RefSchema::from_document(&case.schema_doc);
            let types: Vec<String> = rs.types.iter().filter(|t| matches!(t.kind, rast::TypeKind::Object | rast::TypeKind::Interface | rast::TypeKind::Union) && !t.name.starts_with("__")).map(|t| t.name.clone()).collect();
            if types.is_empty() {
                return ctx.skip("no composite type");
            }
            let ty = types[(type_pick as usize * types.len()) >> 8].clone();
            let opts = OpOpts { budget: 10, ..OpOpts::default() };
            // field sets are generated after the pair so that the stream positions are stable
            let sels = operation::field_set(&mut c, &rs, &ty, &opts);
            let full = print_selection_set(&sels);
            let fs_text = if braced { full.clone() } else { full.trim().trim_start_matches('{').trim_end_matches('}').trim().to_string() };
            ctx.class(format!("fieldset|{}|{}", if braced { "braced" } else { "bare" }, cfg.label()));
            ctx.nontrivial = fs_text.contains("... on");
            ctx.set_sample(format!("{} type={} fieldset={}\n{}", key_cfg, ty, fs_text, schema_text));
            field_set_roundtrip(&schema_text, &ty, &fs_text, &cfg, ctx)
        }
        2 => {
            let mut defs: Vec<rast::Definition> = case.schema_doc.defs.clone();
            defs.extend(case.doc.defs.iter().cloned());
            let mut sc = Choices::new(&shuffle);
            let mut out = vec![];
            while !defs.is_empty() {
                let i = sc.choose(defs.len());
                out.push(defs.remove(i));
            }
            let text = print_document(&rast::Document { defs: out });
            ctx.class(format!("mixed|{}", cfg.label()));
            ctx.nontrivial = text.contains("fragment ") || text.contains("... on");
            ctx.set_sample(format!("{}\n{}", key_cfg, text));
            mixed_roundtrip(&text, &cfg, ctx)
        }
        _ => {
            ctx.class(format!("doc|{}", cfg.label()));
            ctx.nontrivial = doc_text.contains("fragment ") || doc_text.contains("... on");
            ctx.set_sample(format!("{}\n{}{}{}", key_cfg, schema_text, SEP, doc_text));
            doc_roundtrip(&schema_text, &doc_text, &cfg, ctx)
        }
    }
}
