//! C08 AST serialization round-trips.
use crate::apollo::ser;
use crate::choices::Choices;
use crate::gen::syntax;
use crate::refmodel::printer;
use crate::runner::{Ctx, Outcome, Prop, Tier};
use apollo_compiler::ast;

pub fn prop() -> Prop {
    Prop::new(
        "C08",
        "AST serialization round-trips",
        "Cases: documents that are grammatical for the independent reference parser (every definition and extension \
         kind, descriptions quoted and block, directives at every location, variables with defaults and directives, \
         every value kind nested, shorthand queries at first and later positions, keywords as names), printed with \
         random ignored tokens, x serialization configuration (default, no_indent, indent_prefix over whitespace \
         prefixes incl. the empty one, initial_indent_level 0-3). Oracle: ast::Document::parse(text) Ok (else counted \
         as skipped: C05's matter); s1 = serialize(cfg); parse(s1) is Ok and equals the first AST; serializing the \
         re-parsed AST with the same cfg is byte-identical. Non-trivial: the document has >= 3 definition kinds or a \
         description or a nested value; distinct by (text, cfg).",
    )
    .random("documents", check, |t| if t == Tier::Quick { 1_500_000 } else { 8_000_000 }, |t| if t == Tier::Quick { 500 } else { 900 })
    .text(check_text_default)
    .assumptions(&["indent prefixes are whitespace-only strings (space/tab), as the property says"])
}

pub fn check_text(src: &str, cfg: &ser::SerCfg, ctx: &mut Ctx) -> Outcome {
    let a = match ast::Document::parse(src.to_string(), "a.graphql") {
        Ok(a) => a,
        Err(_) => return ctx.skip("apollo does not parse the reference-valid text (C05's matter)"),
    };
    let s1 = ser::render(a.serialize(), cfg);
    let b = match ast::Document::parse(s1.clone(), "b.graphql") {
        Ok(b) => b,
        Err(e) => {
            let first = e.errors.iter().next().map(|d| d.error.to_string()).unwrap_or_default();
            let first = first.split(", got").next().unwrap_or("").to_string();
            return Outcome::fail(
                format!("C08|reparse-error|{}|{}", cfg_kind(cfg), first),
                format!("serialized text does not parse ({}): {}\n--- input:\n{}\n--- serialized:\n{}", cfg.label(), e.errors, src, s1),
            );
        }
    };
    if b != a {
        // locate the first differing definition
        let i = a.definitions.iter().zip(b.definitions.iter()).position(|(x, y)| x != y).unwrap_or(a.definitions.len().min(b.definitions.len()));
        let kind = a.definitions.get(i).map(def_kind).unwrap_or_else(|| "count".into());
        return Outcome::fail(
            format!("C08|not-equal|{}|{}", cfg_kind(cfg), kind),
            format!("re-parsed AST differs at definition #{} ({}), cfg {}\n--- input:\n{}\n--- serialized:\n{}", i, kind, cfg.label(), src, s1),
        );
    }
    let s2 = ser::render(b.serialize(), cfg);
    if s2 != s1 {
        return Outcome::fail(format!("C08|second-print-differs|{}", cfg_kind(cfg)), format!("cfg {}\n--- first:\n{}\n--- second:\n{}", cfg.label(), s1, s2));
    }
    Outcome::Pass
}

fn cfg_kind(cfg: &ser::SerCfg) -> &'static str {
    match &cfg.indent {
        None => "default",
        Some(None) => "no_indent",
        Some(Some(_)) => "prefix",
    }
}

fn check_text_default(src: &str, ctx: &mut Ctx) -> Outcome {
    for cfg in [ser::SerCfg { indent: None, level: 0 }, ser::SerCfg { indent: Some(None), level: 0 }, ser::SerCfg { indent: Some(Some("\t".into())), level: 2 }] {
        if let f @ Outcome::Fail { .. } = check_text(src, &cfg, ctx) {
            return f;
        }
    }
    Outcome::Pass
}

pub fn check(bytes: &[u8], ctx: &mut Ctx) -> Outcome {
    let mut c = Choices::new(bytes);
    // small dimensions first: they must not starve when the document uses up the stream
    let cfg = ser::gen_cfg(&mut c);
    let d = syntax::document(&mut c, &syntax::Cfg::default());
    let toks = printer::doc_tokens(&d);
    let text = if c.coin() { printer::join_random(&toks, &mut c) } else { printer::join_plain(&toks) };
    let kinds: std::collections::BTreeSet<String> = d.defs.iter().map(|x| x.kind_name().0).collect();
    ctx.nontrivial = kinds.len() >= 3 || text.contains('"') || text.contains('[') ;
    ctx.class(cfg_kind(&cfg));
    ctx.set_sample(format!("cfg={} text={}", cfg.label(), text));
    check_text(&text, &cfg, ctx)
}

fn def_kind(d: &ast::Definition) -> String {
    // variant name from the Debug rendering (e.g. "ObjectTypeDefinition")
    let s = format!("{:?}", d);
    s.split(|c: char| !c.is_ascii_alphanumeric()).next().unwrap_or("").to_string()
}
