//! C12 Schema serialization round-trips and preserves order.
use crate::apollo::schema_walk::{diff, normalise_message, walk_schema, Diff};
use crate::choices::Choices;
use crate::gen::schema_ext;
use crate::refmodel::ast::{Definition, Document, TypeKind};
use crate::refmodel::order::{expected_order_with, is_builtin_type_name, BUILTIN_DIRECTIVE_NAMES};
use crate::refmodel::parser::parse_document;
use crate::refmodel::printer;
use crate::runner::{Ctx, Outcome, Prop, Tier};
use apollo_compiler::schema::{ComponentOrigin, ExtendedType};
use apollo_compiler::Schema;

pub fn prop() -> Prop {
    Prop::new(
        "C12",
        "Schema serialization round-trips and preserves order",
        "Cases: valid-by-construction schema documents (gen::schema, every type kind, descriptions, directive \
         applications everywhere) rewritten by gen::schema_ext: 0-3 extensions per type, every component \
         (directive / interface / field / value / member / input field) assigned to the definition or any \
         extension, extensions placed anywhere (before the definition, several in a row), explicit schema \
         definitions split into `extend schema` parts, implicit ones extended (root operations contributed by \
         extensions), one built-in directive redefined, built-in scalars / introspection types extended. Cases \
         whose Schema::parse reports build errors are skipped. Oracle: t = schema.to_string(); Schema::parse(t) \
         is Ok; equal (==) to the schema; an order-sensitive walk (type names, fields, arguments, enum values, \
         union members, implemented interfaces, every directive list with arguments, directive definitions, \
         schema definition) is equal; second serialization is byte-identical; valid stays valid; and the ordered \
         collections of the BUILT schema equal the order the source document implies (refmodel::order, independent \
         of apollo: definition's components first, then every extension's in source order wherever it is placed; \
         user types and directive definitions in definition order; built-in types: what the extensions added, at the end). \
         Non-trivial: at least one type (or the schema definition) has an extension; distinct by source text.",
    )
    .random("rich-extensions", check, |t| if t == Tier::Quick { 150_000 } else { 3_000_000 }, |t| if t == Tier::Quick { 1200 } else { 1600 })
    .random("adopt-orphans", check_adopt, |t| if t == Tier::Quick { 50_000 } else { 1_000_000 }, |t| if t == Tier::Quick { 1200 } else { 1600 })
    .text(check_text)
    .assumptions(&[
        "a `schema` definition always keeps at least one root operation (a definition without one is not grammatical)",
        "merged order of a type: the components of the definition, then those of each extension in source order, also for extensions written before the definition (what C13 states: moving an extension before its definition does not change the built schema)",
        "the order-sensitive walk prints leaf values (types, default values, directive applications) with apollo's own Display; value equality is decided by Schema's ==, order by the walk",
    ])
}

/// Number of type extensions (and schema extensions) that contributed a component.
fn extension_count(s: &Schema) -> usize {
    let mut n = s.schema_definition.extensions().len();
    for ty in s.types.values() {
        n += ty.extensions().len();
    }
    n
}

/// `(name, origin)` of the components of one ordered collection of a type, in schema order.
fn component_origins(s: &Schema, type_name: &str, kind: &str) -> Option<Vec<(String, ComponentOrigin)>> {
    let ty = s.types.get(type_name)?;
    let v = match (ty, kind) {
        (ExtendedType::Object(o), "fields") => o.fields.iter().map(|(k, f)| (k.to_string(), f.origin.clone())).collect(),
        (ExtendedType::Interface(o), "fields") => o.fields.iter().map(|(k, f)| (k.to_string(), f.origin.clone())).collect(),
        (ExtendedType::Object(o), "implements") => o.implements_interfaces.iter().map(|c| (c.name.to_string(), c.origin.clone())).collect(),
        (ExtendedType::Interface(o), "implements") => o.implements_interfaces.iter().map(|c| (c.name.to_string(), c.origin.clone())).collect(),
        (ExtendedType::Union(u), "members") => u.members.iter().map(|c| (c.name.to_string(), c.origin.clone())).collect(),
        (ExtendedType::Enum(e), "values") => e.values.iter().map(|(k, f)| (k.to_string(), f.origin.clone())).collect(),
        (ExtendedType::InputObject(i), "input-fields") => i.fields.iter().map(|(k, f)| (k.to_string(), f.origin.clone())).collect(),
        _ => return None,
    };
    Some(v)
}

/// Root-cause test for a reordered collection: is the reparsed order exactly the original order
/// with whole extension blocks permuted (definition block first, order inside every block kept)?
/// That is what emitting a type's extensions in another order than they were applied produces.
fn is_block_permutation(orig: &[(String, ComponentOrigin)], reparsed: &[String]) -> bool {
    if orig.len() != reparsed.len() {
        return false;
    }
    let origin_of = |n: &String| orig.iter().find(|(m, _)| m == n).map(|(_, o)| o.clone());
    let mut runs: Vec<(ComponentOrigin, Vec<String>)> = vec![];
    for n in reparsed {
        let Some(o) = origin_of(n) else { return false };
        match runs.last_mut() {
            Some((lo, v)) if *lo == o => v.push(n.clone()),
            _ => runs.push((o, vec![n.clone()])),
        }
    }
    for (i, (o, names)) in runs.iter().enumerate() {
        // one run per origin
        if runs.iter().skip(i + 1).any(|(p, _)| p == o) {
            return false;
        }
        // the definition's block comes first
        if *o == ComponentOrigin::Definition && i != 0 {
            return false;
        }
        // the block is complete and in the original relative order
        let expect: Vec<&String> = orig.iter().filter(|(_, p)| p == o).map(|(n, _)| n).collect();
        if expect.len() != names.len() || expect.iter().zip(names).any(|(a, b)| *a != b) {
            return false;
        }
    }
    true
}

fn order_failure(s: &Schema, d: &Diff) -> (String, String) {
    let list_kinds = ["fields", "implements", "members", "values", "input-fields"];
    let detail = format!("{}: built schema has [{}], reparsed schema has [{}]", d.path, d.left.as_deref().unwrap_or("<absent>"), d.right.as_deref().unwrap_or("<absent>"));
    if list_kinds.contains(&d.kind) {
        if let (Some(l), Some(r)) = (&d.left, &d.right) {
            let type_name = d.path.rsplit_once('.').map(|x| x.0).unwrap_or("").trim_start_matches("type ");
            let mut ln: Vec<&str> = l.split(',').collect();
            let mut rn: Vec<&str> = r.split(',').collect();
            let reparsed: Vec<String> = rn.iter().map(|x| x.to_string()).collect();
            ln.sort();
            rn.sort();
            if ln == rn {
                let (cause, why) = match component_origins(s, type_name, d.kind) {
                    Some(orig) if is_block_permutation(&orig, &reparsed) => ("extension-emission-order", "whole extensions were emitted in another order than they were applied"),
                    _ => ("unexplained", "not a permutation of whole extensions"),
                };
                return (format!("C12|order|{}|{}", d.kind, cause), format!("{detail} (same names, different order; {why})"));
            }
        }
        return (format!("C12|walk|{}", d.kind), detail);
    }
    let ordered = ["types", "directive-definitions", "arguments", "directive-arguments", "type-directives", "field-directives", "argument-directives", "value-directives", "input-field-directives", "schema-directives", "directive-argument-directives"];
    if ordered.contains(&d.kind) {
        if let (Some(l), Some(r)) = (&d.left, &d.right) {
            let sep = if d.kind.ends_with("directives") { ' ' } else { ',' };
            let mut ln: Vec<&str> = l.split(sep).collect();
            let mut rn: Vec<&str> = r.split(sep).collect();
            ln.sort();
            rn.sort();
            if ln == rn {
                return (format!("C12|order|{}|unexplained", d.kind), detail);
            }
        }
    }
    (format!("C12|walk|{}", d.kind), detail)
}

fn not_equal_where(a: &Schema, b: &Schema) -> String {
    if a.schema_definition != b.schema_definition {
        return "schema-definition".into();
    }
    if a.directive_definitions != b.directive_definitions {
        return "directive-definitions".into();
    }
    for (n, t) in &a.types {
        match b.types.get(n) {
            None => return "type-missing".into(),
            Some(u) if u != t => {
                let k = match t {
                    ExtendedType::Scalar(_) => "scalar",
                    ExtendedType::Object(_) => "object",
                    ExtendedType::Interface(_) => "interface",
                    ExtendedType::Union(_) => "union",
                    ExtendedType::Enum(_) => "enum",
                    ExtendedType::InputObject(_) => "input",
                };
                return format!("type|{k}");
            }
            _ => {}
        }
    }
    "type-extra".into()
}

/// Compare the ordered collections of the BUILT schema with the order the source document implies
/// (reference model `refmodel::order`: the definition's components, then every extension's in
/// source order; types and directive definitions in definition order).
pub fn source_order_failures(text: &str, s: &Schema, prefix: &str, adopt: bool) -> Option<Vec<(String, String)>> {
    let doc = parse_document(text).ok()?;
    let expected = expected_order_with(&doc, adopt);
    let actual = crate::apollo::schema_walk::order_facts(s, &|n| is_builtin_type_name(n), &|n| BUILTIN_DIRECTIVE_NAMES.contains(&n));
    let mut fails = vec![];
    for e in &expected {
        let got = actual.iter().find(|(p, _)| *p == e.path).map(|(_, v)| v.as_str());
        let ok = match got {
            None => false,
            Some(g) if e.suffix_only => {
                e.value.is_empty() || g == e.value || g.ends_with(&format!(",{}", e.value)) || g.ends_with(&format!(" {}", e.value))
            }
            Some(g) => g == e.value,
        };
        if !ok {
            let sig = format!("{prefix}|source-order|{}", e.kind);
            if !fails.iter().any(|(x, _): &(String, String)| *x == sig) {
                fails.push((
                    sig,
                    format!(
                        "{}: the source document implies [{}]{}, the built schema has [{}]",
                        e.path,
                        e.value,
                        if e.suffix_only { " at the end" } else { "" },
                        got.unwrap_or("<absent>")
                    ),
                ));
            }
        }
    }
    Some(fails)
}

pub const ADOPT_MARK: &str = "#---adopt";

fn build(text: &str, path: &str, adopt: bool) -> Result<Schema, apollo_compiler::validation::WithErrors<Schema>> {
    if adopt {
        Schema::builder().adopt_orphan_extensions().parse(text, path).build()
    } else {
        Schema::parse(text, path)
    }
}

/// The oracle, on any schema source text. A first line `#---adopt` selects the builder's
/// `adopt_orphan_extensions` mode for the build AND the re-parse.
pub fn check_text(text: &str, ctx: &mut Ctx) -> Outcome {
    let adopt = text.lines().next().map(|l| l.trim() == ADOPT_MARK).unwrap_or(false);
    check_text_mode(text, adopt, ctx)
}

pub fn check_text_mode(text: &str, adopt: bool, ctx: &mut Ctx) -> Outcome {
    let s = match build(text, "schema.graphql", adopt) {
        Ok(s) => s,
        Err(e) => {
            if ctx.strict {
                eprintln!("--- skipped, build errors: {:?}", crate::apollo::schema_walk::messages(&e.errors));
            }
            return ctx.skip("schema has build errors");
        }
    };
    ctx.nontrivial = extension_count(&s) >= 1;
    let t = s.to_string();
    if ctx.strict {
        eprintln!("--- serialized:\n{t}");
    }
    let s2 = match build(&t, "reparsed.graphql", adopt) {
        Ok(s2) => s2,
        Err(e) => {
            let first = e.errors.iter().next().map(|d| d.error.to_string()).unwrap_or_default();
            return Outcome::fail(
                format!("C12|reparse-error|{}", normalise_message(&first)),
                format!("the serialized schema does not build: {}\n--- serialized:\n{}", crate::apollo::schema_walk::messages(&e.errors).join(" / "), t),
            );
        }
    };
    let mut fails: Vec<(String, String)> = vec![];
    match source_order_failures(text, &s, "C12", adopt) {
        Some(f) => fails.extend(f.into_iter().map(|(sig, d)| (sig, format!("{d}\n--- source:\n{text}")))),
        None => ctx.class("source-not-parsed-by-reference"),
    }
    if s2 != s {
        let w = not_equal_where(&s, &s2);
        fails.push((format!("C12|not-equal|{w}"), format!("reparsed schema != built schema ({w})\n--- serialized:\n{t}")));
    }
    let w1 = walk_schema(&s);
    let w2 = walk_schema(&s2);
    for d in diff(&w1, &w2) {
        let (sig, detail) = order_failure(&s, &d);
        if !fails.iter().any(|(x, _)| *x == sig) {
            fails.push((sig, format!("{detail}\n--- serialized:\n{t}")));
        }
    }
    let t2 = s2.to_string();
    if t2 != t {
        let at = t.bytes().zip(t2.bytes()).position(|(a, b)| a != b).unwrap_or(t.len().min(t2.len()));
        fails.push(("C12|second-print-differs".into(), format!("serializing the reparsed schema gives different text (first difference at byte {at})\n--- first:\n{t}\n--- second:\n{t2}")));
    }
    let valid = s.clone().validate().is_ok();
    ctx.class(if valid { "valid" } else { "builds-but-invalid" });
    if valid {
        if let Err(e) = s2.validate() {
            let first = e.errors.iter().next().map(|d| d.error.to_string()).unwrap_or_default();
            fails.push((
                format!("C12|validity-lost|{}", normalise_message(&first)),
                format!("the built schema is valid but the reparsed one is not: {}\n--- serialized:\n{}", crate::apollo::schema_walk::messages(&e.errors).join(" / "), t),
            ));
        }
    }
    ctx.pick_failure(fails)
}

pub fn check(bytes: &[u8], ctx: &mut Ctx) -> Outcome {
    let mut c = Choices::new(bytes);
    let max_types = if ctx.tier == Tier::Quick { 2 } else { 3 };
    let (doc, st) = schema_ext::rich_schema(&mut c, max_types);
    let text = printer::print_document(&doc);
    ctx.set_sample(text.clone());
    ctx.class(format!("max-exts-per-type:{}", st.max_exts_one_type));
    if st.dir_and_components > 0 {
        ctx.class("ext-with-directive-and-components");
    }
    if st.adjacent_same_type > 0 {
        ctx.class("same-type-extensions-in-a-row");
    }
    if st.ext_before_def > 0 {
        ctx.class("extension-before-definition");
    }
    if let Some(w) = st.builtin_redefined {
        ctx.class(format!("builtin-redefined:{w}"));
    }
    ctx.class(if st.explicit_schema { "schema:explicit" } else { "schema:implicit" });
    if st.schema_exts > 0 {
        ctx.class(if st.explicit_schema { "schema-ext:explicit" } else { "schema-ext:implicit" });
    }
    if st.root_omitted {
        ctx.class("explicit-schema-omits-a-root");
    }
    if st.roots_in_ext > 0 {
        ctx.class("root-operation-in-extension");
    }
    if st.builtin_scalar_ext {
        ctx.class("builtin-scalar-extended");
    }
    if st.introspection_ext {
        ctx.class("introspection-type-extended");
    }
    if !st.tag_defined {
        ctx.class("undefined-directive-applied");
    }
    for k in &st.kinds_extended {
        ctx.class(format!("extended:{}", k.keyword()));
    }
    check_text(&text, ctx)
}

/// `adopt_orphan_extensions` axis: some definitions of a rich schema are turned into extensions
/// (or dropped while their extensions stay), so that types and the schema definition exist only
/// through extensions; built and re-parsed in that mode.
pub fn check_adopt(bytes: &[u8], ctx: &mut Ctx) -> Outcome {
    let mut c = Choices::new(bytes);
    // decisions first, so that a short stream does not starve them
    let pre = c.bytes(12);
    let mut pc = Choices::new(&pre);
    let max_types = if ctx.tier == Tier::Quick { 2 } else { 3 };
    let (doc, _) = schema_ext::rich_schema(&mut c, max_types);
    let mut defs: Vec<Definition> = vec![];
    let (mut orphan_types, mut orphan_schema) = (0, false);
    for d in doc.defs {
        match d {
            Definition::Type(mut t) if !t.is_ext && !is_builtin_type_name(&t.name) && pc.bool(70) => {
                let has_components = !(t.directives.is_empty() && t.implements.is_empty() && t.fields.is_empty() && t.members.is_empty() && t.values.is_empty() && t.input_fields.is_empty());
                orphan_types += 1;
                if has_components && (t.kind != TypeKind::Scalar || !t.directives.is_empty()) && pc.bool(200) {
                    // the definition becomes one more extension (extensions have no description)
                    t.is_ext = true;
                    t.description = None;
                    defs.push(Definition::Type(t));
                }
                // else: the definition disappears, its extensions (if any) stay
            }
            Definition::Schema(mut sd) if !sd.is_ext && pc.bool(150) => {
                orphan_schema = true;
                sd.is_ext = true;
                sd.description = None;
                defs.push(Definition::Schema(sd));
            }
            d => defs.push(d),
        }
    }
    let doc = Document { defs };
    let text = format!("{ADOPT_MARK}\n{}", printer::print_document(&doc));
    ctx.set_sample(text.clone());
    ctx.class(format!("adopt:orphan-types:{}", orphan_types.min(3)));
    if orphan_schema {
        ctx.class("adopt:schema-definition-only-extensions");
    }
    check_text_mode(&text, true, ctx)
}
