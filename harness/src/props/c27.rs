//! C27 Async execution does not depend on the schedule.
//!
//! The cases of C26 (schema, operation, variables, resolver world) are executed twice: with
//! `execute_sync` over `ObjectValue`s and with `execute_async` over `AsyncObjectValue`s whose
//! futures (one per resolver call) and list streams (one poll sequence per item and one for the
//! end of the list) return `Pending` k times before completing, waking themselves each time.
//! k per future comes from a schedule: every assignment in {0,1,2}^m when the request creates
//! m <= 5 futures, otherwise the all-zero schedule plus schedules drawn from the choice stream.
//! The async run is driven by a hand-rolled single-threaded poll loop (`apollo::exec`) that
//! reports a `Pending` without a registered wake-up instead of hanging.
//!
//! Oracle (the property itself; the sync run is the reference): same `data` (incl. key order),
//! same `errors` (paths and messages, in order), the same resolver calls (object type, field,
//! path, arguments) in the same order; for mutations, directly: all events below one root
//! response key (resolver calls, completed futures, yielded list items) come before the first
//! event of the next root key. The sync response is additionally checked against the reference
//! executor exactly as in C26, so a case where both runs agree on a wrong answer is still seen.

use crate::apollo::exec::{self, AsyncRun, Event, Observed};
use crate::choices::Choices;
use crate::gen::exec_ops;
use crate::props::c26::{self, dev_scale, Built, BuildErr};
use crate::refmodel::executor::{path_string, Seg};
use crate::runner::{catch, normalise_panic, Ctx, Outcome, Prop, Tier};

pub fn prop() -> Prop {
    Prop::new(
        "C27",
        "Async execution does not depend on the schedule",
        "Cases: the (schema, operation, variables, resolver world) cases of C26 with more mutations, times schedules of \
         pending-poll counts: one count per resolver future and per list-stream step (item or end), by order of creation. \
         All 3^m schedules over {0,1,2} when the request creates m <= 5 futures (m <= 6 in the thorough tier; exhaustive \
         sub-space, counted as sub-evaluations); otherwise the all-zero schedule plus 3 schedules over {0..3} drawn from the choice stream. \
         Oracle: execute_async under a single-threaded poll loop equals execute_sync (data with key order, error paths \
         and messages in order, resolver call log in order); no Pending without a registered wake-up; for mutations the \
         events of one root field all precede the first event of the next. Non-trivial: at least one future was pending \
         at least once and the request made >= 2 resolver calls; distinct by operation + variables + schema + world.",
    )
    .random("schedules", check, |t| dev_scale(if t == Tier::Quick { 250_000 } else { 5_000_000 }), |t| if t == Tier::Quick { 900 } else { 1500 })
    .assumptions(&[
        "the equivalent synchronous resolvers are the same resolver world served through ObjectValue; the sync run is the reference, as the property states",
        "futures wake themselves before returning Pending, so a correct executor's top-level future is always woken when it returns Pending; a Pending without a wake-up is reported as a lost wake-up",
        "futures are numbered in order of creation, which is deterministic because execution is sequential; a run that creates futures in another order shows up as a different call log",
    ])
}

fn opts(tier: Tier) -> exec_ops::Opts {
    exec_ops::Opts { mutation_p: 215, ..c26::opts(tier) }
}

fn split3(bytes: &[u8]) -> (Vec<u8>, Vec<u8>, Vec<u8>) {
    let (cb, rest) = exec_ops::split_world_bytes(bytes);
    let cut = rest.len() - rest.len() / 3;
    (cb, rest[..cut].to_vec(), rest[cut..].to_vec())
}

fn root_key(e: &Event) -> Option<&str> {
    match e.path().first() {
        Some(Seg::Key(k)) => Some(k.as_str()),
        _ => None,
    }
}

/// Root response keys in order of first event, and whether a root key reappears after another
/// one has started (interleaving).
fn root_sequence(events: &[Event]) -> (Vec<String>, Option<String>) {
    let mut seq: Vec<String> = vec![];
    for e in events {
        let Some(k) = root_key(e) else { continue };
        if seq.last().map(|l| l == k).unwrap_or(false) {
            continue;
        }
        if seq.iter().any(|s| s == k) {
            return (seq, Some(k.to_string()));
        }
        seq.push(k.to_string());
    }
    (seq, None)
}

fn render_calls(o: &Observed) -> String {
    o.events
        .iter()
        .filter_map(|e| if let Event::Call(c) = e { Some(format!("{}.{}@{}", c.object_type, c.field, path_string(&c.path))) } else { None })
        .collect::<Vec<_>>()
        .join(" ")
}

fn compare_runs(sync: &Observed, a: &Observed, ks: &[u8], is_mutation: bool, fails: &mut Vec<(String, String)>) {
    let sched = format!("schedule {:?}", ks);
    if sync.data != a.data {
        fails.push(("C27|data".into(), format!("{}: sync data {} async data {}", sched, sync.data, a.data)));
    } else if sync.data.to_string() != a.data.to_string() {
        fails.push(("C27|data|key-order".into(), format!("{}: sync data {} async data {}", sched, sync.data, a.data)));
    }
    if sync.error_paths != a.error_paths {
        let kind = {
            let mut x = sync.error_paths.clone();
            let mut y = a.error_paths.clone();
            x.sort();
            y.sort();
            if x == y {
                "order"
            } else {
                "paths"
            }
        };
        fails.push((
            format!("C27|errors|{}", kind),
            format!("{}: sync errors {:?} async errors {:?}", sched, sync.error_paths.iter().map(|p| path_string(p)).collect::<Vec<_>>(), a.error_paths.iter().map(|p| path_string(p)).collect::<Vec<_>>()),
        ));
    } else if sync.error_messages != a.error_messages {
        fails.push(("C27|errors|messages".into(), format!("{}: sync {:?} async {:?}", sched, sync.error_messages, a.error_messages)));
    }
    let sc: Vec<_> = sync.events.iter().filter_map(|e| if let Event::Call(c) = e { Some(c) } else { None }).collect();
    let ac: Vec<_> = a.events.iter().filter_map(|e| if let Event::Call(c) = e { Some(c) } else { None }).collect();
    if sc != ac {
        let kind = if sc.len() != ac.len() {
            "count"
        } else if sc.iter().all(|c| ac.contains(c)) {
            "order"
        } else {
            "content"
        };
        fails.push((format!("C27|calls|{}", kind), format!("{}: sync calls [{}] async calls [{}]", sched, render_calls(sync), render_calls(a))));
    }
    for p in &a.problems {
        fails.push(("C27|resolver-call|unexpected".into(), format!("{}: {}", sched, p)));
    }
    if is_mutation {
        if let (_, Some(k)) = root_sequence(&a.events) {
            fails.push(("C27|mutation|root-fields-interleaved".into(), format!("{}: an event of root field {:?} after the next root field had started; events {:?}", sched, k, a.events.iter().map(|e| path_string(e.path())).collect::<Vec<_>>())));
        }
        let (seq, _) = root_sequence(&a.events);
        let (sseq, _) = root_sequence(&sync.events);
        if seq != sseq {
            fails.push(("C27|mutation|root-field-order".into(), format!("{}: sync {:?} async {:?}", sched, sseq, seq)));
        }
    }
}

pub fn check(bytes: &[u8], ctx: &mut Ctx) -> Outcome {
    let (cb, wb, sb) = split3(bytes);
    let case = exec_ops::case(&cb, &opts(ctx.tier));
    let b: Built = match c26::build_from(case, &wb, None, ctx.tier) {
        Err(BuildErr::Skip(why)) => return ctx.skip(why),
        Ok(b) => b,
    };
    ctx.set_sample(c26::render(&b));
    c26::classify(&b, ctx);
    let c = match c26::compile(&b, ctx) {
        Ok(c) => c,
        Err(why) => return ctx.skip(why),
    };
    let is_mutation = b.case.operation().op == crate::refmodel::ast::OpType::Mutation;
    let sync = match catch(|| exec::execute_sync(&c.schema, &c.doc, &c.variables, &b.world, &c.root)) {
        Ok(Ok(o)) => o,
        Ok(Err(_)) => return ctx.skip("sync-request-error"),
        Err((msg, loc)) => return Outcome::fail(format!("C27|panic|execute_sync|{}", normalise_panic(&msg, &loc)), format!("panic: {} at {}", msg, loc)),
    };
    let mut fails: Vec<(String, String)> = vec![];
    // the sync answer itself is right (as in C26)
    fails.extend(c26::compare("C27|sync-vs-reference", &b, &sync, ctx));

    let run = |ks: Vec<u8>| catch(|| exec::execute_async(&c.schema, &c.doc, &c.variables, &b.world, &c.root, ks));
    // the all-zero schedule also tells how many futures the request creates
    let mut m = 0usize;
    let exhaustive_bound = if ctx.tier == Tier::Thorough { 6 } else { 5 };
    let mut total_pendings = 0usize;
    let mut schedules: Vec<Vec<u8>> = vec![vec![]];
    let mut i = 0;
    while i < schedules.len() {
        let ks = schedules[i].clone();
        i += 1;
        ctx.sub_evals += 1;
        match run(ks.clone()) {
            Err((msg, loc)) => {
                fails.push((format!("C27|panic|execute_async|{}", normalise_panic(&msg, &loc)), format!("schedule {:?}: panic: {} at {}", ks, msg, loc)));
                break;
            }
            Ok(AsyncRun::RequestError(e)) => {
                fails.push(("C27|request-error".into(), format!("schedule {:?}: {}", ks, e)));
                break;
            }
            Ok(AsyncRun::LostWakeup { polls, pendings }) => {
                fails.push(("C27|lost-wakeup".into(), format!("schedule {:?}: the top-level future returned Pending at poll {} although no wake-up was registered ({} leaf Pendings so far)", ks, polls, pendings)));
                break;
            }
            Ok(AsyncRun::NoProgress { polls }) => {
                fails.push(("C27|no-progress".into(), format!("schedule {:?}: still Pending after {} polls", ks, polls)));
                break;
            }
            Ok(AsyncRun::Done { observed, pendings, futures, .. }) => {
                total_pendings += pendings;
                compare_runs(&sync, &observed, &ks, is_mutation, &mut fails);
                if i == 1 {
                    m = futures;
                    if m == 0 {
                        // nothing to schedule
                    } else if m <= exhaustive_bound {
                        ctx.class(format!("schedules:exhaustive-m={}", m));
                        let total = 3usize.pow(m as u32);
                        for code in 1..total {
                            let mut ks = vec![];
                            let mut x = code;
                            for _ in 0..m {
                                ks.push((x % 3) as u8);
                                x /= 3;
                            }
                            schedules.push(ks);
                        }
                    } else {
                        ctx.class("schedules:random");
                        let mut sc = Choices::new(&sb);
                        for _ in 0..3 {
                            let ks: Vec<u8> = (0..m).map(|_| sc.weighted(&[40, 30, 20, 10]) as u8).collect();
                            schedules.push(ks);
                        }
                        // one schedule that delays everything once (independent of the stream)
                        schedules.push(vec![1; m]);
                    }
                } else if futures != m {
                    fails.push(("C27|futures-count".into(), format!("schedule {:?}: {} futures created, {} under the all-zero schedule", ks, futures, m)));
                }
            }
        }
        if !fails.is_empty() {
            break;
        }
    }
    ctx.class(format!(
        "futures={}",
        match m {
            0 => "0",
            1..=2 => "1-2",
            3..=5 => "3-5",
            6..=15 => "6-15",
            _ => "16+",
        }
    ));
    if is_mutation {
        let (seq, _) = root_sequence(&sync.events);
        ctx.class(format!("mutation:root-fields-resolved={}", seq.len().min(4)));
    }
    ctx.nontrivial = total_pendings > 0 && sync.events.iter().filter(|e| matches!(e, Event::Call(_))).count() >= 2;
    ctx.pick_failure(fails)
}

#[cfg(test)]
mod tests {
    use super::*;

    /// Development aid: `cargo test --release c27::tests::explore -- --ignored --nocapture`
    #[test]
    #[ignore]
    fn explore() {
        let n: u64 = std::env::var("N").ok().and_then(|s| s.parse().ok()).unwrap_or(2000);
        let mut fails: std::collections::BTreeMap<String, (u64, String)> = Default::default();
        let mut classes: std::collections::BTreeMap<String, u64> = Default::default();
        let (mut subs, mut nt) = (0, 0);
        let t0 = std::time::Instant::now();
        for i in 0..n {
            let bytes = crate::runner::gen_case(20260921, "C27", 0, i, 900);
            let mut ctx = Ctx::new(Tier::Quick, false);
            let r = check(&bytes, &mut ctx);
            subs += ctx.sub_evals;
            if ctx.nontrivial {
                nt += 1;
            }
            for c in &ctx.classes {
                if c.starts_with("schedules") || c.starts_with("futures") || c.starts_with("mutation") {
                    *classes.entry(c.clone()).or_insert(0) += 1;
                }
            }
            if let Outcome::Fail { sig, detail } = r {
                let e = fails.entry(sig).or_insert((0, String::new()));
                e.0 += 1;
                if e.1.is_empty() {
                    e.1 = format!("#{} {}\n{}", i, detail, ctx.sample.unwrap_or_default());
                }
            }
        }
        println!("elapsed {:?} for {} cases, {} async runs, {} nontrivial", t0.elapsed(), n, subs, nt);
        println!("{:#?}", classes);
        for (k, (n, d)) in &fails {
            println!("FAIL {} x{}\n{}\n", k, n, crate::runner::truncate(d, 2500));
        }
    }
}
