//! Helpers for exhaustively enumerated stages (C10, C23, C29): index -> string over a small
//! alphabet, index -> type reference up to a nesting bound, reference type -> apollo type.
//! Everything here is a pure function of its arguments.

use crate::refmodel::ast::Type;
use apollo_compiler::ast;
use apollo_compiler::Name;

/// Number of strings of length `0..=max_len` over `k` symbols.
pub fn count_strings(k: u64, max_len: u32) -> u64 {
    (0..=max_len).map(|l| k.pow(l)).sum()
}

/// The `i`-th string over `alphabet`: lengths ascending (index 0 is the empty string), within one
/// length the base-k digits of the offset, most significant first.
pub fn nth_string(mut i: u64, alphabet: &[char]) -> String {
    let k = alphabet.len() as u64;
    let mut len = 0u32;
    let mut block = 1u64;
    while i >= block {
        i -= block;
        len += 1;
        block *= k;
    }
    let mut s = String::with_capacity(len as usize * 2);
    let mut div = block;
    for _ in 0..len {
        div /= k;
        s.push(alphabet[((i / div) % k) as usize]);
    }
    s
}

/// Number of type references with at most `depth` list wrappers over `n` named types:
/// S(0) = 2n (nullable / non-null), S(d) = 2n + 2 S(d-1).
pub fn count_types(n: u64, depth: u32) -> u64 {
    let mut s = 2 * n;
    for _ in 0..depth {
        s = 2 * n + 2 * s;
    }
    s
}

/// The `i`-th type reference (`i < count_types(names.len(), depth)`): first the named types
/// (`N`, `N!` for each name), then `[T]`, `[T]!` for every `T` of depth-1.
pub fn nth_type(i: u64, names: &[&str], depth: u32) -> Type {
    let n2 = 2 * names.len() as u64;
    if i < n2 {
        let t = Type::named(names[(i / 2) as usize]);
        return if i % 2 == 1 { t.non_null() } else { t };
    }
    assert!(depth > 0, "type index out of range");
    let j = i - n2;
    let t = nth_type(j / 2, names, depth - 1).list();
    if j % 2 == 1 {
        t.non_null()
    } else {
        t
    }
}

/// Build apollo's `ast::Type` for a reference type (names must be valid GraphQL names).
pub fn to_apollo_type(t: &Type) -> ast::Type {
    match t {
        Type::Named(n) => ast::Type::Named(Name::new(n).expect("valid name")),
        Type::List(inner) => ast::Type::List(Box::new(to_apollo_type(inner))),
        Type::NonNull(inner) => match &**inner {
            Type::Named(n) => ast::Type::NonNullNamed(Name::new(n).expect("valid name")),
            Type::List(item) => ast::Type::NonNullList(Box::new(to_apollo_type(item))),
            Type::NonNull(_) => to_apollo_type(inner),
        },
    }
}

/// `[_A-Za-z][_0-9A-Za-z]*`, written directly from the GraphQL Name grammar (spec 2.1.9).
pub fn ref_is_name(s: &str) -> bool {
    let mut it = s.chars();
    match it.next() {
        Some(c) if c == '_' || ('A'..='Z').contains(&c) || ('a'..='z').contains(&c) => {}
        _ => return false,
    }
    it.all(|c| c == '_' || ('A'..='Z').contains(&c) || ('a'..='z').contains(&c) || ('0'..='9').contains(&c))
}

#[cfg(test)]
mod tests {
    use super::*;
    #[test]
    fn strings_enumerate_without_gaps() {
        let a = ['a', 'b', 'c'];
        let total = count_strings(3, 3);
        assert_eq!(total, 1 + 3 + 9 + 27);
        let all: Vec<String> = (0..total).map(|i| nth_string(i, &a)).collect();
        assert_eq!(all[0], "");
        assert_eq!(all[1], "a");
        assert_eq!(all[4], "aa");
        assert_eq!(all[5], "ab");
        assert_eq!(all[total as usize - 1], "ccc");
        let set: std::collections::BTreeSet<&String> = all.iter().collect();
        assert_eq!(set.len(), total as usize);
    }
    #[test]
    fn types_enumerate_without_gaps() {
        let names = ["A", "B"];
        for d in 0..4 {
            let total = count_types(2, d);
            let all: std::collections::BTreeSet<String> = (0..total).map(|i| nth_type(i, &names, d).print()).collect();
            assert_eq!(all.len(), total as usize);
            assert!(all.iter().all(|t| t.matches('[').count() <= d as usize));
        }
        assert_eq!(count_types(7, 2), 98);
        assert_eq!(nth_type(5, &names, 2).print(), "[A]!");
        assert_eq!(to_apollo_type(&nth_type(5, &names, 2)).to_string(), "[A]!");
    }
    #[test]
    fn names() {
        for ok in ["_", "a", "Z9", "__x_1"] {
            assert!(ref_is_name(ok));
        }
        for bad in ["", "9a", "a-b", "é", "a é", "a\u{0}"] {
            assert!(!ref_is_name(bad));
        }
    }
}
